import sys, json, time
sys.path.insert(0, '/verif')
from pyvc import main as M
CON = M._load_all()
prop = sys.argv[1]; only = sys.argv[2:] or None
roots, seen, results, wall = M.verify_property(prop, 'quick', 16, only=only, verbose=True)
obl = M.aggregate(results)
bad = 0
for k, o in sorted(obl.items()):
    st = 'OK ' if o['discharged']==o['instances'] else 'BAD'
    if st=='BAD': bad+=1
    print(st, k, f"{o['discharged']}/{o['instances']}", o['backends'], round(o['time'],2))
    for f in o['failed'][:2]:
        print('    FAILED case:', f['case_desc'], 'witness:', f.get('witness'), f.get('witness_error'), 'note:', f.get('note'))
    for f in o['unknown'][:2]:
        print('    UNKNOWN case:', f['case_desc'], f.get('term','')[:300])
for r in results:
    for u in r['undecided']:
        print('UNDECIDED', r['contract'], r['case_desc'], u)
    if r.get('crash'): print('CRASH', r['contract'], r['crash'], r['traceback'])
print('obligations', len(obl), 'bad', bad, 'wall', round(wall,1))
