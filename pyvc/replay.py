"""
pyvc.replay -- run a counterexample against the REAL code (plain import of /repo, no shadow
loading, no proxies) and evaluate the contract natively.

usage: python -m pyvc.replay <replay.json>
exit 0: violation reproduced on the real code; 1: not reproduced; 2: replay error.
Prints one JSON object describing what was observed.
"""
from __future__ import annotations

import importlib
import json
import os
import sys
import traceback

HERE = os.path.dirname(os.path.dirname(os.path.abspath(__file__)))


def R(ref: str):
    modname, _, qual = ref.partition(":")
    obj = importlib.import_module(modname)
    for p in qual.split("."):
        if p:
            obj = getattr(obj, p)
    return obj


def NEW(ref: str, **fields):
    cls = R(ref)
    obj = object.__new__(cls)
    for k, v in fields.items():
        object.__setattr__(obj, k, v)
    return obj


def seg_bytes(lo, hi):
    return bytes(((i * 131) ^ (i >> 8) ^ 0x5A) & 0xFF for i in range(lo, hi))


def SEG(lo, hi, mutable=False):
    b = seg_bytes(lo, hi)
    return bytearray(b) if mutable else b


def build_ns():
    import numpy as np

    ns = dict(R=R, NEW=NEW, SEG=SEG, np=np, float=float, slice=slice)
    return ns


def raw_callable(ref: str):
    modname, _, qual = ref.partition(":")
    mod = importlib.import_module(modname)
    owner = mod
    parts = qual.split(".")
    for p in parts[:-1]:
        owner = getattr(owner, p)
    raw = owner.__dict__[parts[-1]] if isinstance(owner, type) else getattr(owner, parts[-1])
    if isinstance(raw, staticmethod):
        return raw.__func__, None
    if isinstance(raw, classmethod):
        return raw.__func__, owner
    if isinstance(raw, property):
        return raw.fget, None
    return raw, None


def evaluate(contract, args: dict, allow_pre_fail=False):
    """Run the real function on args and evaluate the contract natively."""
    from pyvc.engine_native import call_fn, call_by_name_native

    obs = {"failed_clauses": [], "pre_ok": True}
    if contract.native_oracle is not None and contract.kind == "lemma":
        obs["failed_clauses"] = list(contract.native_oracle(args))
        obs["oracle"] = "native oracle of the lemma"
        return obs
    if contract.native_oracle is not None:
        fn, cls = raw_callable(contract.fn)

        def run():
            import inspect

            try:
                r = call_fn(fn, args, cls)
                if inspect.isgenerator(r):
                    r = list(r)
                return ("return", r)
            except Exception as e:  # pylint: disable=broad-except
                obs["traceback"] = traceback.format_exc()[-1500:]
                return ("raise", e)

        obs["failed_clauses"] = list(contract.native_oracle(args, run))
        obs["oracle"] = "native oracle of the contract (content-based)"
        return obs
    for i, r in enumerate(contract.requires):
        try:
            ok = bool(call_by_name_native(r, args))
        except Exception as e:  # pylint: disable=broad-except
            ok = False
            obs.setdefault("pre_errors", []).append(f"requires#{i}: {type(e).__name__}: {e}")
        if not ok:
            obs["pre_ok"] = False
            obs.setdefault("pre_failed", []).append(i)
    if not obs["pre_ok"] and not allow_pre_fail:
        return obs
    env = dict(args)
    if contract.old is not None:
        env["old"] = call_by_name_native(contract.old, args)
    if contract.kind == "lemma":
        from pyvc import engine_native

        engine_native.CLAIM_FAILURES.clear()
        try:
            contract.body(**args)
            obs["outcome"] = "return"
        except Exception as e:  # pylint: disable=broad-except
            from pyvc.engine import ghost_gap

            obs["outcome"] = f"raise {type(e).__name__}: {e}"
            if ghost_gap(e):
                obs["ghost_gap"] = ghost_gap(e)  # a gap of the stand-in collaborators, not a failure of the code
            else:
                obs["failed_clauses"].append(f"no-exception:{type(e).__name__}")
        obs["failed_clauses"].extend(engine_native.CLAIM_FAILURES)
        return obs
    fn, cls = raw_callable(contract.fn)
    try:
        result = call_fn(fn, args, cls)
        import inspect

        if inspect.isgenerator(result):
            result = list(result)
        outcome = ("return", result)
    except Exception as e:  # pylint: disable=broad-except
        outcome = ("raise", e)
        obs["traceback"] = traceback.format_exc()[-1500:]
    if outcome[0] == "return":
        env["result"] = outcome[1]
        obs["outcome"] = "return"
        try:
            obs["result_repr"] = repr(outcome[1])[:500]
        except Exception:  # pylint: disable=broad-except
            obs["result_repr"] = "<unprintable>"
        for exc_t, when in contract.raises:
            try:
                w = bool(call_by_name_native(when, env))
            except Exception as e:  # pylint: disable=broad-except
                w = False
            if w:
                obs["failed_clauses"].append(f"no-raise-when:{exc_t.__name__}")
        for label, e in contract.labelled_ensures():
            try:
                ok = bool(call_by_name_native(e, env))
            except Exception as ex:  # pylint: disable=broad-except
                ok = False
                obs.setdefault("clause_errors", []).append(f"{label}: {type(ex).__name__}: {ex}")
            if not ok:
                obs["failed_clauses"].append(f"post:{label}")
    else:
        exc = outcome[1]
        env["exc"] = exc
        obs["outcome"] = f"raise {type(exc).__name__}: {str(exc)[:200]}"
        matched = False
        for exc_t, when in contract.raises:
            if isinstance(exc, exc_t):
                matched = True
                try:
                    w = bool(call_by_name_native(when, env))
                except Exception:  # pylint: disable=broad-except
                    w = False
                if not w:
                    obs["failed_clauses"].append(f"raise-only-when:{exc_t.__name__}")
        if not matched:
            label = "internal-assert" if isinstance(exc, AssertionError) else type(exc).__name__
            obs["failed_clauses"].append(f"no-exception:{label}")
    return obs


class _NoSampler(Exception):
    pass


def native_make(shape, rng, args):
    """a native random value of an input shape (bounded search around a failed obligation)"""
    from pyvc import contract as K

    if not isinstance(shape, K.Shape):
        return shape
    if isinstance(shape, K.Const):
        return shape.v
    if isinstance(shape, K.Value):
        return shape.v
    if isinstance(shape, K.Real):
        for _ in range(200):
            kind = rng.random()
            if kind < 0.45:
                v = rng.randint(-48, 48) / 8.0
            elif kind < 0.7:
                v = rng.randint(-640, 640) / 64.0
            elif kind < 0.85:
                v = float(rng.randint(-6, 6)) + rng.choice([0.0, 1e-9, -1e-9, 1e-5, -1e-5, 0.5, 0.499999, 0.500001])
            else:
                v = rng.uniform(-100, 100)
            if shape.ge is not None and not v >= shape.ge:
                continue
            if shape.le is not None and not v <= shape.le:
                continue
            if shape.gt is not None and not v > shape.gt:
                continue
            if shape.lt is not None and not v < shape.lt:
                continue
            return v
        lo = shape.ge if shape.ge is not None else shape.gt if shape.gt is not None else 0.0
        hi = shape.le if shape.le is not None else shape.lt if shape.lt is not None else lo + 1.0
        return lo + (hi - lo) * rng.choice([0.25, 0.5, 0.75, 1e-3])
    if isinstance(shape, K.Int):
        lo = shape.ge if shape.ge is not None else -9
        hi = shape.le if shape.le is not None else lo + 24
        return rng.randint(lo, hi)
    if isinstance(shape, K.SymBoolShape):
        return rng.random() < 0.5
    if isinstance(shape, K.Tup):
        vals = [native_make(e, rng, args) for e in shape.elems]
        return list(vals) if shape.as_list else tuple(vals)
    if isinstance(shape, K.Slice):
        return slice(native_make(shape.start, rng, args), native_make(shape.stop, rng, args), native_make(shape.step, rng, args))
    if isinstance(shape, K.Obj):
        return NEW(shape.cls_ref, **{k: native_make(v, rng, args) for k, v in shape.fields.items()})
    if isinstance(shape, K.Build):
        return R(shape.fn_ref)(*[native_make(a, rng, args) for a in shape.args], **{k: native_make(v, rng, args) for k, v in shape.kwargs.items()})
    if isinstance(shape, K.SeqOf):
        n = rng.randint(shape.min_len, min(shape.max_len if shape.max_len is not None else 5, 5))
        vals = [native_make(shape.elem, rng, args) for _ in range(n)]
        if shape.kind == "array":
            import numpy as np

            return np.asarray(vals, dtype="int32" if isinstance(shape.elem, K.Int) else "float64")
        return vals if shape.kind == "list" else tuple(vals)
    if isinstance(shape, K.OneOf):
        return native_make(rng.choice(shape.alts), rng, args)
    if hasattr(shape, "native"):
        return shape.native(rng, args)
    if type(shape).__module__.startswith("contracts"):
        # constant-valued shapes defined by contract modules (e.g. a fixed CRS object)
        try:
            return shape.make("native")
        except Exception as e:  # pylint: disable=broad-except
            raise _NoSampler(type(shape).__name__) from e
    raise _NoSampler(type(shape).__name__)


def native_sample(C, case_idx, seed, index):
    import random

    from pyvc import contract as K
    from pyvc.engine_native import call_by_name_native

    rng = random.Random(f"{seed}:{C.fn}:{case_idx}:{index}")
    case = C.cases()[case_idx]
    args = {}
    for k, sh in case.items():
        if not isinstance(sh, K.Derived):
            args[k] = native_make(sh, rng, args)
    for k, sh in case.items():
        if isinstance(sh, K.Derived):
            args[k] = call_by_name_native(sh.fn, args)
    return {k: args[k] for k in case}


def search(C, case_idx, seed, budget_s=20.0, max_n=4000):
    """bounded native search of the input space of one contract case for a postcondition failure"""
    import time

    t0 = time.time()
    tried = in_pre = 0
    for index in range(max_n):
        if time.time() - t0 > budget_s:
            break
        try:
            args = native_sample(C, case_idx, seed, index)
        except _NoSampler as e:
            return dict(status=f"search-not-applicable: no native sampler for shape {e}", tried=tried)
        except Exception:  # pylint: disable=broad-except
            continue
        tried += 1
        try:
            shown = {k: repr(v)[:200] for k, v in args.items()}
            if C.native_oracle is not None:
                # evaluate() defers to the oracle: honour the stated preconditions here (a clause
                # that cannot be evaluated natively -- ghost state -- is left to the oracle)
                from pyvc.engine_native import call_by_name_native

                pre = True
                for r in C.requires:
                    try:
                        pre = pre and bool(call_by_name_native(r, args))
                    except Exception:  # pylint: disable=broad-except
                        pass
                if not pre:
                    continue
            obs = evaluate(C, args)
        except Exception:  # pylint: disable=broad-except
            continue
        if not obs.get("pre_ok", True):
            continue
        in_pre += 1
        if obs["failed_clauses"]:
            return dict(status="reproduced", observed=obs, sample=shown, search_index=index, tried=tried, in_pre=in_pre)
    return dict(status="not-reproduced", tried=tried, in_pre=in_pre)


def main(path):
    sys.path.insert(0, HERE)
    with open(path) as f:
        rp = json.load(f)
    import contracts  # noqa: F401  (registers all contracts)
    from pyvc.contract import CONTRACTS

    C = CONTRACTS[rp["contract"]]
    ns = build_ns()
    out = dict(replay=path, contract=rp["contract"], obligation=rp["obligation"])
    if rp.get("bounded_index") is not None:
        os.environ["PYVC_TIER"] = rp.get("tier", "quick")
        os.environ["PYVC_SEED"] = str(rp.get("seed", 0))
        gen = C.native_samples()
        if isinstance(gen, tuple):
            gen = gen[1]
        for idx, sample in enumerate(gen):
            if idx == rp["bounded_index"]:
                obs = evaluate(C, dict(sample))
                out["observed"] = obs
                out["sample"] = {k: repr(v)[:300] for k, v in sample.items()}
                out["status"] = "reproduced" if obs["failed_clauses"] else "not-reproduced"
                print(json.dumps(out, default=str))
                return 0 if obs["failed_clauses"] else 1
        out["status"] = "sample-index-not-found"
        print(json.dumps(out))
        return 2
    if rp.get("search") is not None:
        sr = rp["search"]
        if sr.get("search_index") is not None:
            args = native_sample(C, sr["case_index"], sr["seed"], sr["search_index"])
            obs = evaluate(C, args)
            out.update(observed=obs, sample={k: repr(v)[:200] for k, v in args.items()}, status="reproduced" if obs.get("pre_ok", True) and obs["failed_clauses"] else "not-reproduced")
            print(json.dumps(out, default=str))
            return 0 if out["status"] == "reproduced" else 1
        res = search(C, sr["case_index"], sr["seed"], sr.get("budget_s", 20.0))
        out.update(res)
        print(json.dumps(out, default=str))
        return 0 if res["status"] == "reproduced" else 1
    if rp.get("witness") is None:
        out["status"] = "no-witness"
        print(json.dumps(out))
        return 1
    try:
        args = {k: eval(v, ns) for k, v in rp["witness"].items()}  # pylint: disable=eval-used
    except Exception as e:  # pylint: disable=broad-except
        out["status"] = f"witness-not-constructible: {type(e).__name__}: {e}"
        print(json.dumps(out))
        return 2
    obs = evaluate(C, args)
    out["observed"] = obs
    if not obs.get("pre_ok", True):
        out["status"] = "witness-outside-precondition"
        print(json.dumps(out, default=str))
        return 1
    if obs["failed_clauses"]:
        out["status"] = "reproduced"
        print(json.dumps(out, default=str))
        return 0
    out["status"] = "not-reproduced"
    print(json.dumps(out, default=str))
    return 1


if __name__ == "__main__":
    try:
        sys.exit(main(sys.argv[1]))
    except SystemExit:
        raise
    except BaseException as e:  # pylint: disable=broad-except
        print(json.dumps(dict(status=f"replay-error: {type(e).__name__}: {e}", traceback=traceback.format_exc()[-2000:])))
        sys.exit(2)
