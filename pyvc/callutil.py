"""pyvc.callutil -- calling helpers shared by the symbolic engine and the native replay."""
from __future__ import annotations

import inspect


def call_by_name(fn, env: dict):
    """Call fn passing the env entries that match its parameter names."""
    sig = inspect.signature(fn)
    kw = {}
    if any(p.kind == p.VAR_KEYWORD for p in sig.parameters.values()):
        return fn(**env)
    for name, p in sig.parameters.items():
        if name in env:
            kw[name] = env[name]
        elif p.default is not inspect.Parameter.empty:
            continue
        else:
            raise KeyError(f"spec lambda wants {name!r} which is not available (have {sorted(env)[:14]})")
    return fn(**kw)


def call_fn(fn, args: dict, cls=None):
    """Call fn with a name->value dict honouring positional-only / var-positional parameters."""
    sig = inspect.signature(fn)
    pos, kw = [], {}
    params = list(sig.parameters.values())
    if cls is not None:
        pos.append(cls)
        params = params[1:]
    for p in params:
        if p.kind in (p.POSITIONAL_ONLY, p.POSITIONAL_OR_KEYWORD):
            if p.name in args:
                pos.append(args[p.name])
            elif p.default is not inspect.Parameter.empty:
                # keep positional order: remaining ones go by keyword
                rest = params[params.index(p) + 1 :]
                for q in rest:
                    if q.name in args and q.kind == q.POSITIONAL_OR_KEYWORD:
                        kw[q.name] = args[q.name]
                    elif q.name in args and q.kind == q.KEYWORD_ONLY:
                        kw[q.name] = args[q.name]
                    elif q.name in args and q.kind == q.VAR_KEYWORD:
                        kw.update(args[q.name])
                return fn(*pos, **kw)
            else:
                raise TypeError(f"missing argument {p.name!r} for {getattr(fn, '__qualname__', fn)}")
        elif p.kind == p.VAR_POSITIONAL:
            pos.extend(args.get(p.name, ()))
        elif p.kind == p.KEYWORD_ONLY:
            if p.name in args:
                kw[p.name] = args[p.name]
        elif p.kind == p.VAR_KEYWORD:
            kw.update(args.get(p.name, {}))
    return fn(*pos, **kw)
