"""
pyvc.loops -- run-time side of the loop cut inserted by shadow.LoopInstrumenter (pass P2).

LoopSpec(invariant, modifies=None, decreases=None, havoc=None)
  invariant : lambda over the function's local variable names (matched by parameter name); for
              `for` loops the ghost names `_k` (number of completed iterations) and `_seq`
              (the iterated sequence) are available too
  modifies  : lambda (same convention) -> list of heap locations the body may write: either
              (obj, "attr") pairs or mutable proxies (SymSeq / SymBytes); they are havocked
  decreases : lambda -> integer term; checked  0 <= new < old  on preservation (termination)
  havoc     : {local name: shape} overriding "a fresh value of the same kind as on entry"
"""
from __future__ import annotations

import inspect
from dataclasses import dataclass, field
from typing import Any, Callable, Dict, Optional

import z3

from . import sym
from .sym import PathEnd, SymBase, SymBool, SymInt, SymReal, Unsupported, ctx
from .callutil import call_by_name as _cbn


def call_by_name(fn, env):
    try:
        return _cbn(fn, env)
    except KeyError as e:
        raise Unsupported(str(e))


@dataclass
class LoopSpec:
    invariant: Callable
    modifies: Optional[Callable] = None
    decreases: Optional[Callable] = None
    havoc: Dict[str, Any] = field(default_factory=dict)
    note: str = ""


def _call_by_name_old(fn, env: dict):
    """Call fn passing env entries that match its parameter names."""
    sig = inspect.signature(fn)
    kw = {}
    for name, p in sig.parameters.items():
        if name in env:
            kw[name] = env[name]
        elif p.default is not inspect.Parameter.empty:
            continue
        else:
            raise Unsupported(f"spec lambda wants {name!r} which is not available (have {sorted(env)[:12]}...)")
    return fn(**kw)


def fresh_like(v, hint="h"):
    """A fresh unconstrained value of the same shape as v."""
    from .seq import SymBytes, SymSeq

    c = ctx()
    if isinstance(v, bool) or isinstance(v, SymBool):
        return c.fresh_bool(hint)
    if isinstance(v, int) or isinstance(v, SymInt):
        return c.fresh_int(hint)
    if isinstance(v, float) or isinstance(v, SymReal):
        return c.fresh_real(hint)
    if v is None or isinstance(v, str):
        return v
    if isinstance(v, tuple):
        return tuple(fresh_like(e, hint) for e in v)
    if isinstance(v, slice):
        return slice(fresh_like(v.start, hint), fresh_like(v.stop, hint), fresh_like(v.step, hint))
    if isinstance(v, SymSeq):
        return v.fresh_like(hint)
    if isinstance(v, SymBytes):
        return v.fresh_like(hint)
    raise Unsupported(f"cannot havoc a value of type {type(v).__name__} (give LoopSpec.havoc a shape)")


class _ConcreteSeq:
    """A concrete-length python sequence seen through the loop-cut interface."""

    def __init__(self, items):
        self.items = list(items)

    def __symlen__(self):
        return len(self.items)

    def get(self, k):
        if isinstance(k, SymBase):
            # select by case split over the concrete positions
            acc = self.items[-1]
            for i in range(len(self.items) - 2, -1, -1):
                acc = sym.ite(k == i, self.items[i], acc)
            return acc
        return self.items[k]


class LoopRuntime:
    def _spec(self, key) -> LoopSpec:
        from . import shadow

        return shadow.LOOP_SPECS[key]

    def _env(self, loc, it=None, k=None):
        env = dict(loc)
        # ghost inputs of the contract under verification are visible to its loop contracts
        for nm, v in ctx().ghost.get("caller_args", {}).items():
            env.setdefault(nm, v)
        # indices of the enclosing (cut) for-loops, outermost first: a nested loop's invariant may refer to them
        env["_ks"] = [v for nm, v in loc.items() if nm.startswith("__vc_k_") and v is not k]
        if it is not None:
            env["_seq"] = it
            env["_k"] = k
            env["_n"] = it.__symlen__()
        return env

    # ---- for-loops --------------------------------------------------------------------
    def iter_begin(self, key, iterable):
        from .seq import SymSeq

        if isinstance(iterable, SymSeq) or (hasattr(iterable, "__symlen__") and hasattr(iterable, "get")):
            return iterable
        if isinstance(iterable, SymBase):
            raise Unsupported(f"loop contract over {type(iterable).__name__}")
        return _ConcreteSeq(iterable)

    def more(self, it, k):
        return k < it.__symlen__()

    def fetch(self, it, k):
        return it.get(k)

    def havoc_index(self, key, it):
        c = ctx()
        k = c.fresh_int("k")
        c.assume(k >= 0)
        c.assume(k <= it.__symlen__())
        return k

    # ---- common -------------------------------------------------------------------------
    def enter(self, key, loc, it=None, k=None):
        spec = self._spec(key)
        c = ctx()
        env = self._env(loc, it, k)
        inv = call_by_name(spec.invariant, env)
        c.check(inv, f"loop-inv-entry:{key}", kind="loop-entry")
        # heap havoc
        if spec.modifies is not None:
            from .engine import havoc_location

            for locn in call_by_name(spec.modifies, env):
                havoc_location(locn)

    def havoc(self, key, name, cur):
        spec = self._spec(key)
        if name in spec.havoc:
            from .contract import make_value

            return make_value(spec.havoc[name], name)
        return fresh_like(cur, name)

    def havoc_mutated(self, key, name, cur):
        """a local whose object the loop body changes in place: its state after an arbitrary number of
        iterations is unknown.  The loop contract must say what it is (havoc={name: shape}) unless the
        value is a proxy that knows how to forget its contents; an object that is not a container at all
        (self, a module) is left to the contract's `modifies`."""
        spec = self._spec(key)
        if name in spec.havoc:
            from .contract import make_value

            return make_value(spec.havoc[name], name)
        from .seq import SymBytes, SymSeq

        if isinstance(cur, (SymSeq, SymBytes)):
            return fresh_like(cur, name)
        if isinstance(cur, (list, dict, set, bytearray)):
            raise Unsupported(f"loop {key} changes the {type(cur).__name__} `{name}` in place: its loop contract must describe it (havoc={{'{name}': <shape>}})")
        return cur

    def assume_inv(self, key, loc, it=None, k=None):
        spec = self._spec(key)
        c = ctx()
        env = self._env(loc, it, k)
        prev = c.ghost.get("mode", "claim")
        c.ghost["mode"] = "assume"  # lemma applications inside the invariant contribute their instances
        try:
            inv = call_by_name(spec.invariant, env)
        finally:
            c.ghost["mode"] = prev
        c.assume(inv)
        if spec.decreases is not None:
            c.ghost[("dec", key)] = call_by_name(spec.decreases, env)

    def preserve(self, key, loc, it=None, k=None):
        spec = self._spec(key)
        c = ctx()
        env = self._env(loc, it, k)
        inv = call_by_name(spec.invariant, env)
        c.check(inv, f"loop-inv-preserved:{key}", kind="loop-preserve")
        if spec.decreases is not None:
            old = c.ghost[("dec", key)]
            new = call_by_name(spec.decreases, env)
            c.check(sym.SymBool(z3.And(sym.to_bool_term(new >= 0), sym.to_bool_term(new < old))), f"loop-decreases:{key}", kind="loop-decreases")
        raise PathEnd("end of loop body (cut)")


VcAbortTypes = (sym.VcAbort,)
RUNTIME = LoopRuntime()
