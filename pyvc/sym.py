"""
pyvc.sym -- symbolic value proxies and the per-path execution context.

The real source of /repo is executed by CPython itself; integers, floats, bools, sequences and
byte strings that are *inputs* of the function under verification are replaced by the proxy
objects defined here, which build z3 terms instead of computing values.  A branch on a symbolic
condition (``__bool__``) asks the context which way to go: the engine explores every feasible way
by deterministic re-execution.

Soundness guards:
  * proxies are NOT subclasses of int/float, so any leak of a proxy into native code (C functions,
    numpy, struct, ...) ends in ``__index__/__int__/__float__/__len__/__hash__`` which raise
    ``Unsupported`` (a BaseException, never swallowed by ``except Exception``);
  * ``isinstance/len/int/float/min/max/range/...`` inside the shadow-loaded repository modules are
    the symbolic-aware versions of pyvc.builtins_.
"""
from __future__ import annotations

import numbers
from fractions import Fraction
from typing import Any, List, Optional

import z3

# ----------------------------------------------------------------------------------------------
# control-flow exceptions of the engine (BaseException: never caught by repository code)
# ----------------------------------------------------------------------------------------------


class VcAbort(BaseException):
    pass


class Unsupported(VcAbort):
    """The code under verification left the supported subset: undecided, never a verdict."""


class PathEnd(VcAbort):
    """assume(False) / end of an instrumented loop body: the path ends without a verdict."""


class TooLong(Unsupported):
    pass


# ----------------------------------------------------------------------------------------------
# context
# ----------------------------------------------------------------------------------------------

_CTX: Optional["Ctx"] = None


def ctx() -> "Ctx":
    if _CTX is None:
        raise RuntimeError("no active pyvc context")
    return _CTX


def have_ctx() -> bool:
    return _CTX is not None


def set_ctx(c: Optional["Ctx"]):
    global _CTX
    _CTX = c


def in_quantifier() -> bool:
    return _CTX is not None and _CTX.quant_depth > 0


class Ctx:
    """One path of one (function, case).  Created afresh for every re-execution."""

    MAX_DECISIONS = 400

    def __init__(self, prefix: List[bool], branch_timeout_ms=1500, on_obligation=None):
        self.branch_timeout_ms = branch_timeout_ms
        self.prefix = list(prefix)
        self.decisions: List[bool] = []
        self.pending: List[List[bool]] = []
        self.pc: List[z3.BoolRef] = []
        self.pc_quant: List[bool] = []
        self.pc_vars: List[set] = []
        self.solver = z3.Solver()
        self.solver.set("timeout", branch_timeout_ms)
        self.counter = 0
        self.quant_depth = 0
        self.on_obligation = on_obligation
        self.inputs = {}  # name -> z3 const (leaf input variables, for replay)
        self.notes: List[str] = []
        self.branch_unknowns = 0
        self.ghost = {}  # ghost state for specs (e.g. writer log)
        self.n_solver_calls = 0
        self.assumed_facts = 0
        self.obj_registry = {}  # id(obj) -> (qualified class name, [fields]); for to_src
        self._keepalive = []

    # -- naming ---------------------------------------------------------------------------
    def fresh_name(self, hint: str) -> str:
        self.counter += 1
        return f"{hint}!{self.counter}"

    def fresh_int(self, hint="i") -> "SymInt":
        return SymInt(z3.Int(self.fresh_name(hint)))

    def fresh_real(self, hint="r") -> "SymReal":
        return SymReal(z3.Real(self.fresh_name(hint)))

    def fresh_bool(self, hint="b") -> "SymBool":
        return SymBool(z3.Bool(self.fresh_name(hint)))

    # -- path condition -------------------------------------------------------------------
    def _add(self, t):
        self.pc.append(t)
        self.pc_quant.append(has_quant(t))
        self.pc_vars.append(free_consts(t))
        self.solver.add(t)

    def implied_constant(self, y):
        """numeral v with  path condition => y == v,  or None (two short solver calls, cached)"""
        cache = self.ghost.setdefault("const_cache", {})
        k = y.get_id()
        if k in cache:
            return cache[k][1]
        v = None
        try:
            self.solver.set("timeout", 300)
            self.n_solver_calls += 1
            if self.solver.check() == z3.sat:
                mv = self.solver.model().eval(y, model_completion=True)
                if z3.is_rational_value(mv) or z3.is_int_value(mv):
                    if self._feasible(y != mv, 300) is False and not (z3.is_rational_value(mv) and mv.numerator_as_long() == 0):
                        v = mv if z3.is_real(mv) else z3.ToReal(mv)
                        v = z3.simplify(v)
        except z3.Z3Exception:
            v = None
        cache[k] = (y, v)
        return v

    def relevant(self, t):
        """cone of influence: the path-condition entries that share symbols, transitively, with t
        (a subset of the assumptions: `unsat` with the subset is `unsat` with all of them)"""
        want = set(free_consts(t))
        picked = [False] * len(self.pc)
        changed = True
        while changed:
            changed = False
            for i, vs in enumerate(self.pc_vars):
                if not picked[i] and (vs & want):
                    picked[i] = True
                    if not vs <= want:
                        want |= vs
                        changed = True
        return [a for a, p in zip(self.pc, picked) if p], sum(picked)

    def _feasible(self, t, timeout_ms=None) -> Optional[bool]:
        self.solver.push()
        self.solver.add(t)
        self.n_solver_calls += 1
        self.solver.set("timeout", timeout_ms or self.branch_timeout_ms)
        r = self.solver.check()
        self.solver.pop()
        if r == z3.sat:
            return True
        if r == z3.unsat:
            return False
        return None

    def branch(self, t) -> bool:
        """Decide a symbolic condition; fork when both ways are feasible."""
        if self.quant_depth > 0:
            raise Unsupported(
                "Python branch on a symbolic value inside a quantifier body "
                "(use And/Or/Implies/Ite combinators in specs)"
            )
        t = z3.simplify(t)
        if z3.is_true(t):
            return True
        if z3.is_false(t):
            return False
        i = len(self.decisions)
        if i >= self.MAX_DECISIONS:
            raise TooLong(f"more than {self.MAX_DECISIONS} decisions on one path (unbounded loop?)")
        if i < len(self.prefix):
            choice = self.prefix[i]
        else:
            can_t = self._feasible(t)
            can_f = self._feasible(z3.Not(t))
            if can_t is None or can_f is None:
                self.branch_unknowns += 1
            if can_t is False and can_f is False:
                raise PathEnd("infeasible path")
            if can_t is False:
                choice = False
            elif can_f is False:
                choice = True
            else:
                choice = True
                self.pending.append(self.decisions + [False])
        self.decisions.append(choice)
        self._add(t if choice else z3.Not(t))
        return choice

    def assume(self, c, fact=False):
        """Add an assumption (precondition, callee postcondition, definitional fact)."""
        if isinstance(c, SymBool):
            t = c.t
        elif isinstance(c, bool):
            if not c:
                raise PathEnd("assume(False)")
            return
        elif isinstance(c, z3.BoolRef):
            t = c
        else:
            c = bool(c)
            if not c:
                raise PathEnd("assume(False)")
            return
        t = z3.simplify(t)
        if z3.is_true(t):
            return
        if z3.is_false(t):
            raise PathEnd("assume(False)")
        # conjunctions are stored conjunct by conjunct: slicing (cone of influence, linear part)
        # works per stored entry
        if z3.is_and(t):
            for k in t.children():
                self._add(k)
        else:
            self._add(t)
        if fact:
            self.assumed_facts += 1
            return
        if self._feasible(z3.BoolVal(True), 400) is False:
            raise PathEnd("assumption makes path infeasible")

    def check(self, claim, oid: str, **meta):
        """Record a proof obligation: pc => claim."""
        if isinstance(claim, SymBool):
            t = claim.t
        elif isinstance(claim, z3.BoolRef):
            t = claim
        else:
            t = z3.BoolVal(bool(claim))
        if self.on_obligation is not None:
            self.on_obligation(self, oid, t, meta)


# ----------------------------------------------------------------------------------------------
# term helpers
# ----------------------------------------------------------------------------------------------


def free_consts(t, cache=None):
    """names of the uninterpreted constants / functions occurring in a term"""
    out = set()
    seen = set()
    stack = [t]
    while stack:
        x = stack.pop()
        i = x.get_id()
        if i in seen:
            continue
        seen.add(i)
        if z3.is_quantifier(x):
            stack.append(x.body())
            continue
        if z3.is_app(x):
            d = x.decl()
            if d.kind() == z3.Z3_OP_UNINTERPRETED:
                out.add(d.name())
            stack.extend(x.children())
    return out


def array_consts(t):
    """names of the array-sorted constants occurring in a term"""
    out = set()
    seen = set()
    stack = [t]
    while stack:
        x = stack.pop()
        i = x.get_id()
        if i in seen:
            continue
        seen.add(i)
        if z3.is_quantifier(x):
            stack.append(x.body())
            continue
        if z3.is_app(x):
            d = x.decl()
            if d.kind() == z3.Z3_OP_UNINTERPRETED and x.num_args() == 0 and z3.is_array(x):
                out.add(d.name())
            stack.extend(x.children())
    return out


def array_slice(assumptions, t):
    """drop the QUANTIFIED assumptions that speak only about arrays unrelated to the claim (arrays are
    related when some kept assumption mentions both); everything quantifier-free is kept.  A subset of the
    assumptions: `unsat` with it is `unsat` with all."""
    quant = [has_quant(a) for a in assumptions]
    arrs = [array_consts(a) for a in assumptions]
    want = set(array_consts(t))
    keep = [not q for q in quant]
    changed = True
    while changed:
        changed = False
        for i, a in enumerate(assumptions):
            if arrs[i] & want:
                if not keep[i]:
                    keep[i] = True
                    changed = True
                if not arrs[i] <= want:
                    want |= arrs[i]
                    changed = True
    return [a for a, k in zip(assumptions, keep) if k], sum(keep)


def is_nonlinear(t) -> bool:
    """does the term contain a product of two non-constant factors (or a division by a non-constant)?"""
    seen = set()
    stack = [t]
    while stack:
        x = stack.pop()
        i = x.get_id()
        if i in seen:
            continue
        seen.add(i)
        if z3.is_app(x):
            k = x.decl().kind()
            if k == z3.Z3_OP_MUL and sum(1 for a in x.children() if not (z3.is_rational_value(a) or z3.is_int_value(a))) >= 2:
                return True
            if k in (z3.Z3_OP_DIV, z3.Z3_OP_IDIV, z3.Z3_OP_MOD, z3.Z3_OP_REM) and not (z3.is_rational_value(x.arg(1)) or z3.is_int_value(x.arg(1))):
                return True
        stack.extend(x.children())
    return False


_NLMUL = {}


def _nlmul(sort):
    key = sort.name()
    if key not in _NLMUL:
        _NLMUL[key] = z3.Function(f"nlmul_{key}", sort, sort, sort)
    return _NLMUL[key]


def abstract_nonlinear(t, cache=None):
    """replace every product of non-constant factors x*y by an uninterpreted nlmul(x, y) (arguments in
    a canonical order).  The result is implied-by-abstraction: if the abstracted problem is unsat,
    so is the original (every model of the original interprets nlmul as multiplication); a `sat`
    answer means nothing."""
    if cache is None:
        cache = {}

    def go(x):
        i = x.get_id()
        if i in cache:
            return cache[i]
        if z3.is_quantifier(x) or not z3.is_app(x) or x.num_args() == 0:
            cache[i] = x
            return x
        kids = [go(c) for c in x.children()]
        if x.decl().kind() == z3.Z3_OP_MUL:
            consts = [k for k in kids if z3.is_rational_value(k) or z3.is_int_value(k)]
            rest = [k for k in kids if not (z3.is_rational_value(k) or z3.is_int_value(k))]
            if len(rest) >= 2:
                rest.sort(key=lambda e: (str(e.decl()), e.get_id()))
                acc = rest[0]
                f = _nlmul(x.sort())
                for r in rest[1:]:
                    acc = f(acc, r)
                for k in consts:
                    acc = k * acc
                cache[i] = acc
                return acc
        try:
            r = x.decl()(*kids)
        except Exception:  # pylint: disable=broad-except
            r = x
        cache[i] = r
        return r

    return go(t)


def has_quant(t) -> bool:
    """does the term contain a quantifier or a lambda?"""
    seen = set()
    stack = [t]
    while stack:
        x = stack.pop()
        i = x.get_id()
        if i in seen:
            continue
        seen.add(i)
        if z3.is_quantifier(x):
            return True
        stack.extend(x.children())
    return False


def real_val(x) -> z3.ArithRef:
    if isinstance(x, bool):
        return z3.RealVal(int(x))
    if isinstance(x, numbers.Integral):
        return z3.RealVal(int(x))
    if isinstance(x, Fraction):
        return z3.RealVal(f"{x.numerator}/{x.denominator}")
    f = float(x)
    if f != f or f in (float("inf"), float("-inf")):
        raise Unsupported(f"non-finite float constant {f!r} in symbolic arithmetic")
    fr = Fraction(f)
    return z3.RealVal(f"{fr.numerator}/{fr.denominator}")


def is_sym(x) -> bool:
    return isinstance(x, SymBase)


def is_symnum(x) -> bool:
    return isinstance(x, (SymInt, SymReal, SymBool))


def term_of(x):
    """z3 term and kind ('int'|'real'|'bool') of a python/proxy scalar, or None."""
    if isinstance(x, SymInt):
        return x.t, "int"
    if isinstance(x, SymReal):
        return x.t, "real"
    if isinstance(x, SymBool):
        return x.t, "bool"
    if isinstance(x, bool):
        return z3.BoolVal(x), "bool"
    if isinstance(x, numbers.Integral):
        return z3.IntVal(int(x)), "int"
    if isinstance(x, (float, Fraction)) or isinstance(x, numbers.Real):
        return real_val(x), "real"
    return None


def _num(x):
    """numeric (int|real) z3 term of a scalar or None."""
    tk = term_of(x)
    if tk is None:
        return None
    t, k = tk
    if k == "bool":
        return z3.If(t, z3.IntVal(1), z3.IntVal(0)), "int"
    return t, k


def as_real(t, k):
    return z3.ToReal(t) if k == "int" else t


def wrap(t):
    if z3.is_bool(t):
        return SymBool(t)
    if z3.is_int(t):
        return SymInt(t)
    if z3.is_real(t):
        return SymReal(t)
    raise Unsupported(f"cannot wrap term of sort {t.sort()}")


def to_bool_term(x):
    if isinstance(x, SymBool):
        return x.t
    if isinstance(x, z3.BoolRef):
        return x
    if isinstance(x, (SymInt, SymReal)):
        return x.t != 0
    if isinstance(x, SymBase):
        return x.__symbool__().t
    return z3.BoolVal(bool(x))


class SymBase:
    __slots__ = ()
    __vc_types__: tuple = ()

    def __hash__(self):
        raise Unsupported(f"hash() of a symbolic {type(self).__name__}")

    def __index__(self):
        raise Unsupported(f"symbolic {type(self).__name__} leaked into native code (__index__)")

    def __int__(self):
        raise Unsupported(f"symbolic {type(self).__name__} leaked into native code (__int__)")

    def __float__(self):
        raise Unsupported(f"symbolic {type(self).__name__} leaked into native code (__float__)")

    def __len__(self):
        raise Unsupported(f"symbolic {type(self).__name__} leaked into native code (__len__)")

    def __reduce__(self):
        raise Unsupported("pickling a symbolic value")


# ----------------------------------------------------------------------------------------------
# SymBool
# ----------------------------------------------------------------------------------------------


class SymBool(SymBase):
    __slots__ = ("t",)
    __vc_types__ = (bool, int)

    def __init__(self, t):
        self.t = t

    def __bool__(self):
        return ctx().branch(self.t)

    def __symbool__(self):
        return self

    def __repr__(self):
        return f"<SymBool {self.t}>"

    __str__ = __repr__

    def __format__(self, spec):
        return "<symbolic>"

    def _as_int(self):
        return SymInt(z3.If(self.t, z3.IntVal(1), z3.IntVal(0)))

    def __and__(self, o):
        if isinstance(o, (bool, SymBool)):
            return SymBool(z3.And(self.t, to_bool_term(o)))
        return self._as_int() & o

    __rand__ = __and__

    def __or__(self, o):
        if isinstance(o, (bool, SymBool)):
            return SymBool(z3.Or(self.t, to_bool_term(o)))
        return self._as_int() | o

    __ror__ = __or__

    def __xor__(self, o):
        if isinstance(o, (bool, SymBool)):
            return SymBool(z3.Xor(self.t, to_bool_term(o)))
        return NotImplemented

    __rxor__ = __xor__

    def __invert__(self):
        return ~self._as_int()

    def __eq__(self, o):
        if isinstance(o, (bool, SymBool)):
            return SymBool(self.t == to_bool_term(o))
        if is_symnum(o) or isinstance(o, numbers.Real):
            return self._as_int() == o
        return NotImplemented

    def __ne__(self, o):
        r = self.__eq__(o)
        if r is NotImplemented:
            return r
        return SymBool(z3.Not(r.t))

    __hash__ = SymBase.__hash__

    # arithmetic goes through int
    def __add__(self, o):
        return self._as_int() + o

    def __radd__(self, o):
        return o + self._as_int()

    def __sub__(self, o):
        return self._as_int() - o

    def __rsub__(self, o):
        return o - self._as_int()

    def __mul__(self, o):
        return self._as_int() * o

    def __rmul__(self, o):
        return o * self._as_int()

    def __lt__(self, o):
        return self._as_int() < o

    def __le__(self, o):
        return self._as_int() <= o

    def __gt__(self, o):
        return self._as_int() > o

    def __ge__(self, o):
        return self._as_int() >= o


# ----------------------------------------------------------------------------------------------
# numbers
# ----------------------------------------------------------------------------------------------


def _pair(a, b):
    """Coerce two scalars to terms of one common kind; None if b is not a scalar."""
    ta = _num(a)
    tb = _num(b)
    if ta is None or tb is None:
        return None
    (x, kx), (y, ky) = ta, tb
    if kx == ky:
        return x, y, kx
    return as_real(x, kx), as_real(y, ky), "real"


def _floordiv_int(x, y):
    """Python floor division / modulo on ints: returns (q, r) terms."""
    c = ctx()
    if z3.is_int_value(y) and y.as_long() > 0:
        return x / y, x % y  # z3 div/mod are Euclidean == floor for positive divisors
    if SymBool(y == 0).__bool__():
        raise ZeroDivisionError("integer division or modulo by zero")
    cache = c.ghost.setdefault("idiv_cache", {})
    x, y = z3.simplify(x), z3.simplify(y)
    key = (x.get_id(), y.get_id())
    hit = cache.get(key)
    if hit is not None:
        return hit[2], hit[3]
    q = z3.Int(c.fresh_name("q"))
    r = z3.Int(c.fresh_name("rem"))
    c.assume(z3.And(x == q * y + r, z3.If(y > 0, z3.And(0 <= r, r < y), z3.And(y < r, r <= 0))), fact=True)
    # uniqueness of Euclidean division, instantiated against earlier divisions by the same divisor
    # (a valid theorem; spares the solvers a non-linear integer argument they find only erratically)
    n_hint = 0
    for (kx, ky), (x0, y0, q0, r0) in list(cache.items())[-4:]:
        if ky != key[1]:
            continue
        for k in (-1, 0, 1):
            cand = (q0 + k) * y
            c.assume(z3.Implies(z3.And(y > 0, cand <= x, x < cand + y), z3.And(q == q0 + k, r == x - cand)), fact=True)
        n_hint += 1
    cache[key] = (x, y, q, r)
    return q, r


def _floor_atom(c, v):
    """floor of an atomic real term v: `base + offset` (first atom on the path: the base itself).

    Expressing every integer part relative to ONE base integer keeps the offsets bounded whenever
    the reals involved are within a bounded distance of each other, which is what makes branch and
    bound terminate on these mixed integer/real problems (calibrated: `unknown` at 20 s with
    independent unbounded floor variables, `unsat` in 10 ms with offsets)."""
    if v.decl().kind() == z3.Z3_OP_TO_REAL:
        return v.arg(0)
    cache = c.ghost.setdefault("floor_cache", {})
    key = v.get_id()
    hit = cache.get(key)
    if hit is not None:
        return hit[1]
    base = c.ghost.get("floor_base")
    if base is None:
        k = z3.Int(c.fresh_name("ibase"))
        c.ghost["floor_base"] = k
    else:
        k = base + z3.Int(c.fresh_name("ioff"))
    c.assume(z3.And(z3.ToReal(k) <= v, v < z3.ToReal(k) + 1), fact=True)
    cache[key] = (v, k)
    return k


def _floor_real(x):
    """floor of a real term as an Int term.

    Outside quantifier bodies:  floor(sum c_i*v_i + r) = sum c_i*floor(v_i) + d  for integer
    coefficients c_i, with d a fresh integer and the defining fact  d <= x - sum c_i*floor(v_i) < d+1
    (exact; pure linear mixed arithmetic instead of to_int)."""
    c = _CTX
    if c is None or c.quant_depth > 0:
        return z3.ToInt(x)
    x = z3.simplify(x, som=True)
    if z3.is_rational_value(x) or z3.is_int_value(x):
        return z3.simplify(z3.ToInt(x))
    if x.decl().kind() == z3.Z3_OP_TO_REAL:
        return x.arg(0)
    if x.decl().kind() == z3.Z3_OP_ITE:
        # floor distributes over if-then-else: the branches then share their floor atoms with
        # every other occurrence of the same sub-terms
        return z3.If(x.arg(0), _floor_real(x.arg(1)), _floor_real(x.arg(2)))
    cache = c.ghost.setdefault("floor_cache", {})
    hit = cache.get(x.get_id())
    if hit is not None:
        return hit[1]
    terms = x.children() if x.decl().kind() == z3.Z3_OP_ADD else [x]
    ipart = []
    n_atoms = 0
    for t in terms:
        coef, v = 1, t
        if t.decl().kind() == z3.Z3_OP_MUL and t.num_args() == 2 and z3.is_rational_value(t.arg(0)):
            q = t.arg(0)
            if q.denominator_as_long() != 1:
                continue
            coef, v = q.numerator_as_long(), t.arg(1)
        elif t.decl().kind() == z3.Z3_OP_UMINUS:
            coef, v = -1, t.arg(0)
        if z3.is_rational_value(v):
            continue
        if v.decl().kind() in (z3.Z3_OP_ITE,):
            continue
        n_atoms += 1
        ipart.append(coef * _floor_atom(c, v))
    if n_atoms == 1 and len(terms) == 1 and len(ipart) == 1 and z3.eq(z3.simplify(z3.ToReal(ipart[0])), z3.simplify(z3.ToReal(_floor_atom(c, x)))) if False else False:
        return ipart[0]
    if len(terms) == 1 and n_atoms == 1 and terms[0].decl().kind() not in (z3.Z3_OP_MUL, z3.Z3_OP_UMINUS):
        return ipart[0]
    isum = z3.IntVal(0)
    for i_ in ipart:
        isum = isum + i_
    d = z3.Int(c.fresh_name("ifl"))
    k = z3.simplify(isum + d)
    c.assume(z3.And(z3.ToReal(k) <= x, x < z3.ToReal(k) + 1), fact=True)
    cache[x.get_id()] = (x, k)
    return k


def real_div(x, y):
    """x / y for real terms on a path where y != 0: by syntactic cancellation, else a fresh real
    u with the defining fact u*y == x (multiplicative form: calibrated to be decided where the
    solvers' native division with a symbolic divisor goes `unknown`)."""
    if z3.is_rational_value(y) or z3.is_int_value(y):
        return x / y
    r = cancel(x, y)
    if r is None:
        # sum-of-monomials normal form often exposes the common factor ((a+n)*r - a*r  ->  n*r)
        r = cancel(z3.simplify(x, som=True), z3.simplify(y))
    if r is not None:
        return z3.simplify(r)
    c = _CTX
    if c is None or c.quant_depth > 0:
        return x / y
    cache = c.ghost.setdefault("div_cache", {})
    key = (x.get_id(), y.get_id())
    hit = cache.get(key)
    if hit is not None:
        return hit[2]
    # is the divisor fixed by the path condition (e.g. read_shrink == 1)?  then divide by the constant
    v = c.implied_constant(y)
    if v is not None:
        r = z3.simplify(x / v)
        cache[key] = (x, y, r)
        return r
    # x / (x0/y0) = x*y0 / x0   when the divisor is itself a quotient introduced earlier
    rev = c.ghost.setdefault("div_rev", {})
    back = rev.get(y.get_id())
    if back is not None:
        x0, y0 = back
        return real_div(z3.simplify(x * y0), x0)
    # the quotient is an application of an uninterpreted function to (x, y), not a fresh constant:
    # equal dividends and divisors then give equal quotients by congruence alone
    u = _rdiv_fn()(x, y)
    c.assume(z3.Implies(y != 0, u * y == x), fact=True)
    cache[key] = (x, y, u)
    rev[u.get_id()] = (x, y)
    return u


_RDIV = []


def _rdiv_fn():
    if not _RDIV:
        _RDIV.append(z3.Function("rdiv", z3.RealSort(), z3.RealSort(), z3.RealSort()))
    return _RDIV[0]


def cancel(x, y):
    """x / y by syntactic cancellation (x a product/sum of products containing the factor y),
    or None.  Sound on paths where y != 0."""
    if z3.eq(x, y):
        return z3.RealVal(1)
    k = x.decl().kind()
    yk = y.decl().kind()
    # x / (p / q) = x * q / p
    if yk == z3.Z3_OP_DIV:
        p_, q_ = y.arg(0), y.arg(1)
        if z3.is_rational_value(p_) and p_.numerator_as_long() != 0:
            return z3.simplify(x * q_ / p_)
        r = cancel(x, p_)
        return None if r is None else r * q_
    # y == -z
    if yk == z3.Z3_OP_UMINUS:
        r = cancel(x, y.arg(0))
        return None if r is None else -r
    if yk == z3.Z3_OP_MUL and y.num_args() == 2 and z3.is_rational_value(y.arg(0)):
        r = cancel(x, y.arg(1))
        return None if r is None else r / y.arg(0)
    if z3.is_rational_value(x) and x.numerator_as_long() == 0:
        return z3.RealVal(0)
    if k == z3.Z3_OP_UMINUS:
        r = cancel(x.arg(0), y)
        return None if r is None else -r
    if k == z3.Z3_OP_MUL:
        ch = x.children()
        for i, c_ in enumerate(ch):
            r = cancel(c_, y)
            if r is not None:
                rest = ch[:i] + ch[i + 1 :]
                out = r
                for o in rest:
                    out = o * out
                return out
        return None
    if k in (z3.Z3_OP_ADD, z3.Z3_OP_SUB):
        parts = [cancel(c_, y) for c_ in x.children()]
        if any(p is None for p in parts):
            return None
        out = parts[0]
        for p_ in parts[1:]:
            out = out + p_ if k == z3.Z3_OP_ADD else out - p_
        return out
    if k == z3.Z3_OP_ITE:
        a, b = cancel(x.arg(1), y), cancel(x.arg(2), y)
        if a is None or b is None:
            return None
        return z3.If(x.arg(0), a, b)
    return None


class SymNum(SymBase):
    __slots__ = ("t",)

    def __init__(self, t):
        self.t = t

    def __repr__(self):
        return f"<{type(self).__name__} {self.t}>"

    __str__ = __repr__

    def __format__(self, spec):
        return "<symbolic>"

    def __bool__(self):
        return ctx().branch(self.t != 0)

    def __symbool__(self):
        return SymBool(self.t != 0)

    __hash__ = SymBase.__hash__

    # -- arithmetic ------------------------------------------------------------------------
    def __add__(self, o):
        p = _pair(self, o)
        if p is None:
            return NotImplemented
        return wrap(p[0] + p[1])

    def __radd__(self, o):
        p = _pair(o, self)
        if p is None:
            return NotImplemented
        return wrap(p[0] + p[1])

    def __sub__(self, o):
        p = _pair(self, o)
        if p is None:
            return NotImplemented
        return wrap(p[0] - p[1])

    def __rsub__(self, o):
        p = _pair(o, self)
        if p is None:
            return NotImplemented
        return wrap(p[0] - p[1])

    def __mul__(self, o):
        p = _pair(self, o)
        if p is None:
            return NotImplemented
        return wrap(p[0] * p[1])

    def __rmul__(self, o):
        p = _pair(o, self)
        if p is None:
            if isinstance(o, (tuple, list)) and len(o) == 1 and isinstance(self, SymInt):
                # (v,) * n : a sequence of symbolic length n (0 when n <= 0) of one repeated value
                from .seq import SymSeq

                return SymSeq.repeat(o[0], self, "tuple" if isinstance(o, tuple) else "list")
            return NotImplemented
        return wrap(p[0] * p[1])

    @staticmethod
    def _truediv(a, b):
        p = _pair(a, b)
        if p is None:
            return NotImplemented
        x, y, k = p
        x, y = as_real(x, k), as_real(y, k)
        if in_quantifier():
            return SymReal(x / y)
        if SymBool(y == 0).__bool__():
            raise ZeroDivisionError("division by zero")
        return SymReal(real_div(x, y))

    def __truediv__(self, o):
        return SymNum._truediv(self, o)

    def __rtruediv__(self, o):
        return SymNum._truediv(o, self)

    @staticmethod
    def _divmod(a, b):
        p = _pair(a, b)
        if p is None:
            return NotImplemented
        x, y, k = p
        if k == "int":
            q, r = _floordiv_int(x, y)
            return SymInt(q), SymInt(r)
        if SymBool(y == 0).__bool__():
            raise ZeroDivisionError("float floor division by zero")
        q = z3.ToReal(_floor_real(x / y))
        return SymReal(q), SymReal(x - y * q)

    def __floordiv__(self, o):
        r = SymNum._divmod(self, o)
        return r if r is NotImplemented else r[0]

    def __rfloordiv__(self, o):
        r = SymNum._divmod(o, self)
        return r if r is NotImplemented else r[0]

    def __mod__(self, o):
        r = SymNum._divmod(self, o)
        return r if r is NotImplemented else r[1]

    def __rmod__(self, o):
        r = SymNum._divmod(o, self)
        return r if r is NotImplemented else r[1]

    def __divmod__(self, o):
        return SymNum._divmod(self, o)

    def __rdivmod__(self, o):
        return SymNum._divmod(o, self)

    def __pow__(self, o, mod=None):
        if mod is not None:
            raise Unsupported("3-argument pow on symbolic value")
        if isinstance(o, numbers.Integral) and not isinstance(o, bool) and 0 <= int(o) <= 8:
            n = int(o)
            if n == 0:
                return 1 if isinstance(self, SymInt) else 1.0
            r = self.t
            for _ in range(n - 1):
                r = r * self.t
            return wrap(r)
        raise Unsupported(f"symbolic ** {o!r}")

    def __rpow__(self, o):
        if isinstance(self, SymInt) and isinstance(o, int) and o == 2:
            from . import spec

            if SymBool(self.t < 0).__bool__():
                return SymReal(1 / z3.ToReal(spec.pow2_term(-self.t)))
            return SymInt(spec.pow2_term(self.t))
        raise Unsupported(f"{o!r} ** symbolic")

    def __neg__(self):
        return wrap(-self.t)

    def __pos__(self):
        return self

    def __abs__(self):
        c = _CTX
        if c is not None and c.quant_depth == 0 and not z3.is_rational_value(self.t):
            # decide the sign when the path condition fixes it (keeps later VCs linear)
            key = ("abs", self.t.get_id())
            hit = c.ghost.get(key)
            if hit is None:
                if c._feasible(self.t < 0, 300) is False:
                    hit = 1
                elif c._feasible(self.t > 0, 300) is False:
                    hit = -1
                else:
                    hit = 0
                c.ghost[key] = hit
                c._keepalive.append(self.t)
            if hit == 1:
                return self
            if hit == -1:
                return wrap(-self.t)
        return wrap(z3.If(self.t >= 0, self.t, -self.t))

    # -- comparisons -----------------------------------------------------------------------
    def _cmp(self, o, op):
        p = _pair(self, o)
        if p is None:
            return NotImplemented
        return SymBool(op(p[0], p[1]))

    def __lt__(self, o):
        return self._cmp(o, lambda a, b: a < b)

    def __le__(self, o):
        return self._cmp(o, lambda a, b: a <= b)

    def __gt__(self, o):
        return self._cmp(o, lambda a, b: a > b)

    def __ge__(self, o):
        return self._cmp(o, lambda a, b: a >= b)

    def __eq__(self, o):
        return self._cmp(o, lambda a, b: a == b)

    def __ne__(self, o):
        return self._cmp(o, lambda a, b: a != b)


class SymInt(SymNum):
    __slots__ = ()
    __vc_types__ = (int,)

    def __index__(self):
        """CPython asks for a machine index (list / tuple subscript with a symbolic int).  When the path condition
        confines the value to a few small non-negative values the path is SPLIT on them (an exact case analysis,
        like any other branch); otherwise the value would leak into native code: Unsupported."""
        c = ctx()
        for v in range(0, 6):
            if c.branch(self.t == v):
                return v
        raise Unsupported("symbolic SymInt leaked into native code (__index__): not confined to 0..5 on this path")

    def __floor__(self):
        return self

    __ceil__ = __trunc__ = __floor__

    def __round__(self, ndigits=None):
        if ndigits is None:
            return self
        raise Unsupported("round(int, ndigits) on symbolic value")

    # bit operations: only what the code base uses on possibly-symbolic ints
    def __lshift__(self, o):
        if isinstance(o, int) and 0 <= o < 64:
            return SymInt(self.t * (1 << o))
        raise Unsupported("symbolic <<")

    def __rlshift__(self, o):
        if isinstance(o, int) and o == 1:
            from . import spec

            return SymInt(spec.pow2_term(self.t))
        raise Unsupported("symbolic <<")

    def __rshift__(self, o):
        if isinstance(o, int) and 0 <= o < 64:
            return SymInt(self.t / (1 << o))
        raise Unsupported("symbolic >>")

    def __and__(self, o):
        raise Unsupported("symbolic bitwise &")

    __or__ = __xor__ = __rand__ = __ror__ = __rxor__ = __and__

    def __invert__(self):
        return SymInt(-self.t - 1)

    @property
    def real(self):
        return self

    @property
    def imag(self):
        return 0

    def is_integer(self):
        return True


class SymReal(SymNum):
    __slots__ = ()
    __vc_types__ = (float,)

    def __floor__(self):
        return SymInt(_floor_real(self.t))

    def __ceil__(self):
        return SymInt(-_floor_real(-self.t))

    def __trunc__(self):
        return SymInt(z3.If(self.t >= 0, _floor_real(self.t), -_floor_real(-self.t)))

    def __round__(self, ndigits=None):
        if ndigits is not None and not (isinstance(ndigits, int) and ndigits == 0):
            raise Unsupported("round(float, ndigits != 0) on symbolic value")
        half = self.t + z3.RealVal("1/2")
        f = _floor_real(half)
        r = z3.If(z3.And(z3.ToReal(f) == half, f % 2 != 0), f - 1, f)  # ties to even
        return SymInt(r) if ndigits is None else SymReal(z3.ToReal(r))

    def is_integer(self):
        return SymBool(z3.ToReal(_floor_real(self.t)) == self.t)

    def item(self):
        return self

    @property
    def real(self):
        return self

    @property
    def imag(self):
        return 0.0


def sym_int_trunc(x):
    """int(x) for a proxy."""
    if isinstance(x, SymInt):
        return x
    if isinstance(x, SymReal):
        return x.__trunc__()
    if isinstance(x, SymBool):
        return x._as_int()
    raise Unsupported(f"int() of {type(x).__name__}")


def sym_float(x):
    if isinstance(x, SymReal):
        return x
    if isinstance(x, SymInt):
        return SymReal(z3.ToReal(x.t))
    if isinstance(x, SymBool):
        return SymReal(z3.ToReal(x._as_int().t))
    raise Unsupported(f"float() of {type(x).__name__}")


def ite(c, a, b):
    """If-then-else without forking (falls back to native on concrete conditions)."""
    if isinstance(c, SymBool):
        ct = z3.simplify(c.t)
        if z3.is_true(ct):
            return a
        if z3.is_false(ct):
            return b
        if a is b:
            return a
        pa, pb = term_of(a), term_of(b)
        if pa is None or pb is None:
            # structural ite over tuples / slices
            if isinstance(a, tuple) and isinstance(b, tuple) and len(a) == len(b):
                return tuple(ite(c, x, y) for x, y in zip(a, b))
            if isinstance(a, slice) and isinstance(b, slice):
                return slice(ite(c, a.start, b.start), ite(c, a.stop, b.stop), ite(c, a.step, b.step))
            if a is None and b is None:
                return None
            # cannot merge: fork
            return a if bool(c) else b
        (x, kx), (y, ky) = pa, pb
        if kx == "bool" and ky == "bool":
            return SymBool(z3.If(ct, x, y))
        if kx == "bool":
            x, kx = _num(a)
        if ky == "bool":
            y, ky = _num(b)
        if kx != ky:
            x, y = as_real(x, kx), as_real(y, ky)
        return wrap(z3.If(ct, x, y))
    return a if c else b
