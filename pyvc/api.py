"""pyvc.api -- what contract modules import."""
from __future__ import annotations

from .contract import (  # noqa: F401
    CONTRACTS,
    Bool,
    Build,
    BytesSeg,
    Const,
    Contract,
    Custom,
    Derived,
    Scaled,
    Int,
    Obj,
    OneOf,
    Opt,
    Real,
    SeqOf,
    Shape,
    Slice,
    SymBoolShape,
    Tup,
    Value,
    contract,
    lemma,
)
from .loops import LoopSpec  # noqa: F401
from .spec import (  # noqa: F401
    Abs,
    And,
    Iff,
    Implies,
    Ite,
    Max,
    Min,
    Not,
    Or,
    approx_eq,
    ceil,
    div,
    exists,
    floor,
    forall,
    forall_ind,
    forall_real,
    idx_norm,
    is_int_obj,
    is_int_valued,
    le_tol,
    lt_tol,
    pow2,
    pow2_unfold,
    py_floordiv,
    py_slice_bounds,
    seq_get,
    seq_len,
    to_real,
)


def symbolic() -> bool:
    """True while a clause is evaluated by the symbolic engine (False in replay)."""
    from . import sym

    return sym.have_ctx()


def claim(c, label: str):
    """State a claim inside a lemma body / ghost code (dual use)."""
    from . import sym

    if sym.have_ctx():
        sym.ctx().check(c, f"claim:{label}", kind="lemma-claim")
    else:
        from . import engine_native

        if not bool(c):
            engine_native.CLAIM_FAILURES.append(f"claim:{label}")


def assume(c):
    from . import sym

    if sym.have_ctx():
        sym.ctx().assume(c)
    elif not bool(c):
        raise AssertionError("lemma assumption violated natively")


def repo(modname: str):
    """The repository module: the shadow-loaded one in the checker, the real one in replay."""
    import importlib

    return importlib.import_module(modname)


def calls_of(ref: str):
    """arguments of the calls made so far (on this path) to the stub of a contracted function --
    lets a lemma speak about what a function passed to its callee"""
    from . import sym

    return sym.ctx().ghost.get("calls", {}).get(ref, [])
