"""pyvc.api -- what contract modules import."""
from __future__ import annotations

from .contract import (  # noqa: F401
    CONTRACTS,
    Bool,
    Build,
    BytesSeg,
    Const,
    Contract,
    Custom,
    Derived,
    Scaled,
    Int,
    Obj,
    OneOf,
    Opt,
    Real,
    SeqOf,
    Shape,
    Slice,
    SymBoolShape,
    Tup,
    Value,
    contract,
    lemma,
)
from .loops import LoopSpec  # noqa: F401
from .spec import (  # noqa: F401
    Abs,
    And,
    Iff,
    Implies,
    Ite,
    Max,
    Min,
    Not,
    Or,
    approx_eq,
    ceil,
    div,
    exists,
    floor,
    forall,
    forall_ind,
    forall_real,
    idx_norm,
    is_int_obj,
    is_int_valued,
    le_tol,
    lt_tol,
    pow2,
    pow2_unfold,
    py_floordiv,
    py_slice_bounds,
    seq_get,
    seq_len,
    to_real,
)


def symbolic() -> bool:
    """True while a clause is evaluated by the symbolic engine (False in replay)."""
    from . import sym

    return sym.have_ctx()


STATEMENTS = {}


def stated_lemma(name: str, props, inputs, statement, requires=(), note=""):
    """A lemma given as a formula schema  statement(**inputs)  (proved for all inputs like any lemma).
    Such a lemma can be APPLIED elsewhere with use_lemma(name, **terms): the instance is handed to the
    solver as a fact where something is being assumed (loop invariants, preconditions), and is simply
    `True` where something is being claimed -- the usual lemma call of a deductive verifier."""
    from .contract import lemma as _lemma

    STATEMENTS[name] = statement

    def body(**kw):
        claim(statement(**kw), f"{name}: statement holds for all inputs")

    import inspect as _i

    body.__signature__ = _i.Signature([_i.Parameter(k, _i.Parameter.POSITIONAL_OR_KEYWORD) for k in inputs])
    return _lemma(name, props, inputs=inputs, body=body, requires=requires, note=note)


def use_lemma(name: str, **terms):
    """instance of a stated lemma (see stated_lemma); records the dependency so that the lemma is verified
    together with whatever uses it"""
    from . import sym

    if not sym.have_ctx():
        return True
    c = sym.ctx()
    from . import engine

    engine.USED_STUBS.add(f"lemma:{name}")
    if c.ghost.get("mode", "claim") != "assume":
        return True
    c.quant_depth += 1  # instances must be fork-free
    try:
        return STATEMENTS[name](**terms)
    finally:
        c.quant_depth -= 1


def claim(c, label: str):
    """State a claim inside a lemma body / ghost code (dual use)."""
    from . import sym

    if sym.have_ctx():
        sym.ctx().check(c, f"claim:{label}", kind="lemma-claim")
    else:
        from . import engine_native

        if not bool(c):
            engine_native.CLAIM_FAILURES.append(f"claim:{label}")


def assume(c):
    from . import sym

    if sym.have_ctx():
        sym.ctx().assume(c)
    elif not bool(c):
        raise AssertionError("lemma assumption violated natively")


def repo(modname: str):
    """The repository module: the shadow-loaded one in the checker, the real one in replay."""
    import importlib

    return importlib.import_module(modname)


def calls_of(ref: str):
    """arguments of the calls made so far (on this path) to the stub of a contracted function --
    lets a lemma speak about what a function passed to its callee"""
    from . import sym

    return sym.ctx().ghost.get("calls", {}).get(ref, [])
