"""
pyvc.report -- run one property check: verification, replay of counterexamples, known findings,
verdict, evidence file.
"""
from __future__ import annotations

import hashlib
import json
import os
import sys
import time

HERE = os.path.dirname(os.path.dirname(os.path.abspath(__file__)))
LOCK_FILE = os.path.join(HERE, "obligations.lock.json")
KNOWN_FILE = os.path.join(HERE, "known_findings.json")

EXTRACTION_DROPS = [
    "P1: call sites of int( float( bytes( bytearray( tuple( list( (and int/float passed as a positional function argument) are redirected to symbolic-aware equivalents that are the identity on ordinary values",
    "P2: loops with a sidecar loop contract are replaced by the invariant cut (check on entry, havoc assigned variables, assume, one arbitrary iteration, check again)",
    "P3: module globals that are `math`, `numpy` or math functions are re-bound to the library models (assumed contracts)",
    "nothing else: decorators, closures, generators, classes, properties, dataclasses, exceptions and asserts run under CPython as written",
]

PY_SEMANTICS = [
    "int is z3 Int (unbounded, exact)",
    "A1: float is z3 Real -- machine arithmetic treated as mathematical; inf/nan are separate concrete cases",
    "// and % on ints: Python floor semantics (fresh quotient/remainder for symbolic or negative divisors)",
    "int(x) truncates, math.floor/ceil via ToInt, round() is half-to-even, fmod(x, c) = x - trunc(x/c)*c",
    "true division by a possibly-zero divisor forks into ZeroDivisionError",
    "`is` between two non-constant operands is not interceptable: occurrences are listed under identity_comparisons",
    "control flow, attribute access, closures, exceptions, tuple/slice/dict values: CPython itself",
]


def load_json(path, default):
    if os.path.exists(path):
        with open(path) as f:
            return json.load(f)
    return default


def run_check(args):
    from pyvc import main as M
    from pyvc import shadow, spec

    t0 = time.time()
    prop = args.prop
    tier = args.tier if args.tier in ("quick", "thorough") else "quick"
    seed = int(os.environ.get("VERIF_SEED", "0") or 0)
    # --- trusted-base self-test ------------------------------------------------------------
    try:
        n_slice_cases = spec.selftest_py_slice_bounds(7 if tier == "quick" else 9)
    except AssertionError as e:
        print(f"CHECKER-ERROR: py_slice_bounds disagrees with CPython: {e}")
        return 3
    try:
        CONTRACTS = M._load_all()
    except Exception as e:  # pylint: disable=broad-except
        import traceback

        traceback.print_exc()
        print(f"CHECKER-ERROR: cannot load contracts/shadow modules: {e}")
        return 3
    known = [k for k in load_json(KNOWN_FILE, {"findings": []})["findings"] if k.get("property") == prop]
    from pyvc import engine

    engine.KNOWN_EXCUSES = {(k["contract"], k["obligation"]): k for k in known if k.get("status", "open") == "open"}
    roots, seen, results, wall_verify = M.verify_property(prop, tier, args.jobs, only=args.only, verbose=args.verbose)
    if not roots:
        print(f"CHECKER-ERROR: no contracts registered for {prop}")
        return 3
    if os.environ.get("PYVC_DUMP"):
        for r_ in sorted(results, key=lambda r_: -r_.get("wall", 0))[:5]:
            print(f"[pyvc] case wall {r_.get('wall', 0):.1f}s paths {r_.get('paths')} {r_['contract']} [{r_.get('case_desc', '')[:80]}]", flush=True)
    obl = M.aggregate(results)
    lock_all = load_json(LOCK_FILE, {})
    lock = set(lock_all.get(prop, []))

    crashes = [r for r in results if r.get("crash")]
    undecided = []
    for r in results:
        for u in r["undecided"]:
            undecided.append(dict(u, contract=r["contract"], case_desc=r.get("case_desc", "")))
    # vacuity: every contract must have at least one case whose precondition is reachable and
    # whose body ran to an outcome
    reach = {}
    for r in results:
        d = reach.setdefault(r["contract"], dict(cases=0, reachable=0, outcomes=0))
        d["cases"] += 1
        oc = r.get("outcomes", {})
        n = oc.get("return", 0) + oc.get("raise", 0)
        d["outcomes"] += n
        if n > 0:
            d["reachable"] += 1
    # (a contract none of whose cases could be followed -- every path ended in Unsupported / a stand-in gap -- is UNDECIDED,
    #  already reported as such; vacuous means: nothing was undecided and still nothing ran)
    und_contracts = {u["contract"] for u in undecided}
    # ... and a contract whose every path stopped at an obligation that did NOT go through (a refuted or unknown
    # call-pre ends the path there) has its verdict from that obligation, it is not vacuous either
    und_contracts |= {k.split("::")[0] for k, o in obl.items() if o.get("failed") or o.get("unknown")}
    vacuous = [c for c, d in reach.items() if d["outcomes"] == 0 and c not in und_contracts and not any(rr.get("crash") for rr in results if rr["contract"] == c)]

    # --- failures: replay ---------------------------------------------------------------------
    violations = []
    known_lines = []
    replay_dir = os.path.join(HERE, "replays", prop)
    n_replayed = 0
    for key, o in sorted(obl.items()):
        fails = o["failed"]
        if not fails:
            continue
        excused = [f for f in fails if f.get("excused")]
        real = [f for f in fails if not f.get("excused")]
        if excused and not real:
            kf = engine.KNOWN_EXCUSES.get((o["contract"], o["oid"]))
            known_lines.append(f"KNOWN-FINDING: property={prop} {o['contract']} {o['oid']}: {kf.get('what', '') if kf else ''}")
            o["known_finding"] = True
            continue
        os.makedirs(replay_dir, exist_ok=True)
        best = None
        for f in real[:4]:
            rp = dict(
                property=prop,
                contract=o["contract"],
                obligation=o["oid"],
                kind=o["kind"],
                case=f.get("case_desc"),
                path=f.get("path"),
                witness=f.get("witness"),
                witness_error=f.get("witness_error"),
                model=f.get("model"),
                solver=f.get("backend"),
                solver_output="sat (negated obligation is satisfiable)",
                negated_obligation=f.get("term"),
                note=f.get("note"),
                how_to_run=f"cd {HERE} && ./check {prop} --replay <this file>",
            )
            h = hashlib.sha256(json.dumps([rp["contract"], rp["obligation"], rp["witness"]], sort_keys=True, default=str).encode()).hexdigest()[:12]
            path = os.path.join(replay_dir, f"{h}.json")
            with open(path, "w") as fh:
                json.dump(rp, fh, indent=1, default=str)
            status = "no-witness"
            out = {}
            if f.get("witness") is not None:
                rc, out = M.run_replay(path)
                n_replayed += 1
                status = out.get("status", "replay-crashed")
                if status != "reproduced" and f.get("witness_raw"):
                    # the float-friendly witness did not reproduce: try the solver's original model
                    rp["witness_float_friendly"] = rp["witness"]
                    rp["witness"] = f["witness_raw"]
                    with open(path, "w") as fh:
                        json.dump(rp, fh, indent=1, default=str)
                    rc, out2 = M.run_replay(path)
                    n_replayed += 1
                    if out2.get("status") == "reproduced":
                        out, status = out2, "reproduced"
                        f = dict(f, witness=f["witness_raw"])
            rp["replay_result"] = out
            with open(path, "w") as fh:
                json.dump(rp, fh, indent=1, default=str)
            if status != "reproduced":
                # the solver's model refutes an intermediate obligation (a callee's precondition, a
                # loop invariant): it need not be an input on which the function's own postcondition
                # fails.  Bounded native search of the same input case for one that does.
                if f.get("case") is not None and not str(o["contract"]).startswith("lemma:"):
                    spath = path[:-5] + "_search.json"
                    srp = dict(rp, search=dict(case_index=f.get("case"), seed=0, budget_s=20.0), witness=None, replay_result=None)
                    with open(spath, "w") as fh:
                        json.dump(srp, fh, indent=1, default=str)
                    rc, out3 = M.run_replay(spath)
                    n_replayed += 1
                    if out3.get("status") == "reproduced":
                        srp["search"]["search_index"] = out3.get("search_index")
                        srp["replay_result"] = out3
                        srp["note"] = (srp.get("note") or "") + " | failing input found by bounded native search of the input case (the solver's model refutes only the intermediate obligation)"
                        with open(spath, "w") as fh:
                            json.dump(srp, fh, indent=1, default=str)
                        out, status, path = out3, "reproduced", spath
                        f = dict(f, witness=out3.get("sample"))
                    else:
                        rp["native_search"] = out3
                        with open(path, "w") as fh:
                            json.dump(rp, fh, indent=1, default=str)
                        try:
                            os.remove(spath)
                        except OSError:
                            pass
            cand = dict(key=key, path=path, status=status, witness=f.get("witness"), observed=out.get("observed"))
            if status == "reproduced":
                best = cand
                break
            if best is None:
                best = cand
        violations.append(best)

    # --- thorough tier: back-end agreement and mutation self-test ---------------------------------------------
    cross = dict(agree=0, unknown=0, not_exported=0, disagree=[])
    for r in results:
        for inst in r["instances"]:
            cc = inst.get("cvc5_cross")
            if cc == "agree":
                cross["agree"] += 1
            elif cc == "unknown":
                cross["unknown"] += 1
            elif cc == "not-exported":
                cross["not_exported"] += 1
            elif cc == "DISAGREE":
                cross["disagree"].append(f"{r['contract']}::{inst['oid']} path {inst.get('path')}")
    mutation = None
    if tier == "thorough" and not args.only:
        mutation = run_mutation_sample(prop, seed)
    EXTRA["cvc5_cross_check"] = cross
    EXTRA["mutation_selftest"] = mutation
    # --- bounded stand-ins (never counted as proved) ----------------------------------------------------
    bounded = run_bounded(prop, tier, seed)
    lines = []
    n_viol = 0
    known_by_id = {k.get("id"): k for k in known}
    for b in bounded:
        for kid, hits in (b.get("known_hits") or {}).items():
            kf = known_by_id.get(kid, {})
            known_lines.append(f"KNOWN-FINDING: property={prop} {b['contract']} [{kid}] {kf.get('what', '')} ({hits} of the enumerated cases)")
        for f in b["failed"][:1]:
            os.makedirs(replay_dir, exist_ok=True)
            h = hashlib.sha256(json.dumps([b["contract"], f.get("index")], default=str).encode()).hexdigest()[:12]
            path = os.path.join(replay_dir, f"bounded_{h}.json")
            with open(path, "w") as fh:
                json.dump(dict(property=prop, contract=b["contract"], obligation="bounded-check", kind="bounded", bounded_index=f.get("index"), tier=tier, seed=seed, sample=f.get("sample"), observed=f.get("observed"), how_to_run=f"cd {HERE} && ./check {prop} --replay <this file>"), fh, indent=1, default=str)
            lines.append(f"VIOLATION property={prop} replay={path}")
            lines.append(f"  bounded check of {b['contract']} fails on the real code: sample {json.dumps(f.get('sample'), default=str)[:300]}: {json.dumps(f.get('observed'), default=str)[:500]}")
            n_viol += 1
    # --- verdict ------------------------------------------------------------------------------------
    n_undecided_fail = 0
    for v in violations:
        if v["status"] == "reproduced":
            lines.append(f"VIOLATION property={prop} replay={v['path']}")
            lines.append(f"  obligation {v['key']} fails on the real code with {v['witness']}: {json.dumps(v['observed'], default=str)[:600]}")
            n_viol += 1
        elif v["key"] in lock:
            lines.append(f"VIOLATION property={prop} replay={v['path']} obligation {v['key']} was discharged on the reference tree and is now refuted by the solver ({v['status']}) no-failing-input-found")
            n_viol += 1
        else:
            lines.append(f"UNDECIDED property={prop} obligation {v['key']} refuted by the solver but not reproduced on the real code ({v['status']}); replay={v['path']}")
            n_undecided_fail += 1
    unknown_obl = [k for k, o in obl.items() if o["unknown"]]
    missing = sorted(k for k in lock if k not in obl)
    if getattr(args, "update_lock", False):
        missing = []  # the lock is being regenerated: renamed clauses are expected
    # an obligation of the lock file that is no longer generated: the function / loop / clause it
    # belonged to has gone -- undecided, never a pass
    n_obl = len(obl)
    n_dis = sum(1 for o in obl.values() if o["discharged"] == o["instances"] or o.get("known_finding"))
    for l in known_lines:
        print(l)
    for l in lines:
        print(l)
    for k in unknown_obl[:20]:
        print(f"UNDECIDED property={prop} obligation {k}: solver returned unknown on {len(obl[k]['unknown'])} instance(s)")
    for u in undecided[:20]:
        print(f"UNDECIDED property={prop} {u['contract']} [{u.get('case_desc','')}] {u['reason']} {u.get('where','')}")
    for c in crashes[:5]:
        print(f"CHECKER-ERROR property={prop} {c['contract']} case {c['case']}: {c['crash']}\n{c.get('traceback','')}")
    for c in vacuous:
        print(f"CHECKER-ERROR property={prop} contract {c} is vacuous: no input case reaches an outcome")
    for k in missing[:20]:
        print(f"UNDECIDED property={prop} obligation {k} (in obligations.lock.json) is no longer generated")

    for d_ in cross["disagree"]:
        print(f"CHECKER-ERROR property={prop} z3 discharged {d_} but cvc5 finds the negation satisfiable (back ends disagree)")
    n_reproduced = sum(1 for v in violations if v and v["status"] == "reproduced") + sum(1 for b in bounded if b["failed"])
    if n_reproduced:
        rc = 1  # a failing input replayed on the real code stands, whatever else went wrong in the run
    elif crashes or vacuous or cross["disagree"]:
        rc = 3
    elif n_viol:
        rc = 1
    elif n_undecided_fail or unknown_obl or undecided or missing or n_obl == 0:
        rc = 2
    else:
        rc = 0

    # --- evidence -----------------------------------------------------------------------------------
    if not args.no_evidence and not args.only:
        write_evidence(prop, tier, seed, roots, seen, results, obl, n_obl, n_dis, violations, known_lines, undecided, unknown_obl, missing, n_replayed, n_slice_cases, reach, time.time() - t0, rc, bounded)
    if getattr(args, "update_lock", False) and rc == 0:
        lock_all[prop] = sorted(k for k, o in obl.items() if o["discharged"] == o["instances"])
        with open(LOCK_FILE, "w") as f:
            json.dump(lock_all, f, indent=0, sort_keys=True)
    print(f"pyvc: property={prop} tier={tier} contracts={len(seen)} obligations={n_obl} discharged={n_dis} violations={n_viol} undecided={len(undecided) + len(unknown_obl) + n_undecided_fail + len(missing)} wall={time.time() - t0:.1f}s exit={rc}")
    return rc


EXTRA = {}


def _pp():
    """PYTHONPATH of native child processes: the checker, then the tree under verification when it is not /repo
    (PYVC_REPO: a scratch copy with a seeded change applied -- the editable install of /repo must not win)"""
    return os.pathsep.join([HERE] + ([os.environ["PYVC_REPO"]] if os.environ.get("PYVC_REPO") else []))


def run_mutation_sample(prop, seed, k=12):
    """mutation self-test of the proof part: k small semantic edits of the functions under contract,
    applied in memory; reported in evidence (informational: a survivor is an equivalent mutant or a
    contract too weak to notice, never a verdict on the tree)"""
    import subprocess

    env = dict(os.environ, PYTHONPATH=_pp(), PYVC_TIER="quick")
    try:
        r = subprocess.run([sys.executable, "-W", "ignore", "-m", "pyvc.mutate", prop, "--sample", str(k), "--seed", str(seed)], capture_output=True, text=True, cwd=HERE, env=env, timeout=3000)
        txt = r.stdout[r.stdout.index("{") :]
        d = json.loads(txt)
        return dict(total_mutants=d["total"], sampled=d["sampled"], killed=d["killed"], survived=[f"{x.get('ref')} line {x.get('line')}: {x.get('desc')}" for x in d["survived"]], undecided=[f"{x.get('ref')} line {x.get('line')}: {x.get('desc')} ({x.get('verdict')})" for x in d["undecided"]])
    except Exception as e:  # pylint: disable=broad-except
        return dict(error=f"{type(e).__name__}: {e}")


def run_bounded(prop, tier, seed):
    import subprocess

    env = dict(os.environ, PYTHONPATH=_pp())
    try:
        r = subprocess.run([sys.executable, "-W", "ignore", "-m", "pyvc.bounded", prop, "--tier", tier, "--seed", str(seed)], capture_output=True, text=True, cwd=HERE, env=env, timeout=1500)
        return json.loads(r.stdout.strip().splitlines()[-1])["bounded"]
    except Exception as e:  # pylint: disable=broad-except
        return [dict(contract="<bounded runner>", bound="", cases=0, failed=[dict(index=None, sample="", observed=dict(error=f"{type(e).__name__}: {e}"))], wall=0)]


def write_evidence(prop, tier, seed, roots, seen, results, obl, n_obl, n_dis, violations, known_lines, undecided, unknown_obl, missing, n_replayed, n_slice_cases, reach, wall, rc, bounded=()):
    from pyvc import npmodel, shadow
    from pyvc.contract import CONTRACTS

    funcs = []
    trusted = []
    for ref in seen:
        C = CONTRACTS[ref]
        ent = dict(contract=ref, kind=C.kind, cases=len(C.cases()), note=C.note, inline=C.inline)
        if C.kind == "function":
            try:
                ent.update(shadow.function_source(ref))
            except Exception as e:  # pylint: disable=broad-except
                ent["source_error"] = str(e)
        ent["reachable_cases"] = reach.get(ref, {}).get("reachable", 0)
        ent["paths"] = sum(r["paths"] for r in results if r["contract"] == ref)
        ent["obligations"] = sorted(o["oid"] for o in obl.values() if o["contract"] == ref)
        funcs.append(ent)
    used_anywhere = {u for r in results for u in r.get("used_stubs", [])}
    for ref, C in CONTRACTS.items():
        if not C.verify and (prop in C.props or ref in used_anywhere):
            trusted.append(f"assumed contract (not verified): {ref}: {C.trusted_reason}")
    by_backend = {}
    for o in obl.values():
        for b, n in o["backends"].items():
            by_backend[b] = by_backend.get(b, 0) + n
    slowest = sorted(((round(o["time"], 3), k) for k, o in obl.items()), reverse=True)[:5]
    samples = []
    for k, o in list(sorted(obl.items()))[:: max(1, len(obl) // 6)][:6]:
        samples.append(dict(obligation=k, kind=o["kind"], path_level_instances=o["instances"], discharged_instances=o["discharged"], backends=o["backends"]))
    idflags = {}
    for ref in seen:
        m = ref.split(":")[0]
        for fl in shadow.IDENTITY_FLAGS.get(m, []):
            q = ref.split(":")[1] if ":" in ref else ""
            if fl[0] and (fl[0] == q or fl[0].startswith(q + ".") or q.endswith(fl[0])):
                idflags.setdefault(ref, []).append(f"line {fl[1]}: {fl[2]}")
    instances = sum(o["instances"] for o in obl.values())
    trusted_base = (
        [
            "pyvc itself (proxy-based symbolic execution of the shadow-loaded source; guarded by concrete cross-checks and the mutation self-test)",
            "z3 5.1 / cvc5 1.0.3",
            "CPython 3.12 executing the instrumented source",
        ]
        + [f"extraction: {d}" for d in EXTRACTION_DROPS]
        + [f"python semantics: {d}" for d in PY_SEMANTICS]
        + [f"library model used (assumed contract): {m}" for m in sorted(set(npmodel.MODELS_USED) | {m for r in results for m in r.get("models_used", [])})]
        + trusted
    )
    ev = dict(
        property_id=prop,
        tier=tier,
        seed=seed,
        level="proof",
        wall_s=round(wall, 2),
        violations=sum(1 for v in violations if v and (v["status"] == "reproduced")) + sum(1 for b in bounded if b["failed"]),
        coverage=dict(
            obligations=n_obl,
            discharged=n_dis,
            checker_cmd=f"./check {prop} --tier {tier}",
            trusted_base=trusted_base,
            samples=samples,
            path_level_instances=instances,
            by_backend=by_backend,
            solver_time_s=round(sum(o["time"] for o in obl.values()), 2),
            slowest=slowest,
            functions_under_contract=funcs,
            contracts_verified=len(seen),
            root_contracts=roots,
            paths=sum(r["paths"] for r in results),
            cover_checks=reach,
            counterexamples_replayed=n_replayed,
            known_findings=known_lines,
            undecided=[f"{u['contract']}: {u['reason']}" for u in undecided][:50] + [f"unknown: {k}" for k in unknown_obl] + [f"missing: {k}" for k in missing],
            identity_comparisons=idflags,
            py_slice_bounds_selftest_cases=n_slice_cases,
            cvc5_cross_check=EXTRA.get("cvc5_cross_check"),
            mutation_selftest=EXTRA.get("mutation_selftest"),
            exit_code=rc,
            instrumented_loops=shadow.INSTRUMENTED_LOOPS,
            bounded_checks=[dict(contract=b["contract"], bound=b["bound"], cases=b["cases"], passed=not b["failed"], known_finding_hits=b.get("known_hits", {}), wall_s=b["wall"], label="BOUNDED stand-in: native evaluation of the contract on an enumerated input set; not a proof, not counted in obligations/discharged") for b in bounded],
        ),
        assumptions=[
            "A1: floats are mathematical reals",
            "library models listed in trusted_base are assumed, not verified",
            "callers are verified against callee contracts (stubs); every contract used as a stub is itself verified in this run (closure) unless marked assumed",
        ],
    )
    os.makedirs(os.path.join(HERE, "evidence"), exist_ok=True)
    with open(os.path.join(HERE, "evidence", f"{prop}.json"), "w") as f:
        json.dump(ev, f, indent=1, default=str)
