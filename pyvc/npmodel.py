"""
pyvc.npmodel -- `numpy` as seen by shadow modules.

Every attribute is the real numpy attribute; callables are wrapped so that a proxy argument is
either handled by an explicit *model* below (an assumed library contract, listed in evidence) or
rejected with Unsupported.  Nothing symbolic ever reaches numpy's C code.
"""
from __future__ import annotations

import types

import numpy as _np

from . import sym
from .sym import SymBase, Unsupported, ite

MODELS_USED = set()


def _has_sym(x, depth=0):
    if isinstance(x, SymBase):
        return True
    if depth < 3 and isinstance(x, (tuple, list)):
        return any(_has_sym(e, depth + 1) for e in x)
    if depth < 3 and isinstance(x, dict):
        return any(_has_sym(e, depth + 1) for e in x.values())
    if isinstance(x, slice):
        return _has_sym(x.start) or _has_sym(x.stop) or _has_sym(x.step)
    return False


def _wrap(name, fn, model=None):
    def g(*a, **k):
        if any(_has_sym(x) for x in a) or any(_has_sym(x) for x in k.values()):
            if model is None:
                raise Unsupported(f"numpy.{name} on a symbolic value (no model)")
            MODELS_USED.add(f"numpy.{name}")
            return model(*a, **k)
        return fn(*a, **k)

    g.__name__ = name
    g.__vc_native__ = fn
    return g


# ---- scalar models ----------------------------------------------------------------------------


def _m_floor(x, *a, **k):
    from .builtins_ import m_floor, sym_float

    if isinstance(x, SymBase):
        return sym_float(m_floor(x))  # numpy floor returns float
    raise Unsupported("numpy.floor on a non-scalar symbolic value")


def _m_ceil(x, *a, **k):
    from .builtins_ import m_ceil, sym_float

    if isinstance(x, SymBase):
        return sym_float(m_ceil(x))
    raise Unsupported("numpy.ceil on a non-scalar symbolic value")


def _m_abs(x, *a, **k):
    if isinstance(x, SymBase):
        return abs(x)
    raise Unsupported("numpy.abs on a non-scalar symbolic value")


def _m_isfinite(x, *a, **k):
    if isinstance(x, SymBase):
        return True
    raise Unsupported("numpy.isfinite on a non-scalar symbolic value")


def _m_clip(x, lo, hi, *a, **k):
    if isinstance(x, (tuple, list)):
        raise Unsupported("numpy.clip on a symbolic array")
    r = x
    if lo is not None:
        r = ite(r < lo, lo, r)
    if hi is not None:
        r = ite(r > hi, hi, r)
    return r


def _m_isclose(a, b, rtol=1e-05, atol=1e-08, equal_nan=False):
    if isinstance(a, (tuple, list)) or isinstance(b, (tuple, list)):
        raise Unsupported("numpy.isclose on a symbolic array")
    return abs(a - b) <= (atol + rtol * abs(b))


_MODELS = {
    "floor": _m_floor,
    "ceil": _m_ceil,
    "abs": _m_abs,
    "absolute": _m_abs,
    "isfinite": _m_isfinite,
    "clip": _m_clip,
    "isclose": _m_isclose,
}


class NpModel(types.ModuleType):
    def __init__(self):
        super().__init__("numpy")
        self.__dict__["_cache"] = {}

    def __getattr__(self, name):
        if name.startswith("__"):
            raise AttributeError(name)
        cache = self.__dict__["_cache"]
        if name in cache:
            return cache[name]
        v = getattr(_np, name)
        if isinstance(v, type) or isinstance(v, types.ModuleType) or not callable(v):
            r = v
        else:
            r = _wrap(name, v, _MODELS.get(name))
        cache[name] = r
        return r


NPMODEL = NpModel()
SUBST = {id(_np): NPMODEL}
