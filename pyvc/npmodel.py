"""
pyvc.npmodel -- `numpy` as seen by shadow modules.

Every attribute is the real numpy attribute; callables are wrapped so that a proxy argument is
either handled by an explicit *model* below (an assumed library contract, listed in evidence) or
rejected with Unsupported.  Nothing symbolic ever reaches numpy's C code.
"""
from __future__ import annotations

import types

import numpy as _np

from . import sym
from .sym import SymBase, Unsupported, ite

MODELS_USED = set()


def _has_sym(x, depth=0):
    if isinstance(x, (SymBase, SymNd, SymPts)):
        return True
    if depth < 3 and isinstance(x, (tuple, list)):
        return any(_has_sym(e, depth + 1) for e in x)
    if depth < 3 and isinstance(x, dict):
        return any(_has_sym(e, depth + 1) for e in x.values())
    if isinstance(x, slice):
        return _has_sym(x.start) or _has_sym(x.stop) or _has_sym(x.step)
    return False


def _wrap(name, fn, model=None):
    def g(*a, **k):
        if any(_has_sym(x) for x in a) or any(_has_sym(x) for x in k.values()):
            if model is None:
                raise Unsupported(f"numpy.{name} on a symbolic value (no model)")
            MODELS_USED.add(f"numpy.{name}")
            return model(*a, **k)
        return fn(*a, **k)

    g.__name__ = name
    g.__vc_native__ = fn
    return g


# ---- scalar models ----------------------------------------------------------------------------


def _m_floor(x, *a, **k):
    from .builtins_ import m_floor, sym_float

    if isinstance(x, SymBase):
        return sym_float(m_floor(x))  # numpy floor returns float
    if isinstance(x, SymNd) and x.ndim == 1:
        return SymNd([_m_floor(v) if isinstance(v, SymBase) else _np.floor(v) for v in x.data])
    raise Unsupported("numpy.floor on a non-scalar symbolic value")


def _m_ceil(x, *a, **k):
    from .builtins_ import m_ceil, sym_float

    if isinstance(x, SymBase):
        return sym_float(m_ceil(x))
    if isinstance(x, SymNd) and x.ndim == 1:
        return SymNd([_m_ceil(v) if isinstance(v, SymBase) else _np.ceil(v) for v in x.data])
    raise Unsupported("numpy.ceil on a non-scalar symbolic value")


def _m_abs(x, *a, **k):
    if isinstance(x, SymBase):
        return abs(x)
    raise Unsupported("numpy.abs on a non-scalar symbolic value")


def _m_isfinite(x, *a, **k):
    if isinstance(x, SymPts):
        return _AllTrue()
    if isinstance(x, SymBase):
        return True
    raise Unsupported("numpy.isfinite on a non-scalar symbolic value")


def _m_clip(x, lo, hi, *a, out=None, **k):
    if isinstance(x, (tuple, list)):
        raise Unsupported("numpy.clip on a symbolic array")
    if isinstance(x, SymNd):
        if x.ndim != 1 or a or k:
            raise Unsupported("numpy.clip on this symbolic array")
        vals = [_m_clip(v, lo, hi) for v in x.data]
        if out is not None:
            if out is not x:
                raise Unsupported("numpy.clip(out=) into another array")
            x.data[:] = vals  # in place, like numpy
            return x
        return SymNd(vals, x.dtype)
    if out is not None:
        raise Unsupported("numpy.clip(out=) on a scalar")
    r = x
    if lo is not None:
        r = ite(r < lo, lo, r)
    if hi is not None:
        r = ite(r > hi, hi, r)
    return r


def _m_isclose(a, b, rtol=1e-05, atol=1e-08, equal_nan=False):
    if isinstance(a, (tuple, list)) or isinstance(b, (tuple, list)):
        raise Unsupported("numpy.isclose on a symbolic array")
    return abs(a - b) <= (atol + rtol * abs(b))


def _And(a, b):
    return sym.SymBool(__import__("z3").And(sym.to_bool_term(a), sym.to_bool_term(b)))


class SymNd:
    """Tiny model of an ndarray holding proxies: a (nested) python list with the handful of numpy
    operations the code base applies to small index arrays (assumed numpy meaning)."""

    def __init__(self, data, dtype=None):
        self.data = data
        self.dtype = dtype  # "int32": every arithmetic result must fit (an OBLIGATION, numpy would wrap silently)

    # -- elementwise arithmetic on 1-d arrays (with a scalar or an equally long 1-d array) ------------------------
    def _ew(self, o, f, what):
        if self.ndim != 1:
            raise Unsupported("arithmetic on a 2-d symbolic array")
        if isinstance(o, SymNd):
            if o.ndim != 1 or len(o.data) != len(self.data):
                raise Unsupported("array arithmetic with mismatched shapes")
            vals = [f(a, b) for a, b in zip(self.data, o.data)]
            dt = self.dtype if self.dtype == o.dtype else None
        elif isinstance(o, (list, tuple)):
            raise Unsupported("array arithmetic with a python sequence")
        else:
            vals = [f(a, o) for a in self.data]
            dt = self.dtype if (isinstance(o, int) and not isinstance(o, bool)) or type(o).__name__ == "SymInt" else None
        out = SymNd(vals, dt)
        out._check_width(what)
        return out

    def _check_width(self, what):
        if self.dtype == "int32":
            from .sym import ctx

            for k, v in enumerate(self.data):
                if isinstance(v, SymBase):
                    ctx().check(_And(-(2**31) <= v, v < 2**31), f"int32-no-overflow:{what}", kind="library-pre", note="an int32 array element must stay within [-2**31, 2**31): numpy wraps silently")
                elif not -(2**31) <= v < 2**31:
                    raise Unsupported("int32 overflow on a concrete value")

    def __add__(self, o):
        return self._ew(o, lambda a, b: a + b, "add")

    __radd__ = __add__

    def __sub__(self, o):
        return self._ew(o, lambda a, b: a - b, "sub")

    def __rsub__(self, o):
        return self._ew(o, lambda a, b: b - a, "rsub")

    def __mul__(self, o):
        return self._ew(o, lambda a, b: a * b, "mul")

    __rmul__ = __mul__

    def __mod__(self, o):
        return self._ew(o, lambda a, b: a % b, "mod")

    def __floordiv__(self, o):
        return self._ew(o, lambda a, b: a // b, "floordiv")

    def __neg__(self):
        return self._ew(0, lambda a, b: b - a, "neg")

    def astype(self, dtype, *a, **k):
        """float -> int32: truncation toward zero; the value must fit int32 (an OBLIGATION: the cast is undefined beyond)"""
        from .builtins_ import _int

        MODELS_USED.add("ndarray.astype")
        if str(dtype) != "int32" or self.ndim != 1:
            raise Unsupported("astype of a symbolic array to " + str(dtype))
        out = SymNd([_int(v) for v in self.data], "int32")
        out._check_width("astype")
        return out

    @property
    def ndim(self):
        return 2 if self.data and isinstance(self.data[0], list) else 1

    @property
    def shape(self):
        if self.ndim == 2:
            return (len(self.data), len(self.data[0]))
        return (len(self.data),)

    def _reduce(self, op, axis):
        from .builtins_ import _max, _min

        f = _min if op == "min" else _max
        if self.ndim == 1:
            return f(self.data)
        if axis == 0:
            return SymNd([f([row[j] for row in self.data]) for j in range(len(self.data[0]))])
        if axis == 1:
            return SymNd([f(row) for row in self.data])
        return f([x for row in self.data for x in row])

    def min(self, axis=None):
        MODELS_USED.add("ndarray.min")
        return self._reduce("min", axis)

    def max(self, axis=None):
        MODELS_USED.add("ndarray.max")
        return self._reduce("max", axis)

    def tolist(self):
        return [list(r) if isinstance(r, list) else r for r in self.data]

    def __getitem__(self, i):
        r = self.data[i]
        return SymNd(r) if isinstance(r, list) else r

    def __len__(self):
        return len(self.data)

    def __iter__(self):
        return iter(self.tolist())

    @property
    def T(self):
        if self.ndim == 1:
            return self
        return SymNd([list(col) for col in zip(*self.data)])


class _AllTrue:
    """result of numpy.isfinite on an array of (mathematical) reals"""

    def all(self, *a, **k):
        return True

    def any(self, *a, **k):
        return True


class SymPts:
    """An N x 2 float array of symbolic length N: two z3 arrays Int -> Real (columns X, Y).  What the code base does with
    point clouds: .ndim / .shape, isfinite (A1: reals are finite), min / max along axis 0 (assumed numpy meaning: a lower
    / upper bound that is attained; only for N >= 1 -- numpy raises on empty input)."""

    ndim = 2

    def __init__(self, n, cols, input_name=None):
        self.n, self.cols, self.input_name = n, cols, input_name

    @staticmethod
    def fresh(name, min_len=0):
        import z3

        c = sym.ctx()
        n = z3.Int(c.fresh_name(f"{name}.len"))
        c.assume(n >= min_len, fact=True)
        cols = [z3.Array(c.fresh_name(f"{name}.{ax}"), z3.IntSort(), z3.RealSort()) for ax in "xy"]
        c.inputs[f"{name}.len"] = n
        return SymPts(n, cols, input_name=name)

    @property
    def shape(self):
        return (sym.SymInt(self.n), 2)

    @property
    def size(self):
        return sym.SymInt(self.n) * 2

    def point(self, k):
        import z3

        kt = sym.term_of(k)[0]
        return sym.SymReal(z3.Select(self.cols[0], kt)), sym.SymReal(z3.Select(self.cols[1], kt))

    def _extreme(self, which, axis):
        import z3

        c = sym.ctx()
        if sym.SymBool(self.n <= 0).__bool__():
            raise ValueError("zero-size array to reduction operation which has no identity")
        if axis is None:
            # over all elements: a bound of both columns, attained in one of them
            m = z3.Real(c.fresh_name(which))
            j = z3.Int(c.fresh_name("j"))
            w = z3.Int(c.fresh_name("arg" + which))
            cmp = (lambda v: m <= v) if which == "min" else (lambda v: m >= v)
            c.assume(z3.ForAll([j], z3.Implies(z3.And(j >= 0, j < self.n), z3.And(*[cmp(z3.Select(col, j)) for col in self.cols]))), fact=True)
            c.assume(z3.And(w >= 0, w < self.n, z3.Or(*[z3.Select(col, w) == m for col in self.cols])), fact=True)
            return sym.SymReal(m)
        if axis != 0:
            raise Unsupported("min/max of a points array along this axis")
        out = []
        for col in self.cols:
            m = z3.Real(c.fresh_name(which))
            j = z3.Int(c.fresh_name("j"))
            w = z3.Int(c.fresh_name("arg" + which))
            bound = (m <= z3.Select(col, j)) if which == "min" else (m >= z3.Select(col, j))
            c.assume(z3.ForAll([j], z3.Implies(z3.And(j >= 0, j < self.n), bound)), fact=True)
            c.assume(z3.And(w >= 0, w < self.n, z3.Select(col, w) == m), fact=True)
            out.append(sym.SymReal(m))
        return SymNd(out)

    def min(self, axis=None, **k):
        MODELS_USED.add("ndarray.min")
        return self._extreme("min", axis)

    def max(self, axis=None, **k):
        MODELS_USED.add("ndarray.max")
        return self._extreme("max", axis)

    def __vc_src__(self, model, c):
        from .engine import model_value, to_src

        n = max(0, min(int(model_value(model, self.n)), 8))
        rows = ["[" + ", ".join(to_src(v, model, c) for v in self.point(k)) + "]" for k in range(n)]
        return "np.asarray([" + ", ".join(rows) + "], dtype='float64').reshape(" + str(n) + ", 2)"


def _m_asarray(x, dtype=None, **k):
    from .seq import SymSeq

    if isinstance(x, SymNd):
        return x
    if isinstance(x, SymSeq):
        # a 1-d array of the same elements (an integer dtype is ASSUMED wide enough for them)
        return x.as_kind("array", copy=True)
    if isinstance(x, (list, tuple)):
        rows = [list(r) if isinstance(r, (list, tuple)) else r for r in x]
        return SymNd(rows)
    raise Unsupported("numpy.asarray of a symbolic non-list value")


def _m_searchsorted(a, v, side="left", sorter=None):
    """Assumed meaning (numpy doc): for a nondecreasing 1-d array `a`, the index k such that
    a[j] <= v for j < k and a[j] > v for j >= k (side='right'); `<`/`>=` for side='left'.
    That `a` is nondecreasing is an OBLIGATION at the call site."""
    import z3

    from .seq import SymSeq
    from .sym import SymInt, ctx, term_of

    if not isinstance(a, SymSeq) or sorter is not None:
        raise Unsupported("numpy.searchsorted on this argument")
    c = ctx()
    arr = a.arrs[0]
    n = a.n
    j = z3.Int(c.fresh_name("j"))
    c.check(z3.ForAll([j], z3.Implies(z3.And(j >= 0, j < n - 1), z3.Select(arr, j) <= z3.Select(arr, j + 1))), "searchsorted-argument-is-sorted", kind="library-pre")
    vt = term_of(v)[0]
    k = z3.Int(c.fresh_name("ss"))
    if side == "right":
        below, above = (lambda x: x <= vt), (lambda x: x > vt)
    else:
        below, above = (lambda x: x < vt), (lambda x: x >= vt)
    c.assume(z3.And(k >= 0, k <= n), fact=True)
    c.assume(z3.ForAll([j], z3.Implies(z3.And(j >= 0, j < k), below(z3.Select(arr, j)))), fact=True)
    c.assume(z3.ForAll([j], z3.Implies(z3.And(j >= k, j < n), above(z3.Select(arr, j)))), fact=True)
    return SymInt(k)


def _m_diff(a, *args, **kw):
    import z3

    from .seq import SymSeq

    if not isinstance(a, SymSeq) or args or kw:
        raise Unsupported("numpy.diff on this argument")
    j = z3.Int("j!diff")
    arr = a.arrs[0]
    n = z3.If(a.n >= 1, a.n - 1, z3.IntVal(0))
    return SymSeq("array", a.elem, n, [z3.Lambda([j], z3.Select(arr, j + 1) - z3.Select(arr, j))])


class SymLin:
    """A 1-d array of symbolic length whose elements are an arithmetic progression:
    x[k] = first + k*step for k in [0, size).  What numpy.arange(n) * r + c produces; closed under
    scalar multiplication / addition.  Element access and .size only (no C code ever sees it)."""

    ndim = 1

    def __init__(self, size, first, step):
        self.size, self.first, self.step = size, first, step

    @property
    def shape(self):
        return (self.size,)

    def __len__(self):
        raise Unsupported("len() of a symbolic-length array (use .size)")

    def __getitem__(self, i):
        if isinstance(i, slice):
            raise Unsupported("slicing a SymLin (build the sub-progression explicitly)")
        v = self.first + i * self.step
        return _np.float64(v) if isinstance(v, (int, float)) else v  # array elements are numpy scalars (.item())

    def __mul__(self, k):
        return SymLin(self.size, self.first * k, self.step * k)

    __rmul__ = __mul__

    def __add__(self, c):
        return SymLin(self.size, self.first + c, self.step)

    __radd__ = __add__

    def __sub__(self, c):
        return SymLin(self.size, self.first - c, self.step)

    def __neg__(self):
        return SymLin(self.size, -self.first, -self.step)

    def astype(self, *a, **k):
        return self

    @property
    def values(self):
        return self


def _m_arange(*a, dtype=None, **k):
    """numpy.arange(n) = 0, 1, .., n-1 and numpy.arange(start, stop) with unit step (what the code uses);
    a float32 dtype is treated as exact (k + 1/2 is exactly representable below 2**23)"""
    if len(a) == 1:
        n = a[0]
        return SymLin(sym.ite(n > 0, n, 0) if isinstance(n, SymBase) else max(n, 0), 0, 1)
    if len(a) == 2:
        from .builtins_ import m_ceil

        start, stop = a
        n = m_ceil(stop - start)
        return SymLin(sym.ite(n > 0, n, 0) if isinstance(n, SymBase) else max(n, 0), start, 1)
    raise Unsupported("numpy.arange with a step on symbolic values")


def _m_polyval(p, x, *a, **k):
    """numpy.polyval(p, x) = p[0]*x**(n-1) + ... + p[n-1]  (Horner, exactly as documented) for a short
    python list of coefficients and a scalar x"""
    if not isinstance(p, (list, tuple)) or len(p) > 4:
        raise Unsupported("numpy.polyval: only a list of at most 4 coefficients is modelled")
    acc = 0
    for c in p:
        acc = acc * x + c
    return acc


_MODELS = {
    "polyval": _m_polyval,
    "arange": _m_arange,
    "floor": _m_floor,
    "ceil": _m_ceil,
    "abs": _m_abs,
    "absolute": _m_abs,
    "isfinite": _m_isfinite,
    "clip": _m_clip,
    "isclose": _m_isclose,
    "asarray": _m_asarray,
    "array": _m_asarray,
    "searchsorted": _m_searchsorted,
    "diff": _m_diff,
}


class NpModel(types.ModuleType):
    def __init__(self):
        super().__init__("numpy")
        self.__dict__["_cache"] = {}

    def __getattr__(self, name):
        if name.startswith("__"):
            raise AttributeError(name)
        cache = self.__dict__["_cache"]
        if name in cache:
            return cache[name]
        v = getattr(_np, name)
        if isinstance(v, type) or isinstance(v, types.ModuleType) or not callable(v):
            r = v
        else:
            r = _wrap(name, v, _MODELS.get(name))
        cache[name] = r
        return r


NPMODEL = NpModel()
SUBST = {id(_np): NPMODEL}
