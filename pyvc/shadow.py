"""
pyvc.shadow -- load the *real* repository source (current working tree of /repo) for symbolic
execution.

Every run re-reads the files under /repo/odc/geo (and the pure-Python `affine` package the
repository's arithmetic is built on), applies the mechanical AST passes below, compiles the result
and executes it as the module `odc.geo.<name>` of this process with a `__builtins__` table whose
*functions* isinstance/len/min/max/range/sum/hash are symbolic-aware.  Nothing is copied into
/verif and there is no hand-written look-alike of any repository function.

What the extraction changes (stated exactly; also printed in every evidence file):
  P1  call sites of the builtin type names  int( float( bytes( bytearray( tuple( list(  -- and
      those names passed as a positional *function argument* (``map(int, x)``, ``xy.map(int)``) --
      are redirected to __vc_int__ ... which behave identically on ordinary Python values and build
      terms on proxies (annotations, isinstance(...) class arguments and keyword arguments such as
      dtype=float are left alone);
  P2  a `for`/`while` statement that has a sidecar loop contract (invariant) is replaced by the
      standard cut: check invariant on entry; havoc the variables / heap cells the body assigns;
      assume invariant; run the body once from that arbitrary state; check the invariant again and
      end the path.  Loops without a contract are executed as they are (and therefore must have a
      concrete trip count);
  P3  after the module body ran, module globals that *are* (by identity) `math`, `numpy` or one of
      the functions floor/ceil/fmod/isfinite/log2/... are re-bound to the models in
      pyvc.builtins_ / pyvc.npmodel (assumed library contracts, listed in evidence).
Nothing else is touched: decorators, closures, generators, classes, properties, dataclasses,
exceptions, asserts run as CPython runs them.
"""
from __future__ import annotations

import ast
import hashlib
import importlib.abc
import importlib.machinery
import importlib.util
import os
import sys
import types
from typing import Dict, Optional

from . import builtins_

REPO = os.environ.get("PYVC_REPO", "/repo")

SHADOW_ROOTS: Dict[str, str] = {
    "odc": os.path.join(REPO, "odc"),
}

_AFFINE_DIR = None

LOOP_SPECS: Dict[str, object] = {}  # key "module:outer.qualname#ordinal" -> LoopSpec
SOURCE_OVERRIDE: Dict[str, str] = {}  # absolute path -> source text (mutation self-test)
LOADED_SOURCES: Dict[str, str] = {}  # module name -> source text actually compiled
LOADED_FILES: Dict[str, str] = {}  # module name -> path
INSTRUMENTED_LOOPS: Dict[str, dict] = {}
IDENTITY_FLAGS: Dict[str, list] = {}

SHADOW_BUILTINS = builtins_.make_builtins()


def _affine_dir():
    global _AFFINE_DIR
    if _AFFINE_DIR is None:
        for p in sys.path:
            c = os.path.join(p, "affine", "__init__.py")
            if os.path.exists(c):
                _AFFINE_DIR = os.path.dirname(c)
                break
    return _AFFINE_DIR


def _locate(fullname: str):
    """(path, is_package) of a shadow module or None."""
    parts = fullname.split(".")
    if parts[0] == "affine":
        d = _affine_dir()
        if d is None:
            return None
        if len(parts) == 1:
            return os.path.join(d, "__init__.py"), True
        return None
    if parts[0] != "odc":
        return None
    if len(parts) == 1:
        return None, True  # namespace package
    base = os.path.join(SHADOW_ROOTS["odc"], *parts[1:])
    if os.path.isdir(base):
        init = os.path.join(base, "__init__.py")
        return (init if os.path.exists(init) else None), True
    if os.path.exists(base + ".py"):
        return base + ".py", False
    return None


# ----------------------------------------------------------------------------------------------
# AST passes
# ----------------------------------------------------------------------------------------------

_NO_REDIRECT_FUNCS = {"isinstance", "issubclass", "cast", "TypeVar", "NewType", "Union", "Optional"}


class CallRedirect(ast.NodeTransformer):
    """P1"""

    def visit_Call(self, node: ast.Call):
        self.generic_visit(node)
        if isinstance(node.func, ast.Name) and node.func.id in builtins_.CALL_REDIRECT:
            node.func = ast.copy_location(ast.Name(id=f"__vc_{node.func.id}__", ctx=ast.Load()), node.func)
        fname = node.func.id if isinstance(node.func, ast.Name) else None
        if fname not in _NO_REDIRECT_FUNCS:
            for i, a in enumerate(node.args):
                if isinstance(a, ast.Name) and a.id in ("int", "float"):
                    node.args[i] = ast.copy_location(ast.Name(id=f"__vc_{a.id}__", ctx=ast.Load()), a)
            for kw in node.keywords:
                # attrs: field(converter=float)
                if kw.arg == "converter" and isinstance(kw.value, ast.Name) and kw.value.id in ("int", "float"):
                    kw.value = ast.copy_location(ast.Name(id=f"__vc_{kw.value.id}__", ctx=ast.Load()), kw.value)
        return node

    # leave annotations alone
    def visit_arg(self, node):
        return node

    def visit_AnnAssign(self, node):
        if node.value is not None:
            node.value = self.visit(node.value)
        return node

    def visit_FunctionDef(self, node):
        node.body = [self.visit(s) for s in node.body]
        node.decorator_list = [self.visit(d) for d in node.decorator_list]
        node.args.defaults = [self.visit(d) for d in node.args.defaults]
        node.args.kw_defaults = [self.visit(d) if d is not None else None for d in node.args.kw_defaults]
        return node

    visit_AsyncFunctionDef = visit_FunctionDef


class StarDisplay(ast.NodeTransformer):
    """P4: a list/tuple display with starred elements, `[a, *b, c]`, becomes
    `__vc_cat__("list", [a], b, [c])`: the same concatenation in the same order (CPython builds the display by
    iterating each starred operand once, left to right); on a symbolic-length operand it is sequence
    concatenation.  Displays without a star are left alone."""

    def _rewrite(self, node, kind):
        self.generic_visit(node)
        if not isinstance(node.ctx, ast.Load) or not any(isinstance(e, ast.Starred) for e in node.elts):
            return node
        parts, run = [], []
        for e in node.elts:
            if isinstance(e, ast.Starred):
                if run:
                    parts.append(ast.List(elts=run, ctx=ast.Load()))
                    run = []
                parts.append(ast.Call(func=ast.Name(id="__vc_star__", ctx=ast.Load()), args=[e.value], keywords=[]))
            else:
                run.append(e)
        if run:
            parts.append(ast.List(elts=run, ctx=ast.Load()))
        new = ast.Call(func=ast.Name(id="__vc_cat__", ctx=ast.Load()), args=[ast.Constant(kind)] + parts, keywords=[])
        return ast.copy_location(new, node)

    def visit_List(self, node):
        return self._rewrite(node, "list")

    def visit_Tuple(self, node):
        return self._rewrite(node, "tuple")

    # annotations / subscripts such as Tuple[int, *Ts] are not value displays
    def visit_arg(self, node):
        return node

    def visit_Subscript(self, node):
        node.value = self.visit(node.value)
        if not isinstance(node.slice, ast.Tuple):
            node.slice = self.visit(node.slice)
        else:
            node.slice.elts = [self.visit(e) if not isinstance(e, ast.Starred) else e for e in node.slice.elts]
        return node


_MUTATORS = {"append", "extend", "insert", "pop", "remove", "clear", "sort", "reverse", "update", "add", "discard", "setdefault", "popitem", "appendleft"}


def _mutated_names(stmts):
    """Local names whose OBJECT the statements may change in place: receivers of mutating container
    methods, and names that are subscripted / augmented on the store side (x[i] = .., x[i] += .., del x[i])."""
    out = []

    def add(n):
        if isinstance(n, ast.Name) and n.id not in out:
            out.append(n.id)

    for s_ in stmts:
        for n in ast.walk(s_):
            if isinstance(n, ast.Call) and isinstance(n.func, ast.Attribute) and n.func.attr in _MUTATORS:
                add(n.func.value)
            elif isinstance(n, ast.Subscript) and isinstance(n.ctx, (ast.Store, ast.Del)):
                add(n.value)
    return out


def _assigned_names(stmts):
    """Names bound by the statements (not descending into nested function/class bodies)."""
    out = []

    class V(ast.NodeVisitor):
        def visit_Name(self, n):
            if isinstance(n.ctx, (ast.Store, ast.Del)) and n.id not in out:
                out.append(n.id)

        def visit_FunctionDef(self, n):
            if n.name not in out:
                out.append(n.name)

        visit_AsyncFunctionDef = visit_FunctionDef

        def visit_ClassDef(self, n):
            if n.name not in out:
                out.append(n.name)

        def visit_Lambda(self, n):
            pass

        def visit_ListComp(self, n):
            # comprehension targets are local to the comprehension; walrus is not handled
            pass

        visit_SetComp = visit_DictComp = visit_GeneratorExp = visit_ListComp

    v = V()
    for s in stmts:
        v.visit(s)
    return out


class _ContinueRewriter(ast.NodeTransformer):
    """Replace `continue` of the instrumented loop by: [k += 1;] preserve() (which ends the path)."""

    def __init__(self, repl_factory):
        self.repl_factory = repl_factory

    def visit_Continue(self, node):
        return [ast.copy_location(s, node) for s in self.repl_factory()]

    def visit_For(self, node):
        return node  # inner loops own their continue

    visit_While = visit_AsyncFor = visit_For

    def visit_FunctionDef(self, node):
        return node

    visit_AsyncFunctionDef = visit_ClassDef = visit_Lambda = visit_FunctionDef


def _parse_stmts(src: str):
    return ast.parse(src).body


class LoopInstrumenter(ast.NodeTransformer):
    """P2"""

    def __init__(self, modname: str):
        self.modname = modname
        self.stack = []
        self.counters = {}
        self.done = {}

    def _outer(self):
        return ".".join(self.stack)

    def visit_ClassDef(self, node):
        self.stack.append(node.name)
        self.generic_visit(node)
        self.stack.pop()
        return node

    def visit_FunctionDef(self, node):
        self.stack.append(node.name)
        self.generic_visit(node)
        self.stack.pop()
        return node

    visit_AsyncFunctionDef = visit_FunctionDef

    def _key(self):
        # ordinal counts loops per *outermost* function, in source order
        outer = []
        for s in self.stack:
            outer.append(s)
        # outermost function = first element after any class names... we use the full path of the
        # first function on the stack
        return None

    def _loop_key(self, node):
        fq = self._function_root()
        n = self.counters.get(fq, 0)
        self.counters[fq] = n + 1
        return f"{self.modname}:{fq}#{n}"

    def _function_root(self):
        # path up to and including the first function name: classes are prefixes
        return ".".join(self.stack) if self.stack else "<module>"

    def visit_While(self, node: ast.While):
        key = self._loop_key(node)
        self.generic_visit(node)
        spec = LOOP_SPECS.get(key)
        if spec is None:
            return node
        names = [n for n in _assigned_names(node.body) if not n.startswith("__vc")]
        # objects changed in place by the body (list.append, x[i] = ..) and everything the contract lists
        mutated = [n for n in _mutated_names(node.body) + list(spec.havoc) if n not in names and not n.startswith("__vc")]
        self.done[key] = dict(kind="while", line=node.lineno, havoc=names + mutated)
        K = repr(key)
        pre = [f"__vc_loop__.enter({K}, locals())", "__vc_l = locals()"]
        for v in names:
            pre.append(f"if {v!r} in __vc_l: {v} = __vc_loop__.havoc({K}, {v!r}, __vc_l[{v!r}])")
        for v in mutated:
            pre.append(f"if {v!r} in __vc_l: {v} = __vc_loop__.havoc_mutated({K}, {v!r}, __vc_l[{v!r}])")
        pre.append(f"__vc_loop__.assume_inv({K}, locals())")
        pre_nodes = _parse_stmts("\n".join(pre))
        body = _ContinueRewriter(lambda: _parse_stmts(f"__vc_loop__.preserve({K}, locals())")).visit(
            ast.Module(body=node.body, type_ignores=[])
        ).body
        body = body + _parse_stmts(f"__vc_loop__.preserve({K}, locals())")
        new_while = ast.While(test=node.test, body=body, orelse=node.orelse)
        out = pre_nodes + [new_while]
        return [ast.fix_missing_locations(ast.copy_location(s, node)) for s in out]

    def visit_For(self, node: ast.For):
        key = self._loop_key(node)
        self.generic_visit(node)
        spec = LOOP_SPECS.get(key)
        if spec is None:
            return node
        names = [n for n in _assigned_names(node.body) + _assigned_names([ast.Expr(node.target)]) if not n.startswith("__vc")]
        tnames = []
        for n in ast.walk(node.target):
            if isinstance(n, ast.Name) and n.id not in names:
                tnames.append(n.id)
        mutated = [n for n in _mutated_names(node.body) + list(spec.havoc) if n not in names and not n.startswith("__vc")]
        self.done[key] = dict(kind="for", line=node.lineno, havoc=names + mutated)
        K = repr(key)
        uid = abs(hash(key)) % 100000
        it, kk = f"__vc_it_{uid}", f"__vc_k_{uid}"
        pre = [f"{kk} = 0", f"__vc_loop__.enter({K}, locals(), {it}, {kk})", "__vc_l = locals()"]
        for v in names:
            pre.append(f"if {v!r} in __vc_l: {v} = __vc_loop__.havoc({K}, {v!r}, __vc_l[{v!r}])")
        for v in mutated:
            pre.append(f"if {v!r} in __vc_l: {v} = __vc_loop__.havoc_mutated({K}, {v!r}, __vc_l[{v!r}])")
        pre.append(f"{kk} = __vc_loop__.havoc_index({K}, {it})")
        pre.append(f"__vc_loop__.assume_inv({K}, locals(), {it}, {kk})")
        begin = ast.Assign(
            targets=[ast.Name(id=it, ctx=ast.Store())],
            value=ast.Call(
                func=ast.Attribute(value=ast.Name(id="__vc_loop__", ctx=ast.Load()), attr="iter_begin", ctx=ast.Load()),
                args=[ast.Constant(key), node.iter],
                keywords=[],
            ),
        )
        pre_nodes = [begin] + _parse_stmts("\n".join(pre))
        step = f"{kk} = {kk} + 1\n__vc_loop__.preserve({K}, locals(), {it}, {kk})"
        body = _ContinueRewriter(lambda: _parse_stmts(step)).visit(ast.Module(body=node.body, type_ignores=[])).body
        fetch = ast.Assign(
            targets=[node.target],
            value=ast.Call(
                func=ast.Attribute(value=ast.Name(id="__vc_loop__", ctx=ast.Load()), attr="fetch", ctx=ast.Load()),
                args=[ast.Name(id=it, ctx=ast.Load()), ast.Name(id=kk, ctx=ast.Load())],
                keywords=[],
            ),
        )
        body = [fetch] + body + _parse_stmts(step)
        test = ast.Call(
            func=ast.Attribute(value=ast.Name(id="__vc_loop__", ctx=ast.Load()), attr="more", ctx=ast.Load()),
            args=[ast.Name(id=it, ctx=ast.Load()), ast.Name(id=kk, ctx=ast.Load())],
            keywords=[],
        )
        new_while = ast.While(test=test, body=body, orelse=node.orelse)
        out = pre_nodes + [new_while]
        return [ast.fix_missing_locations(ast.copy_location(s, node)) for s in out]


def identity_flags(tree: ast.AST):
    """Static scan: `is` / `is not` between two non-constant operands (cannot be intercepted)."""
    flags = []
    stack = []

    class V(ast.NodeVisitor):
        def visit_FunctionDef(self, n):
            stack.append(n.name)
            self.generic_visit(n)
            stack.pop()

        visit_AsyncFunctionDef = visit_ClassDef = visit_FunctionDef

        def visit_Compare(self, n):
            ops = [n.left] + n.comparators
            for i, op in enumerate(n.ops):
                if isinstance(op, (ast.Is, ast.IsNot)):
                    a, b = ops[i], ops[i + 1]
                    if not isinstance(a, ast.Constant) and not isinstance(b, ast.Constant):
                        flags.append((".".join(stack), n.lineno, ast.unparse(n)))
            self.generic_visit(n)

    V().visit(tree)
    return flags


def transform(source: str, modname: str, filename: str):
    tree = ast.parse(source, filename)
    IDENTITY_FLAGS[modname] = identity_flags(tree)
    tree = CallRedirect().visit(tree)
    tree = StarDisplay().visit(tree)
    li = LoopInstrumenter(modname)
    tree = li.visit(tree)
    INSTRUMENTED_LOOPS.update(li.done)
    ast.fix_missing_locations(tree)
    return tree


# ----------------------------------------------------------------------------------------------
# import machinery
# ----------------------------------------------------------------------------------------------


class ShadowLoader(importlib.abc.Loader):
    def __init__(self, fullname, path):
        self.fullname = fullname
        self.path = path

    def create_module(self, spec):
        return None

    def exec_module(self, module):
        from . import loops

        if self.path is None:
            return
        if self.path in SOURCE_OVERRIDE:
            source = SOURCE_OVERRIDE[self.path]
        else:
            with open(self.path, "r", encoding="utf-8") as f:
                source = f.read()
        LOADED_SOURCES[self.fullname] = source
        LOADED_FILES[self.fullname] = self.path
        tree = transform(source, self.fullname, self.path)
        code = compile(tree, self.path, "exec")
        module.__dict__["__builtins__"] = SHADOW_BUILTINS
        module.__dict__["__vc_loop__"] = loops.RUNTIME
        module.__dict__["__vc_shadow__"] = True
        exec(code, module.__dict__)
        substitute_globals(module)


def substitute_globals(module):
    """P3"""
    from . import npmodel

    table = dict(builtins_.SUBST)
    table.update(npmodel.SUBST)
    for k, v in list(module.__dict__.items()):
        r = table.get(id(v))
        if r is not None and not k.startswith("__"):
            module.__dict__[k] = r


class ShadowFinder(importlib.abc.MetaPathFinder):
    def find_spec(self, fullname, path=None, target=None):
        if not (fullname == "odc" or fullname.startswith("odc.") or fullname == "affine"):
            return None
        loc = _locate(fullname)
        if loc is None:
            return None
        fpath, is_pkg = loc
        loader = ShadowLoader(fullname, fpath)
        if fullname == "odc":
            spec = importlib.machinery.ModuleSpec(fullname, loader, is_package=True)
            spec.submodule_search_locations = [SHADOW_ROOTS["odc"]]
            return spec
        spec = importlib.util.spec_from_file_location(
            fullname,
            fpath,
            loader=loader,
            submodule_search_locations=[os.path.dirname(fpath)] if is_pkg else None,
        )
        return spec


_INSTALLED = False


def install():
    global _INSTALLED
    if _INSTALLED:
        return
    for m in list(sys.modules):
        if m == "odc" or m.startswith("odc.") or m == "affine":
            raise RuntimeError(f"{m} was imported before pyvc.shadow.install()")
    sys.meta_path.insert(0, ShadowFinder())
    _INSTALLED = True


def reset():
    """Forget all shadow modules (used between mutation self-test runs)."""
    for m in list(sys.modules):
        if m == "odc" or m.startswith("odc.") or m == "affine":
            del sys.modules[m]
    LOADED_SOURCES.clear()
    LOADED_FILES.clear()
    INSTRUMENTED_LOOPS.clear()


def load(modname: str):
    install()
    return importlib.import_module(modname)


def resolve(ref: str):
    """'odc.geo.roi:Tiles.__getitem__' -> (module, owner object, attribute name, function)."""
    modname, _, qual = ref.partition(":")
    mod = load(modname)
    owner = mod
    parts = qual.split(".")
    for p in parts[:-1]:
        owner = getattr(owner, p)
    raw = owner.__dict__[parts[-1]] if isinstance(owner, type) else getattr(owner, parts[-1])
    return mod, owner, parts[-1], raw


def function_source(ref: str):
    """Source text + sha256 + first line of the function a contract is attached to."""
    modname, _, qual = ref.partition(":")
    load(modname)
    src = LOADED_SOURCES[modname]
    tree = ast.parse(src)
    node = tree
    for p in qual.split("."):
        found = None
        for ch in ast.walk(node) if node is tree else ast.iter_child_nodes(node):
            if isinstance(ch, (ast.FunctionDef, ast.AsyncFunctionDef, ast.ClassDef)) and ch.name == p:
                if node is tree and ch not in tree.body:
                    continue
                found = ch
                break
        if found is None:
            # nested def inside function body (not direct child)
            for ch in ast.walk(node):
                if isinstance(ch, (ast.FunctionDef, ast.AsyncFunctionDef, ast.ClassDef)) and ch.name == p and ch is not node:
                    found = ch
                    break
        if found is None:
            raise KeyError(ref)
        node = found
    seg = ast.get_source_segment(src, node) or ""
    return dict(
        file=LOADED_FILES[modname],
        line=node.lineno,
        end_line=node.end_lineno,
        sha256=hashlib.sha256(seg.encode()).hexdigest()[:16],
        lines=(node.end_lineno - node.lineno + 1),
    )
