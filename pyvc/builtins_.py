"""
pyvc.builtins_ -- symbolic-aware replacements for the builtins and for `math`, injected into
the shadow-loaded repository modules.  On concrete values every function defers to the original.
"""
from __future__ import annotations

import builtins as _b
import math as _math
import numbers
import types

import z3

from . import sym
from .sym import (
    SymBase,
    SymBool,
    SymInt,
    SymNum,
    SymReal,
    Unsupported,
    is_sym,
    is_symnum,
    ite,
    sym_float,
    sym_int_trunc,
)

_real_isinstance = _b.isinstance
_real_len = _b.len


def _isinstance(x, t):
    if _real_isinstance(x, SymBase):
        ts = t if _real_isinstance(t, tuple) else (t,)
        flat = []
        for e in ts:
            if _real_isinstance(e, tuple):
                flat.extend(e)
            else:
                flat.append(e)
        emul = x.__vc_types__
        for want in flat:
            if want is object:
                return True
            if _real_isinstance(want, type) and issubclass(want, SymBase):
                if _real_isinstance(x, want):
                    return True
                continue
            for e in emul:
                try:
                    if issubclass(e, want):
                        return True
                except TypeError:
                    pass
        return False
    return _real_isinstance(x, t)


def _len(x):
    if _real_isinstance(x, SymBase) or (hasattr(type(x), "__symlen__") and not _real_isinstance(x, (list, tuple, dict, str, bytes))):
        return x.__symlen__()
    return _real_len(x)


def _int(x=0, *a):
    if _real_isinstance(x, SymBase):
        if a:
            raise Unsupported("int(x, base) on symbolic")
        return sym_int_trunc(x)
    return _b.int(x, *a)


def _float(x=0.0):
    if _real_isinstance(x, SymBase):
        return sym_float(x)
    return _b.float(x)


def _minmax(name, args, key=None, default=None):
    native = getattr(_b, name)
    if key is not None:
        return native(*args, key=key) if default is None else native(*args, key=key, default=default)
    if _real_len(args) == 1:
        seq = args[0]
        if _real_isinstance(seq, SymBase):
            raise Unsupported(f"{name}() over a symbolic-length sequence")
        items = list(seq)
        if not items:
            if default is not None:
                return default
            return native(items)
    else:
        items = list(args)
    if not any(_real_isinstance(i, SymBase) for i in items):
        return native(items)
    acc = items[0]
    for it in items[1:]:
        if name == "min":
            acc = ite(it < acc, it, acc)
        else:
            acc = ite(it > acc, it, acc)
    return acc


def _min(*args, key=None, default=None):
    return _minmax("min", args, key, default)


def _max(*args, key=None, default=None):
    return _minmax("max", args, key, default)


class SymRange:
    """range(start, stop) with symbolic bounds: can be returned and inspected, not iterated"""

    def __init__(self, start, stop):
        self.start, self.stop, self.step = start, stop, 1

    def __symlen__(self):
        return _max(self.stop - self.start, 0)

    def __iter__(self):
        raise Unsupported("iteration over range() with a symbolic bound (needs a loop contract)")

    def __contains__(self, k):
        return bool(sym.SymBool(sym.to_bool_term((self.start <= k)) if False else sym.to_bool_term(self.start <= k)) & (k < self.stop))


def _range(*args):
    if any(_real_isinstance(a, SymBase) for a in args):
        if _real_len(args) == 1:
            return SymRange(0, args[0])
        if _real_len(args) == 2:
            return SymRange(args[0], args[1])
        raise Unsupported("range() with a symbolic step")
    return _b.range(*args)


def _bytearray(*args):
    from .seq import SymBytes

    if args and _real_isinstance(args[0], SymBytes):
        return args[0].copy(mutable=True)
    if args and _real_isinstance(args[0], SymBase):
        raise Unsupported("bytearray(symbolic)")
    if sym.have_ctx() and (not args or (_real_isinstance(args[0], (_b.bytes, _b.bytearray)) and _real_len(args[0]) == 0)):
        return SymBytes.empty(mutable=True)
    return _b.bytearray(*args)


def _bytes(*args):
    from .seq import SymBytes

    if args and _real_isinstance(args[0], SymBytes):
        return args[0].copy(mutable=False)
    if args and _real_isinstance(args[0], SymBase):
        raise Unsupported("bytes(symbolic)")
    return _b.bytes(*args)


def _tuple(*args):
    from .seq import SymSeq

    if args and _real_isinstance(args[0], SymSeq):
        return args[0].as_kind("tuple")
    return _b.tuple(*args)


def _list(*args):
    from .seq import SymSeq

    if args and _real_isinstance(args[0], SymSeq):
        return args[0].as_kind("list", copy=True)
    return _b.list(*args)


def _sum(it, start=0):
    from .seq import SymSeq

    if _real_isinstance(it, SymSeq):
        return it.sum(start)
    return _b.sum(it, start)


_HASH_FN = {}


def _hash_leaves(x, out):
    """flatten a value into leaves for the uninterpreted hash (assumed: Python's hash of a tuple is
    a function of the element values, and numerically equal ints/floats hash alike)"""
    if _real_isinstance(x, SymBase):
        if not is_symnum(x):
            raise Unsupported("hash() of a symbolic sequence")
        t, k = sym.term_of(x)
        if k == "bool":
            t = z3.If(t, z3.RealVal(1), z3.RealVal(0))
        out.append(sym.as_real(t, k) if k != "bool" else t)
        return True
    if _real_isinstance(x, (tuple, list)):
        out.append(z3.RealVal(_real_len(x)))
        anysym = False
        for e in x:
            anysym = _hash_leaves(e, out) or anysym
        return anysym
    if type(x).__module__ == "affine" and type(x).__name__ == "Affine":
        return _hash_leaves(tuple(x)[:6], out)
    if _real_isinstance(x, bool) or _real_isinstance(x, numbers.Real):
        out.append(sym.real_val(x))
        return False
    out.append(z3.RealVal(_b.hash(x) % (2**61 - 1)))
    return False


def _hash(x):
    leaves = []
    if not _hash_leaves(x, leaves):
        return _b.hash(x)
    n = _real_len(leaves)
    f = _HASH_FN.get(n)
    if f is None:
        f = z3.Function(f"hash{n}", *([z3.RealSort()] * n), z3.IntSort())
        _HASH_FN[n] = f
    return SymInt(f(*leaves))


def _str(*a, **k):
    if a and _real_isinstance(a[0], SymBase):
        return "<symbolic>"
    return _b.str(*a, **k)


def _bool(x=False):
    return _b.bool(x)


class SymZip:
    """zip(...) of sequences of symbolic length: element k is the tuple of the k-th elements; only usable
    as the iterable of a for-loop that has a loop contract (or with an explicit index)"""

    def __init__(self, seqs):
        self.seqs = seqs

    def __symlen__(self):
        n = None
        for s_ in self.seqs:
            m = s_.__symlen__() if hasattr(s_, "__symlen__") else _b.len(s_)
            n = m if n is None else _min(n, m)
        return n

    def get(self, k):
        return _b.tuple((s_.get(k) if hasattr(s_, "get") and hasattr(s_, "__symlen__") else s_[k]) for s_ in self.seqs)

    def __iter__(self):
        raise Unsupported("iterating a zip of symbolic-length sequences outside a loop with a contract")


def _zip(*a, **k):
    if _b.any(hasattr(x, "__symlen__") for x in a):
        return SymZip(_b.list(a))
    return _b.zip(*a, **k)


class _Star:
    __slots__ = ("v",)

    def __init__(self, v):
        self.v = v


def _star(v):
    return _Star(v)


def _cat(kind, *parts):
    """`[a, *b, c]` (pass P4): concatenation of the literal runs and the starred operands, in order"""
    from .seq import SymSeq

    vals = [(p.v if _real_isinstance(p, _Star) else p) for p in parts]
    if not _b.any(_real_isinstance(v, SymSeq) for v in vals):
        out = []
        for v in vals:
            out.extend(v)  # iterates each operand once, left to right, like the display itself
        return out if kind == "list" else _b.tuple(out)
    acc = None
    for v in vals:
        if acc is None:
            acc = v if _real_isinstance(v, SymSeq) else None
            if acc is None:
                first = _b.list(v)
                acc = first
            continue
        if _real_isinstance(acc, SymSeq):
            acc = acc + (v if _real_isinstance(v, SymSeq) else _b.list(v))
        elif _real_isinstance(v, SymSeq):
            acc = v.__radd__(acc)
        else:
            acc = acc + _b.list(v)
    return acc.as_kind(kind, copy=True)


def make_builtins():
    """builtins dict for shadow modules: only *functions* are replaced; the type names int/float/
    tuple/list/bytes/bytearray stay the real types (so isinstance/annotations/dtype= keep working)
    and their *call sites* are redirected by the AST pass to the __vc_*__ callables below."""
    d = dict(vars(_b))
    d.update(
        isinstance=_isinstance,
        len=_len,
        min=_min,
        max=_max,
        range=_range,
        sum=_sum,
        hash=_hash,
        zip=_zip,
        __vc_int__=_int,
        __vc_float__=_float,
        __vc_bytearray__=_bytearray,
        __vc_bytes__=_bytes,
        __vc_tuple__=_tuple,
        __vc_list__=_list,
        __vc_cat__=_cat,
        __vc_star__=_star,
    )
    return d


CALL_REDIRECT = {"int", "float", "bytearray", "bytes", "tuple", "list"}


# ----------------------------------------------------------------------------------------------
# math
# ----------------------------------------------------------------------------------------------


class MathModel(types.ModuleType):
    """`math` with symbolic-aware functions; unknown functions refuse proxies."""

    def __init__(self):
        super().__init__("math")
        for k in dir(_math):
            if k.startswith("__"):
                continue
            v = getattr(_math, k)
            if callable(v):
                setattr(self, k, _guard_native(v, f"math.{k}"))
            else:
                setattr(self, k, v)
        for nm, fn in dict(floor=m_floor, ceil=m_ceil, trunc=m_trunc, fmod=m_fmod, isfinite=m_isfinite, isnan=m_isnan, isinf=m_isinf, fabs=m_fabs, log2=m_log2, sqrt=m_sqrt, hypot=m_hypot, radians=m_radians, degrees=m_degrees, cos=m_cos, sin=m_sin).items():
            setattr(self, nm, _tracked(fn, f"math.{nm}"))


def _tracked(fn, name):
    """record that a library MODEL (an assumed contract) answered for a symbolic argument"""

    def g(*a, **k):
        if any(_real_isinstance(x, SymBase) for x in a):
            from . import npmodel

            npmodel.MODELS_USED.add(name)
        return fn(*a, **k)

    g.__name__ = getattr(fn, "__name__", name)
    return g


def _guard_native(fn, name):
    def g(*a, **k):
        for x in a:
            if _real_isinstance(x, SymBase):
                raise Unsupported(f"{name} on a symbolic value (no model)")
        return fn(*a, **k)

    g.__name__ = getattr(fn, "__name__", name)
    g.__vc_native__ = fn
    return g


def m_floor(x):
    if _real_isinstance(x, SymBase):
        return x.__floor__()
    return _math.floor(x)


def m_ceil(x):
    if _real_isinstance(x, SymBase):
        return x.__ceil__()
    return _math.ceil(x)


def m_trunc(x):
    if _real_isinstance(x, SymBase):
        return x.__trunc__()
    return _math.trunc(x)


def m_fmod(x, y):
    if _real_isinstance(x, SymBase) or _real_isinstance(y, SymBase):
        # C fmod: x - trunc(x/y)*y, sign of x.  Only the constant-divisor form is modelled.
        if _real_isinstance(y, SymBase) or y <= 0:
            raise Unsupported("fmod with symbolic or non-positive divisor")
        xr = sym_float(x)
        q = (xr / y).__trunc__()
        return xr - q * y
    return _math.fmod(x, y)


def m_isfinite(x):
    if _real_isinstance(x, SymBase):
        return True  # reals are finite; inf/nan inputs are separate concrete cases
    return _math.isfinite(x)


def m_isnan(x):
    if _real_isinstance(x, SymBase):
        return False
    return _math.isnan(x)


def m_isinf(x):
    if _real_isinstance(x, SymBase):
        return False
    return _math.isinf(x)


def m_fabs(x):
    if _real_isinstance(x, SymBase):
        return abs(sym_float(x))
    return _math.fabs(x)


_LOG2 = None


def m_log2(x):
    """log2 as an uninterpreted real function with the monotonic/pow2 axioms instantiated on use."""
    if _real_isinstance(x, SymBase):
        from . import spec

        c = sym.ctx()
        global _LOG2
        if _LOG2 is None:
            _LOG2 = z3.Function("log2", z3.RealSort(), z3.RealSort())
        xr = sym_float(x)
        if SymBool(xr.t <= 0).__bool__():
            raise ValueError("math domain error")
        r = _LOG2(xr.t)
        # defining property used by the code base: for the integer n = ceil(log2 x):
        #   2**(n-1) < x <= 2**n     (n >= 0 when x >= 1)
        n = -z3.ToInt(-r)
        p = spec._pow2_fn()
        spec.pow2_term(z3.IntVal(0))
        c.assume(z3.Implies(xr.t >= 1, z3.And(n >= 0, xr.t <= z3.ToReal(p(n)), z3.Implies(n >= 1, z3.ToReal(p(n - 1)) < xr.t))), fact=True)
        c.assume(z3.Implies(xr.t >= 1, r >= 0), fact=True)
        c.notes.append("log2 axiom: 2**(ceil(log2 x)-1) < x <= 2**ceil(log2 x) for x >= 1")
        return SymReal(r)
    return _math.log2(x)


def m_sqrt(x):
    if _real_isinstance(x, SymBase):
        c = sym.ctx()
        xr = sym_float(x)
        if SymBool(xr.t < 0).__bool__():
            raise ValueError("math domain error")
        r = z3.Real(c.fresh_name("sqrt"))
        c.assume(z3.And(r >= 0, r * r == xr.t), fact=True)
        return SymReal(r)
    return _math.sqrt(x)


def m_hypot(*xs):
    """math.hypot = the non-negative root of the sum of squares"""
    if _b.any(_real_isinstance(x, SymBase) for x in xs):
        acc = 0
        for x in xs:
            acc = acc + x * x
        c = sym.ctx()
        r = z3.Real(c.fresh_name("hypot"))
        c.assume(z3.And(r >= 0, r * r == sym_float(acc).t), fact=True)
        return SymReal(r)
    return _math.hypot(*xs)


def m_radians(x):
    if _real_isinstance(x, SymBase):
        return sym_float(x) * (_math.pi / 180.0)
    return _math.radians(x)


def m_degrees(x):
    if _real_isinstance(x, SymBase):
        raise Unsupported("math.degrees on symbolic")
    return _math.degrees(x)


_TRIG = {}


def _trig(x):
    """cos/sin of a symbolic angle: uninterpreted functions of the angle with cos^2 + sin^2 == 1
    (assumed library contract; the only property of the trigonometric functions the proofs use)"""
    if not _TRIG:
        _TRIG["cos"] = z3.Function("cos", z3.RealSort(), z3.RealSort())
        _TRIG["sin"] = z3.Function("sin", z3.RealSort(), z3.RealSort())
    c = sym.ctx()
    t = sym_float(x).t
    ct, st = _TRIG["cos"](t), _TRIG["sin"](t)
    key = ("trig", t.get_id())
    if key not in c.ghost:
        c.ghost[key] = True
        c._keepalive.append(t)
        c.assume(ct * ct + st * st == 1, fact=True)
        c.notes.append("trig axiom: cos(x)^2 + sin(x)^2 == 1")
    return SymReal(ct), SymReal(st)


def m_cos(x):
    if _real_isinstance(x, SymBase):
        return _trig(x)[0]
    return _math.cos(x)


def m_sin(x):
    if _real_isinstance(x, SymBase):
        return _trig(x)[1]
    return _math.sin(x)


MATH = MathModel()

# substitution table by identity: native object -> model, applied to shadow module globals
SUBST = {
    id(_math): MATH,
    id(_math.floor): m_floor,
    id(_math.ceil): m_ceil,
    id(_math.trunc): m_trunc,
    id(_math.fmod): m_fmod,
    id(_math.isfinite): m_isfinite,
    id(_math.isnan): m_isnan,
    id(_math.isinf): m_isinf,
    id(_math.fabs): m_fabs,
    id(_math.log2): m_log2,
    id(_math.sqrt): m_sqrt,
    id(_math.hypot): m_hypot,
    id(_math.radians): m_radians,
    id(_math.degrees): m_degrees,
    id(_math.cos): m_cos,
    id(_math.sin): m_sin,
}
_KEEP = [_math.floor, _math.ceil, _math.trunc, _math.fmod, _math.isfinite, _math.isnan, _math.isinf, _math.fabs, _math.log2, _math.sqrt, _math.hypot, _math.radians, _math.degrees, _math.cos, _math.sin]
