"""
pyvc.mutate -- mutation self-test of the verifier.

Small semantic edits are applied IN MEMORY to the source text handed to the shadow loader (no file
under /repo or /tmp is written) and the property's contracts are re-verified: a mutant is *killed*
when some obligation is refuted or becomes undecided... no: only when it is REFUTED (sat).  Surviving
mutants are listed: each is either an equivalent mutant or a contract too weak to notice.

  python -m pyvc.mutate <PROP> --list                      enumerate mutants of the functions under contract
  python -m pyvc.mutate <PROP> --index N                   run mutant N (prints KILLED/SURVIVED/UNDECIDED)
  python -m pyvc.mutate <PROP> --sample K [--seed S]       run K mutants (parallel), summary JSON on stdout
"""
from __future__ import annotations

import argparse
import ast
import json
import os
import random
import subprocess
import sys
import time

HERE = os.path.dirname(os.path.dirname(os.path.abspath(__file__)))
sys.path.insert(0, HERE)

CMP_SWAP = {ast.Lt: ast.LtE, ast.LtE: ast.Lt, ast.Gt: ast.GtE, ast.GtE: ast.Gt, ast.Eq: ast.NotEq, ast.NotEq: ast.Eq}
NAME_SWAP = {"floor": "ceil", "ceil": "floor", "min": "max", "max": "min"}


def function_ranges(prop):
    """{file: [(lineno, end_lineno, ref)]} of the functions under contract for a property."""
    from pyvc import shadow
    from pyvc.contract import CONTRACTS

    out = {}
    for ref, C in CONTRACTS.items():
        if prop in C.props and C.kind == "function":
            info = shadow.function_source(ref)
            out.setdefault(info["file"], []).append((info["line"], info["end_line"], ref))
    return out


def enumerate_mutants(prop):
    """List of (file, lineno, col, description, new_source)."""
    from pyvc import shadow

    ranges = function_ranges(prop)
    mutants = []
    for path, rs in sorted(ranges.items()):
        with open(path) as f:
            src = f.read()
        tree = ast.parse(src)
        lines = src.splitlines(keepends=True)

        def inside(node):
            ln = getattr(node, "lineno", None)
            if ln is None:
                return None
            for a, b, ref in rs:
                if a <= ln <= b:
                    return ref
            return None

        def emit(node, desc, new_node_src, ref):
            seg = ast.get_source_segment(src, node)
            if seg is None or node.lineno != node.end_lineno:
                return
            l = lines[node.lineno - 1]
            new_line = l[: node.col_offset] + new_node_src + l[node.end_col_offset :]
            # col offsets are in utf8 bytes; the repo is ascii in code
            new_src = "".join(lines[: node.lineno - 1] + [new_line] + lines[node.lineno :])
            try:
                ast.parse(new_src)
            except SyntaxError:
                return
            mutants.append(dict(file=path, line=node.lineno, ref=ref, desc=f"{desc}: `{seg}` -> `{new_node_src}`", source=new_src))

        for node in ast.walk(tree):
            ref = inside(node)
            if ref is None:
                continue
            if isinstance(node, ast.Compare) and len(node.ops) == 1 and type(node.ops[0]) in CMP_SWAP:
                new = ast.Compare(left=node.left, ops=[CMP_SWAP[type(node.ops[0])]()], comparators=node.comparators)
                emit(node, "comparison", ast.unparse(new), ref)
            elif isinstance(node, ast.Call) and isinstance(node.func, ast.Name) and node.func.id in NAME_SWAP:
                new = ast.Call(func=ast.Name(id=NAME_SWAP[node.func.id], ctx=ast.Load()), args=node.args, keywords=node.keywords)
                emit(node, "function", ast.unparse(new), ref)
            elif isinstance(node, ast.BinOp) and isinstance(node.op, (ast.Add, ast.Sub)):
                new = ast.BinOp(left=node.left, op=ast.Sub() if isinstance(node.op, ast.Add) else ast.Add(), right=node.right)
                emit(node, "arith", ast.unparse(new), ref)
            elif isinstance(node, ast.Constant) and isinstance(node.value, int) and not isinstance(node.value, bool) and 0 <= node.value <= 2:
                emit(node, "constant", repr(node.value + 1), ref)
            elif isinstance(node, ast.BoolOp) and len(node.values) == 2:
                new = ast.BoolOp(op=ast.Or() if isinstance(node.op, ast.And) else ast.And(), values=node.values)
                emit(node, "boolop", ast.unparse(new), ref)
            elif isinstance(node, ast.UnaryOp) and isinstance(node.op, ast.Not):
                emit(node, "drop-not", ast.unparse(node.operand), ref)
    return mutants


def run_mutant(prop, mutant, jobs=4):
    """Verify the property's contracts attached to the mutated function (+ closure); in-process."""
    from pyvc import main as M
    from pyvc import shadow

    shadow.SOURCE_OVERRIDE[mutant["file"]] = mutant["source"]
    M._load_all()
    roots, seen, results, wall = M.verify_property(prop, "quick", jobs, only=[mutant["ref"]])
    obl = M.aggregate(results)
    failed = sorted(k for k, o in obl.items() if o["failed"])
    unknown = sorted(k for k, o in obl.items() if o["unknown"])
    undecided = [u for r in results for u in r["undecided"]]
    crashed = [r["crash"] for r in results if r.get("crash")]
    if failed:
        verdict = "KILLED"
    elif unknown or undecided or crashed:
        verdict = "UNDECIDED"
    else:
        verdict = "SURVIVED"
    return dict(verdict=verdict, failed=failed[:5], unknown=unknown[:3], undecided=[u["reason"] for u in undecided[:3]], crashed=crashed[:2], wall=round(wall, 1))


def main(argv=None):
    ap = argparse.ArgumentParser()
    ap.add_argument("prop")
    ap.add_argument("--list", action="store_true")
    ap.add_argument("--index", type=int)
    ap.add_argument("--sample", type=int)
    ap.add_argument("--seed", type=int, default=int(os.environ.get("VERIF_SEED", "0") or 0))
    ap.add_argument("--jobs", type=int, default=4)
    args = ap.parse_args(argv)
    from pyvc import main as M

    if args.index is not None:
        M._load_all()
        ms = enumerate_mutants(args.prop)
        m = ms[args.index]
        # fresh interpreter state is needed: we are in a fresh process already, but the shadow
        # modules were loaded to enumerate; reload them with the override
        from pyvc import shadow

        shadow.reset()
        # contracts registry persists; modules get re-imported lazily
        res = run_mutant(args.prop, m, jobs=args.jobs)
        print(json.dumps(dict(index=args.index, line=m["line"], ref=m["ref"], desc=m["desc"], **res)))
        return 0
    M._load_all()
    ms = enumerate_mutants(args.prop)
    if args.list:
        for i, m in enumerate(ms):
            print(i, os.path.basename(m["file"]), m["line"], m["ref"], m["desc"])
        return 0
    if args.sample:
        rnd = random.Random(args.seed)
        idx = list(range(len(ms)))
        rnd.shuffle(idx)
        idx = sorted(idx[: args.sample])
        procs = []
        results = []
        env = dict(os.environ, PYTHONPATH=HERE)
        maxpar = max(1, 16 // args.jobs)
        pending = list(idx)
        while pending or procs:
            while pending and len(procs) < maxpar:
                i = pending.pop(0)
                p = subprocess.Popen([sys.executable, "-W", "ignore", "-m", "pyvc.mutate", args.prop, "--index", str(i), "--jobs", str(args.jobs)], stdout=subprocess.PIPE, stderr=subprocess.DEVNULL, text=True, cwd=HERE, env=env)
                procs.append((i, p))
            for i, p in list(procs):
                if p.poll() is not None:
                    out = p.stdout.read().strip().splitlines()
                    try:
                        results.append(json.loads(out[-1]))
                    except Exception:  # pylint: disable=broad-except
                        results.append(dict(index=i, verdict="CRASH", desc=ms[i]["desc"]))
                    procs.remove((i, p))
            time.sleep(0.2)
        results.sort(key=lambda r: r["index"])
        summary = dict(total=len(ms), sampled=len(results), killed=sum(r["verdict"] == "KILLED" for r in results), survived=[r for r in results if r["verdict"] == "SURVIVED"], undecided=[r for r in results if r["verdict"] not in ("KILLED", "SURVIVED")])
        print(json.dumps(summary, indent=1))
        return 0
    return 0


if __name__ == "__main__":
    sys.exit(main())
