"""
pyvc.spec -- the specification library used inside contract clauses.

Every function here is *dual use*: on proxies it builds z3 terms (no forking, usable below
quantifiers); on ordinary Python values it computes the answer natively, so the very same contract
lambda is evaluated on concrete inputs during replay and run-time monitoring.
"""
from __future__ import annotations

import math
import numbers
from fractions import Fraction

try:
    import z3

    from . import sym
    from .sym import SymBase, SymBool, SymInt, SymReal, is_sym, to_bool_term, wrap

    HAVE_Z3 = True
except ImportError:  # replay can run without z3
    HAVE_Z3 = False
    z3 = None
    sym = None

    class SymBase:  # type: ignore
        pass

    def is_sym(x):
        return False


def _any_sym(*xs):
    return any(isinstance(x, SymBase) for x in xs)


# ---- propositional --------------------------------------------------------------------------


def And(*xs):
    if len(xs) == 1 and isinstance(xs[0], (list, tuple)):
        xs = tuple(xs[0])
    if _any_sym(*xs):
        return SymBool(z3.And(*[to_bool_term(x) for x in xs]))
    return all(bool(x) for x in xs)


def Or(*xs):
    if len(xs) == 1 and isinstance(xs[0], (list, tuple)):
        xs = tuple(xs[0])
    if _any_sym(*xs):
        return SymBool(z3.Or(*[to_bool_term(x) for x in xs]))
    return any(bool(x) for x in xs)


def Not(x):
    if _any_sym(x):
        return SymBool(z3.Not(to_bool_term(x)))
    return not x


def Implies(a, b):
    if _any_sym(a, b):
        return SymBool(z3.Implies(to_bool_term(a), to_bool_term(b)))
    return (not a) or bool(b)


def Iff(a, b):
    if _any_sym(a, b):
        return SymBool(to_bool_term(a) == to_bool_term(b))
    return bool(a) == bool(b)


def Ite(c, a, b):
    if isinstance(c, SymBase):
        return sym.ite(c if isinstance(c, SymBool) else c.__symbool__(), a, b)
    return a if c else b


def Min(a, b):
    return Ite(a <= b, a, b)


def Max(a, b):
    return Ite(a >= b, a, b)


def Abs(a):
    if isinstance(a, SymBase) and not in_quant():
        return abs(a)
    return Ite(a >= 0, a, -a)


def in_quant():
    return HAVE_Z3 and sym.in_quantifier()


# ---- quantifiers ----------------------------------------------------------------------------

NATIVE_FORALL_WINDOW = 64  # native evaluation of an unbounded quantifier samples this window


def _quant(kind, lo, hi, body, sort="int"):
    """forall/exists k in [lo, hi): body(k).  lo/hi may be None (unbounded)."""
    symbolic = HAVE_Z3 and sym.have_ctx()
    if symbolic and lo is not None and hi is not None and not _any_sym(lo, hi):
        # concrete range: expand (an empty range is trivially true / false)
        if int(hi) - int(lo) <= 16:
            vals = [body(k) for k in range(int(lo), int(hi))]
            return And(*vals) if kind == "forall" else Or(*vals) if vals else (kind == "forall")
    if symbolic and lo is not None and hi is not None:
        p_ = sym._pair(hi, lo)
        d_ = z3.simplify(p_[0] - p_[1])
        if z3.is_int_value(d_) and d_.as_long() <= 0:
            return kind == "forall"
    if symbolic:
        c = sym.ctx()
        name = c.fresh_name("k")
        k = z3.Int(name) if sort == "int" else z3.Real(name)
        kv = SymInt(k) if sort == "int" else SymReal(k)
        c.quant_depth += 1
        try:
            b = body(kv)
        finally:
            c.quant_depth -= 1
        bt = to_bool_term(b)
        rng = []
        if lo is not None:
            rng.append(sym._pair(lo, kv)[0] <= sym._pair(lo, kv)[1])
        if hi is not None:
            rng.append(sym._pair(kv, hi)[0] < sym._pair(kv, hi)[1])
        if kind == "forall":
            return SymBool(z3.ForAll([k], z3.Implies(z3.And(*rng), bt) if rng else bt))
        return SymBool(z3.Exists([k], z3.And(*rng, bt)))
    # native
    if sort != "int":
        raise NotImplementedError("native evaluation of a real-sorted quantifier")
    if lo is None and hi is None:
        lo, hi = -NATIVE_FORALL_WINDOW, NATIVE_FORALL_WINDOW
    elif lo is None:
        lo = hi - NATIVE_FORALL_WINDOW
    elif hi is None:
        hi = lo + NATIVE_FORALL_WINDOW
    lo, hi = int(lo), int(hi)
    if hi - lo > 100_000:  # keep replay cheap: sample both ends
        rng = list(range(lo, lo + 2000)) + list(range(hi - 2000, hi))
    else:
        rng = range(lo, hi)
    if kind == "forall":
        return all(bool(body(k)) for k in rng)
    return any(bool(body(k)) for k in rng)


def forall(lo, hi, body):
    return _quant("forall", lo, hi, body)


def exists(lo, hi, body):
    return _quant("exists", lo, hi, body)


def forall_ind(lo, hi, body):
    """forall k in [lo, hi): body(k), to be PROVED BY INDUCTION on k.

    Where the formula is assumed (preconditions, callee postconditions in stubs) it is the plain
    universal statement.  Where it is claimed, the induction scheme is generated instead:
        body(lo)   and   forall k in [lo, hi-1): body(k) => body(k+1)
    which entails the universal statement by induction over the integers (the one meta-level step;
    the solvers do not do induction by themselves)."""
    if HAVE_Z3 and sym.have_ctx():
        c = sym.ctx()
        if c.ghost.get("mode", "claim") == "claim":
            base = Implies(lo < hi, body(lo))
            step = forall(lo, hi - 1, lambda k: Implies(body(k), body(k + 1)))
            return And(base, step)
    return forall(lo, hi, body)


def forall_real(body, samples=()):
    """forall real x: body(x).  Natively only the given samples are evaluated."""
    if HAVE_Z3 and sym.have_ctx():
        return _quant("forall", None, None, body, sort="real")
    return all(bool(body(x)) for x in samples)


# ---- arithmetic spec functions ----------------------------------------------------------------


def floor(x):
    if isinstance(x, SymBase):
        return x.__floor__()
    return math.floor(x)


def ceil(x):
    if isinstance(x, SymBase):
        return x.__ceil__()
    return math.ceil(x)


def to_real(x):
    if isinstance(x, SymBase):
        return sym.sym_float(x)
    return x


def div(a, b):
    """a / b for specs: no ZeroDivisionError fork (guard with b != 0 in the formula)."""
    if _any_sym(a, b):
        p = sym._pair(a, b)
        x, y = sym.as_real(p[0], p[2]), sym.as_real(p[1], p[2])
        return SymReal(sym.real_div(x, y))
    if b == 0:
        return float("nan")
    return a / b


def is_int_valued(x):
    """x is a mathematical integer."""
    if isinstance(x, SymReal):
        return SymBool(z3.ToReal(sym._floor_real(x.t)) == x.t)
    if isinstance(x, (SymInt,)):
        return True
    if isinstance(x, numbers.Integral):
        return True
    return float(x).is_integer()


def py_floordiv(a, b):
    """floor(a/b) for ints, b > 0 -- usable below quantifiers (no fork)."""
    if _any_sym(a, b):
        if isinstance(b, int) and b > 0:
            p = sym._pair(a, b)
            return SymInt(p[0] / p[1])
        raise sym.Unsupported("py_floordiv with symbolic divisor in spec; state it with q*b <= a < (q+1)*b")
    return a // b


_POW2 = None


def _pow2_fn():
    global _POW2
    if _POW2 is None:
        _POW2 = z3.Function("pow2", z3.IntSort(), z3.IntSort())
    return _POW2


def pow2_term(n):
    """Uninterpreted 2**n for n >= 0 with its defining axioms added to the path as facts."""
    c = sym.ctx()
    f = _pow2_fn()
    if not c.ghost.get("pow2_axioms"):
        c.ghost["pow2_axioms"] = True
        k = z3.Int("k!pow2")
        c.assume(f(0) == 1, fact=True)
        c.assume(z3.ForAll([k], z3.Implies(k >= 0, f(k + 1) == 2 * f(k)), patterns=[f(k + 1)]), fact=True)
        c.assume(z3.ForAll([k], z3.Implies(k >= 0, f(k) >= 1), patterns=[f(k)]), fact=True)
    return f(n)


def pow2(n):
    if isinstance(n, SymBase):
        return SymInt(pow2_term(n.t))
    return 2 ** int(n)


def pow2_unfold(n):
    """instantiate the defining axiom at n: n >= 1 => pow2(n) == 2 * pow2(n - 1)  (an instance of an
    axiom already assumed; the solvers' triggers do not find it when the term is written pow2(n))"""
    if isinstance(n, SymBase) and HAVE_Z3 and sym.have_ctx():
        f = _pow2_fn()
        pow2_term(n.t)
        sym.ctx().assume(z3.Implies(n.t >= 1, f(n.t) == 2 * f(n.t - 1)), fact=True)


# ---- slices: CPython semantics ----------------------------------------------------------------


def py_slice_bounds(start, stop, n):
    """
    (lo, hi) such that ``X[start:stop]`` (step None/1) on a length-n sequence selects exactly
    indices lo <= i < hi (empty when hi <= lo).  This is CPython's PySlice_AdjustIndices, written
    with Ite so it is usable symbolically; validated against ``slice.indices`` at start-up.
    """

    def adj(v, default):
        if v is None:
            return default
        return Ite(v < 0, Max(v + n, 0), Min(v, n))

    lo = adj(start, 0)
    hi = adj(stop, n)
    return lo, hi


def selftest_py_slice_bounds(limit=7):
    vals = [None] + list(range(-limit - 2, limit + 3))
    cnt = 0
    for n in range(0, limit + 1):
        for a in vals:
            for b in vals:
                lo, hi = py_slice_bounds(a, b, n)
                want = list(range(n))[a:b]
                got = list(range(lo, hi))
                assert want == got, (a, b, n, want, got)
                cnt += 1
    return cnt


def idx_norm(i, n):
    """CPython integer index normalisation (negative from the right), no bounds check."""
    return Ite(i < 0, i + n, i)


# ---- misc -------------------------------------------------------------------------------------


def same_object(a, b):
    return a is b


def is_int_obj(x):
    """x is an `int` object (not a float) -- type test usable on proxies and natives."""
    if isinstance(x, SymBase):
        return isinstance(x, (SymInt,))
    return isinstance(x, numbers.Integral) and not isinstance(x, bool)


def approx_eq(a, b, rel=1e-9, abs_=1e-9):
    """Equality in specs over reals; natively tolerant to float rounding (assumption A1)."""
    if _any_sym(a, b):
        return a == b
    if isinstance(a, numbers.Integral) and isinstance(b, numbers.Integral):
        return a == b
    a, b = float(a), float(b)
    if a == b:
        return True
    return abs(a - b) <= max(abs_, rel * max(abs(a), abs(b)))


def le_tol(a, b, rel=1e-9, abs_=1e-9):
    """a <= b, natively tolerant to float rounding."""
    if _any_sym(a, b):
        return a <= b
    return a <= b or approx_eq(a, b, rel, abs_)


def lt_tol(a, b, rel=1e-9, abs_=1e-9):
    """a < b; natively a <= b + slack (a strict bound may be met with equality after rounding)."""
    if _any_sym(a, b):
        return a < b
    return a < b or approx_eq(a, b, rel, abs_)


# ---- sequences (SymSeq or concrete) ----------------------------------------------------------------


def seq_len(s):
    return s.__symlen__() if hasattr(s, "__symlen__") else len(s)


def seq_get(s, i, default=0):
    """element i of a SymSeq, a numpy array or a python sequence; a symbolic index into a concrete
    sequence is resolved by an if-then-else chain (positions outside read as `default`)"""
    if hasattr(s, "__symlen__"):
        return s.get(i)
    if isinstance(i, SymBase):
        acc = default
        for k in range(len(s) - 1, -1, -1):
            acc = Ite(i == k, s[k], acc)
        return acc
    i = int(i)
    if 0 <= i < len(s):
        v = s[i]
        return int(v) if hasattr(v, "dtype") and v.dtype.kind in "iu" else v
    return default
