"""
pyvc.seq -- sequences of symbolic length and byte strings as stream segments.

SymSeq   : list/tuple of unknown length: (n, one z3 Array Int->leaf per leaf of the element shape).
SymBytes : bytes/bytearray abstracted to a half-open interval [lo, hi) of positions in one ghost
           global byte stream.  All byte operations the code base performs (len, slicing,
           concatenation, copying, truthiness) are parametric in the content, so reasoning about
           positions is reasoning about all contents.  `a + b` of two non-empty segments generates
           the proof obligation  a.hi == b.lo  ("concatenated in stream order").
"""
from __future__ import annotations

from typing import List

import z3

from . import sym
from .sym import PathEnd, SymBase, SymBool, SymInt, SymReal, Unsupported, ctx, term_of


NONE_CODE = -(2**61) - 7


def _int_term(x):
    tk = term_of(x)
    if tk is None or tk[1] not in ("int",):
        if tk is not None and tk[1] == "bool":
            return z3.If(tk[0], z3.IntVal(1), z3.IntVal(0))
        raise Unsupported(f"expected an int, got {type(x).__name__}")
    return tk[0]


# ----------------------------------------------------------------------------------------------
# element shapes <-> leaves
# ----------------------------------------------------------------------------------------------


def _leaf_sorts(shape) -> List:
    from .contract import BytesSeg, Const, Int, Real, SymBoolShape, Tup

    if isinstance(shape, Int):
        return [z3.IntSort()]
    if isinstance(shape, Real):
        return [z3.RealSort()]
    if isinstance(shape, SymBoolShape):
        return [z3.BoolSort()]
    if isinstance(shape, Const):
        return []
    if isinstance(shape, Tup):
        out = []
        for e in shape.elems:
            out.extend(_leaf_sorts(e))
        return out
    if isinstance(shape, BytesSeg):
        return [z3.IntSort(), z3.IntSort()]
    raise Unsupported(f"element shape {shape.describe()} not supported in SymSeq")


def _build(shape, leaves: list):
    """Consume leaves (list of z3 terms) and build an element value."""
    from .contract import BytesSeg, Const, Int, Real, SymBoolShape, Tup

    if isinstance(shape, Int):
        return SymInt(leaves.pop(0))
    if isinstance(shape, Real):
        return SymReal(leaves.pop(0))
    if isinstance(shape, SymBoolShape):
        return SymBool(leaves.pop(0))
    if isinstance(shape, Const):
        return shape.v
    if isinstance(shape, Tup):
        vals = [_build(e, leaves) for e in shape.elems]
        return list(vals) if shape.as_list else tuple(vals)
    if isinstance(shape, BytesSeg):
        lo = leaves.pop(0)
        hi = leaves.pop(0)
        return SymBytes(lo, hi, mutable=shape.mutable)
    raise Unsupported("bad element shape")


def _flatten(shape, v) -> list:
    from .contract import BytesSeg, Const, Int, Real, SymBoolShape, Tup

    if isinstance(shape, Int):
        if v is None:
            return [z3.IntVal(NONE_CODE)]  # `None` stored in an int slot of a ghost list (e.g. chunk id of header/footer)
        return [_int_term(v)]
    if isinstance(shape, Real):
        t, k = term_of(v)
        return [sym.as_real(t, k)]
    if isinstance(shape, SymBoolShape):
        return [sym.to_bool_term(v)]
    if isinstance(shape, Const):
        return []
    if isinstance(shape, Tup):
        if len(v) != len(shape.elems):
            raise Unsupported("tuple arity mismatch storing into SymSeq")
        out = []
        for e, x in zip(shape.elems, v):
            out.extend(_flatten(e, x))
        return out
    if isinstance(shape, BytesSeg):
        if not isinstance(v, SymBytes):
            raise Unsupported("expected SymBytes element")
        return [v.lo, v.hi]
    raise Unsupported("bad element shape")


def _is_int_elem(shape):
    from .contract import Int

    return isinstance(shape, Int)


class SymSeq(SymBase):
    __slots__ = ("kind", "elem", "n", "arrs", "input_name")

    def __init__(self, kind, elem, n, arrs, input_name=None):
        self.kind = kind
        self.elem = elem
        self.n = n
        self.arrs = list(arrs)
        self.input_name = input_name

    @property
    def __vc_types__(self):
        if self.kind == "array":
            import numpy

            return (numpy.ndarray,)
        return (list,) if self.kind == "list" else (tuple,)

    # -- construction -----------------------------------------------------------------------
    @staticmethod
    def fresh(name, elem, kind="list", min_len=0, max_len=None, is_input=False):
        c = ctx()
        n = z3.Int(c.fresh_name(f"{name}.len"))
        c.assume(n >= min_len, fact=True)
        if max_len is not None:
            c.assume(n <= max_len, fact=True)
        arrs = [z3.Array(c.fresh_name(f"{name}.a{i}"), z3.IntSort(), s) for i, s in enumerate(_leaf_sorts(elem))]
        s = SymSeq(kind, elem, n, arrs, input_name=name if is_input else None)
        if is_input:
            c.inputs[f"{name}.len"] = n
        return s

    @staticmethod
    def repeat(v, n, kind="tuple"):
        from .contract import Int, Real

        t, k = term_of(v)
        shape = Int() if k == "int" else Real()
        nt = _int_term(n)
        return SymSeq(kind, shape, z3.If(nt >= 0, nt, z3.IntVal(0)), [z3.K(z3.IntSort(), t)])

    @staticmethod
    def empty(elem, kind="list"):
        arrs = [z3.K(z3.IntSort(), _default(s)) for s in _leaf_sorts(elem)]
        return SymSeq(kind, elem, z3.IntVal(0), arrs)

    def fresh_like(self, hint="seq"):
        return SymSeq.fresh(hint, self.elem, self.kind)

    def havoc_inplace(self):
        f = self.fresh_like("havoc")
        self.n, self.arrs = f.n, f.arrs

    def as_kind(self, kind, copy=False):
        if kind == self.kind and not copy:
            return self
        return SymSeq(kind, self.elem, self.n, self.arrs)

    # -- queries ------------------------------------------------------------------------------
    def __symlen__(self):
        n = z3.simplify(self.n)
        if z3.is_int_value(n):
            return n.as_long()
        return SymInt(self.n)

    def __bool__(self):
        return ctx().branch(self.n != 0)

    def __symbool__(self):
        return SymBool(self.n != 0)

    def get(self, k):
        """Element k without bounds check (spec use, loop fetch)."""
        kt = _int_term(k)
        return _build(self.elem, [z3.Select(a, kt) for a in self.arrs])

    def __getitem__(self, i):
        if isinstance(i, slice):
            if i.step not in (None, 1):
                raise Unsupported("SymSeq slicing with a step")
            from .spec import py_slice_bounds

            n = SymInt(self.n)
            lo, hi = py_slice_bounds(i.start, i.stop, n)
            lo_t, hi_t = _int_term(lo), _int_term(hi)
            ln = z3.If(hi_t >= lo_t, hi_t - lo_t, z3.IntVal(0))
            j = z3.Int("j!sl")
            arrs = [z3.Lambda([j], z3.Select(a, j + lo_t)) for a in self.arrs]
            return SymSeq(self.kind, self.elem, ln, arrs)
        it = _int_term(i)
        n = self.n
        if SymBool(z3.And(it >= 0, it < n)).__bool__():
            return self.get(SymInt(it))
        if SymBool(z3.And(it < 0, it >= -n)).__bool__():
            return self.get(SymInt(it + n))
        raise IndexError("list index out of range")

    def __setitem__(self, i, v):
        """list / array item assignment with a possibly symbolic index (IndexError outside the sequence, like CPython)"""
        if self.kind == "tuple":
            raise TypeError("'tuple' object does not support item assignment")
        if isinstance(i, slice):
            raise Unsupported("slice assignment on a symbolic-length sequence")
        it = _int_term(i)
        n = self.n
        if SymBool(z3.And(it >= 0, it < n)).__bool__():
            idx = it
        elif SymBool(z3.And(it < 0, it >= -n)).__bool__():
            idx = it + n
        else:
            raise IndexError("list assignment index out of range")
        leaves = _flatten(self.elem, v)
        self.arrs = [z3.Store(a, idx, l) for a, l in zip(self.arrs, leaves)]

    def __iter__(self):
        n = z3.simplify(self.n)
        if not z3.is_int_value(n):
            raise Unsupported("iteration over a symbolic-length sequence (needs a loop contract)")
        for k in range(n.as_long()):
            yield self.get(k)

    def sum(self, start=0):
        raise Unsupported("sum() over a symbolic-length sequence")

    # -- mutation -----------------------------------------------------------------------------
    def append(self, v):
        if self.kind != "list":
            raise AttributeError("'tuple' object has no attribute 'append'")
        leaves = _flatten(self.elem, v)
        self.arrs = [z3.Store(a, self.n, l) for a, l in zip(self.arrs, leaves)]
        self.n = self.n + 1

    def insert(self, pos, v):
        if self.kind != "list":
            raise AttributeError("'tuple' object has no attribute 'insert'")
        if not (isinstance(pos, int) and pos == 0):
            raise Unsupported("SymSeq.insert at a position other than 0")
        leaves = _flatten(self.elem, v)
        j = z3.Int("j!ins")
        self.arrs = [z3.Lambda([j], z3.If(j == 0, l, z3.Select(a, j - 1))) for a, l in zip(self.arrs, leaves)]
        self.n = self.n + 1

    def _coerce_other(self, o):
        if isinstance(o, SymSeq):
            return o
        if isinstance(o, (list, tuple)):
            s = SymSeq.empty(self.elem, self.kind)
            s.kind = "list"
            for e in o:
                s.append(e)
            s.kind = self.kind
            return s
        return None

    # -- numpy 1-d arrays (kind "array"): arithmetic is elementwise, with a scalar or an array of the same length
    def _elementwise(self, o, f):
        from .contract import Int, Real

        if not isinstance(self.elem, (Int, Real)):
            raise Unsupported("elementwise arithmetic on a non-numeric array")
        j = z3.Int("j!ew")
        a = self.arrs[0]
        if isinstance(o, SymSeq):
            if o.kind != "array" or not isinstance(o.elem, (Int, Real)):
                raise Unsupported("array arithmetic with a non-array sequence")
            ctx().check(SymBool(self.n == o.n), "array-operands-have-the-same-length", kind="library-pre")
            bt = z3.Select(o.arrs[0], j)
            real = isinstance(self.elem, Real) or isinstance(o.elem, Real)
        else:
            tk = term_of(o)
            if tk is None or tk[1] not in ("int", "real"):
                raise Unsupported(f"array arithmetic with {type(o).__name__}")
            bt = tk[0]
            real = isinstance(self.elem, Real) or tk[1] == "real"
        at = z3.Select(a, j)
        if real:
            at = sym.as_real(at, "real" if isinstance(self.elem, Real) else "int")
            bt = z3.ToReal(bt) if bt.sort() == z3.IntSort() else bt
        return SymSeq("array", Real() if real else Int(), self.n, [z3.Lambda([j], f(at, bt))])

    def __sub__(self, o):
        if self.kind != "array":
            return NotImplemented
        return self._elementwise(o, lambda x, y: x - y)

    def __rsub__(self, o):
        if self.kind != "array":
            return NotImplemented
        return self._elementwise(o, lambda x, y: y - x)

    def __mul__(self, o):
        if self.kind != "array":
            raise Unsupported("sequence repetition of a symbolic-length sequence")
        return self._elementwise(o, lambda x, y: x * y)

    __rmul__ = __mul__

    def __neg__(self):
        if self.kind != "array":
            raise TypeError("bad operand type for unary -")
        return self._elementwise(0, lambda x, y: y - x)

    def astype(self, dtype, *a, **k):
        if self.kind != "array":
            raise AttributeError("astype")
        if str(dtype) in ("int32", "int64", "int") and _is_int_elem(self.elem):
            return self
        raise Unsupported("astype of a symbolic array to " + str(dtype))

    def __add__(self, o):
        if self.kind == "array":
            return self._elementwise(o, lambda x, y: x + y)
        o2 = self._coerce_other(o)
        if o2 is None:
            return NotImplemented
        j = z3.Int("j!cat")
        arrs = [z3.Lambda([j], z3.If(j < self.n, z3.Select(a, j), z3.Select(b, j - self.n))) for a, b in zip(self.arrs, o2.arrs)]
        return SymSeq(self.kind, self.elem, self.n + o2.n, arrs)

    def __radd__(self, o):
        if self.kind == "array":
            return self._elementwise(o, lambda x, y: y + x)
        o2 = self._coerce_other(o)
        if o2 is None:
            return NotImplemented
        return o2.__add__(self)

    def __iadd__(self, o):
        if self.kind == "array":
            raise Unsupported("in-place arithmetic on a symbolic array")
        r = self.__add__(o)
        if r is NotImplemented:
            return r
        if self.kind == "list":
            self.n, self.arrs = r.n, r.arrs
            return self
        return r

    def copy(self):
        return SymSeq(self.kind, self.elem, self.n, self.arrs)

    # a little numpy: a 1-d integer array is modelled by a SymSeq
    @property
    def shape(self):
        return (SymInt(self.n),)

    @property
    def size(self):
        return SymInt(self.n)

    def tolist(self):
        return self.as_kind("list", copy=True)

    def cumsum(self, axis=None, dtype=None, out=None):
        """ndarray.cumsum of a 1-d integer array (assumed numpy meaning): p[0] = a[0], p[j] = p[j-1] + a[j].
        Machine width: the running total is ASSUMED to fit the requested integer dtype."""
        from .contract import Int
        from .npmodel import MODELS_USED

        if out is not None or axis not in (None, 0) or not isinstance(self.elem, Int):
            raise Unsupported("cumsum on this argument")
        MODELS_USED.add("ndarray.cumsum (prefix sums; no overflow of the requested integer dtype)")
        c = ctx()
        a = self.arrs[0]
        p = z3.Array(c.fresh_name("cumsum"), z3.IntSort(), z3.IntSort())
        j = z3.Int(c.fresh_name("j"))
        c.assume(z3.Implies(self.n > 0, z3.Select(p, 0) == z3.Select(a, 0)), fact=True)
        c.assume(z3.ForAll([j], z3.Implies(z3.And(j >= 1, j < self.n), z3.Select(p, j) == z3.Select(p, j - 1) + z3.Select(a, j))), fact=True)
        return SymSeq("array", self.elem, self.n, [p])

    def elementwise_differs(self, o):
        """exists j: self[j] != o[j] (same length assumed by the caller)"""
        j = z3.Int(ctx().fresh_name("j"))
        neq = z3.Or(*[z3.Select(a, j) != z3.Select(b, j) for a, b in zip(self.arrs, o.arrs)])
        return SymBool(z3.Exists([j], z3.And(j >= 0, j < self.n, neq)))

    def __ne__(self, o):
        if isinstance(o, SymSeq):
            outer = self

            class _NeResult:
                def any(self_inner):
                    return outer.elementwise_differs(o)

            return _NeResult()
        raise Unsupported("!= on symbolic-length sequences")

    def __eq__(self, o):
        if o is self:
            return True
        raise Unsupported("== on symbolic-length sequences")

    __hash__ = SymBase.__hash__

    def __repr__(self):
        return f"<SymSeq {self.kind} n={z3.simplify(self.n)}>"

    def __format__(self, spec):
        return "<symbolic seq>"

    # -- witness ------------------------------------------------------------------------------
    def to_src(self, model, c):
        from .engine import model_value, to_src

        n = int(model_value(model, self.n))
        n = max(0, min(n, 64))
        items = [to_src(self.get(k), model, c) for k in range(n)]
        if self.kind == "tuple":
            return "(" + ", ".join(items) + ("," if n == 1 else "") + ")"
        if self.kind == "array":
            return "np.asarray([" + ", ".join(items) + "], dtype=" + ("'int32'" if _is_int_elem(self.elem) else "'float64'") + ")"
        return "[" + ", ".join(items) + "]"


def _default(sort):
    if sort == z3.IntSort():
        return z3.IntVal(0)
    if sort == z3.RealSort():
        return z3.RealVal(0)
    return z3.BoolVal(False)


# ----------------------------------------------------------------------------------------------
# bytes as stream segments
# ----------------------------------------------------------------------------------------------


class SymBytes(SymBase):
    __slots__ = ("lo", "hi", "mutable")

    def __init__(self, lo, hi, mutable=False):
        self.lo = lo
        self.hi = hi
        self.mutable = mutable

    @property
    def __vc_types__(self):
        return (bytearray,) if self.mutable else (bytes,)

    @staticmethod
    def fresh(name, mutable=False, is_input=False):
        c = ctx()
        lo = z3.Int(c.fresh_name(f"{name}.lo"))
        hi = z3.Int(c.fresh_name(f"{name}.hi"))
        c.assume(z3.And(lo >= 0, hi >= lo), fact=True)
        if is_input:
            c.inputs[f"{name}.lo"] = lo
            c.inputs[f"{name}.hi"] = hi
        return SymBytes(lo, hi, mutable)

    @staticmethod
    def empty(mutable=True):
        return SymBytes(z3.IntVal(0), z3.IntVal(0), mutable)

    def fresh_like(self, hint="seg"):
        return SymBytes.fresh(hint, self.mutable)

    def havoc_inplace(self):
        f = self.fresh_like("havoc")
        self.lo, self.hi = f.lo, f.hi

    def copy(self, mutable=None):
        return SymBytes(self.lo, self.hi, self.mutable if mutable is None else mutable)

    def __symlen__(self):
        n = z3.simplify(self.hi - self.lo)
        if z3.is_int_value(n):
            return n.as_long()
        return SymInt(self.hi - self.lo)

    def __bool__(self):
        return ctx().branch(self.hi != self.lo)

    def __symbool__(self):
        return SymBool(self.hi != self.lo)

    def __getitem__(self, i):
        if not isinstance(i, slice):
            raise Unsupported("byte value access on an abstract byte segment")
        if i.step not in (None, 1):
            raise Unsupported("byte slicing with a step")
        from .spec import py_slice_bounds

        n = SymInt(self.hi - self.lo)
        a, b = py_slice_bounds(i.start, i.stop, n)
        at, bt = _int_term(a), _int_term(b)
        bt = z3.If(bt >= at, bt, at)
        return SymBytes(self.lo + at, self.lo + bt, self.mutable)

    def _other(self, o):
        if isinstance(o, SymBytes):
            return o
        if isinstance(o, (bytes, bytearray)) and len(o) == 0:
            return SymBytes(self.hi, self.hi, isinstance(o, bytearray))
        return None

    def _concat(self, a, b):
        c = ctx()
        alen = a.hi - a.lo
        blen = b.hi - b.lo
        adj = z3.Or(alen == 0, blen == 0, a.hi == b.lo)
        c.check(adj, "bytes-concat-in-stream-order", kind="bytes-adjacent")
        c.assume(adj)
        lo = z3.If(alen == 0, b.lo, a.lo)
        hi = z3.If(blen == 0, z3.If(alen == 0, b.hi, a.hi), b.hi)
        return z3.simplify(lo), z3.simplify(hi)

    def __add__(self, o):
        o2 = self._other(o)
        if o2 is None:
            return NotImplemented
        lo, hi = self._concat(self, o2)
        return SymBytes(lo, hi, self.mutable)

    def __radd__(self, o):
        if isinstance(o, (bytes, bytearray)) and len(o) == 0:
            return SymBytes(self.lo, self.hi, isinstance(o, bytearray))
        return NotImplemented

    def __iadd__(self, o):
        o2 = self._other(o)
        if o2 is None:
            return NotImplemented
        lo, hi = self._concat(self, o2)
        if self.mutable:
            self.lo, self.hi = lo, hi
            return self
        return SymBytes(lo, hi, False)

    def extend(self, o):
        if not self.mutable:
            raise AttributeError("'bytes' object has no attribute 'extend'")
        self.__iadd__(o)

    def __delitem__(self, i):
        """del b[a:b] on a bytearray: only removal of a prefix or of a suffix keeps the value a
        stream segment; anything else is flagged (obligation) because bytes would go missing from
        the middle."""
        if not self.mutable:
            raise TypeError("'bytes' object doesn't support item deletion")
        if not isinstance(i, slice) or i.step not in (None, 1):
            raise Unsupported("del of a single byte / stepped slice on an abstract byte segment")
        from .spec import py_slice_bounds

        n = SymInt(self.hi - self.lo)
        a, b = py_slice_bounds(i.start, i.stop, n)
        at, bt = _int_term(a), _int_term(b)
        bt = z3.If(bt >= at, bt, at)
        c = ctx()
        nn = self.hi - self.lo
        ok = z3.Or(bt == at, at == 0, bt == nn)
        c.check(ok, "bytes-deleted-only-at-the-ends", kind="bytes-adjacent")
        c.assume(ok)
        new_lo = z3.If(z3.And(at == 0, bt > at), self.lo + bt, self.lo)
        new_hi = z3.If(z3.And(bt == nn, at > 0, bt > at), self.lo + at, self.hi)
        # prefix and suffix at once (everything deleted): empty at the old end
        new_lo = z3.If(z3.And(at == 0, bt == nn), self.hi, new_lo)
        new_hi = z3.If(z3.And(at == 0, bt == nn), self.hi, new_hi)
        self.lo, self.hi = z3.simplify(new_lo), z3.simplify(new_hi)

    def __eq__(self, o):
        if o is self:
            return True
        raise Unsupported("== on abstract byte segments")

    __hash__ = SymBase.__hash__

    def __repr__(self):
        return f"<SymBytes [{z3.simplify(self.lo)},{z3.simplify(self.hi)})>"

    def __format__(self, spec):
        return "<symbolic bytes>"

    def to_src(self, model, c):
        from .engine import model_value

        lo = int(model_value(model, self.lo))
        hi = int(model_value(model, self.hi))
        return f"SEG({lo}, {hi}, {self.mutable})"


def seg_lo(b):
    return SymInt(b.lo) if isinstance(b, SymBytes) else b._vc_lo


def seg_hi(b):
    return SymInt(b.hi) if isinstance(b, SymBytes) else b._vc_hi
