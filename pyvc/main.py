"""
pyvc.main -- command line driver:  python -m pyvc.main <PROPERTY> [--tier quick|thorough]
                                   python -m pyvc.main <PROPERTY> --replay <file>
exit codes: 0 held / 1 violation (VIOLATION line printed) / 2 undecided / 3 checker error.
"""
from __future__ import annotations

import argparse
import hashlib
import json
import multiprocessing as mp
import os
import subprocess
import sys
import time
import traceback

HERE = os.path.dirname(os.path.dirname(os.path.abspath(__file__)))
sys.path.insert(0, HERE)


def _load_all():
    from pyvc import shadow

    shadow.install()
    import contracts  # noqa: F401

    from pyvc.contract import CONTRACTS

    return CONTRACTS


def _worker(task):
    """(contract ref, case index) -> result dict.  Runs in a forked child."""
    ref, case_idx, budget = task
    from pyvc import engine
    from pyvc.contract import CONTRACTS

    C = CONTRACTS[ref]
    try:
        case = C.cases()[case_idx]
        return engine.explore_case(C, case_idx, case, budget_s=budget)
    except BaseException as e:  # pylint: disable=broad-except
        return dict(contract=ref, case=case_idx, crash=f"{type(e).__name__}: {e}", traceback=traceback.format_exc()[-3000:], instances=[], undecided=[], used_stubs=[], paths=0, solver_time=0, by_backend={}, wall=0, case_desc="", outcomes={})


def verify_property(prop: str, tier: str, jobs: int, only=None, verbose=False):
    from pyvc import shadow
    from pyvc.contract import CONTRACTS

    t0 = time.time()
    roots = [ref for ref, C in CONTRACTS.items() if prop in C.props and C.verify]
    if only:
        roots = [r for r in roots if any(o in r for o in only)]
    # make sure every module with a contracted function is loaded before forking
    for ref, C in CONTRACTS.items():
        if C.kind == "function":
            try:
                shadow.resolve(ref)
            except Exception as e:  # pylint: disable=broad-except
                if ref in roots:
                    raise
    # per (contract, case) exploration budget: a guard against run-away exploration, sized several times above
    # the slowest case (snap_affine: ~110 s on this machine) so that a slower or busier machine does not flip a verdict
    budget = 600 if tier == "quick" else 1800
    os.environ["PYVC_TIER"] = tier  # read by the recorder (cvc5 cross-check) in the forked workers
    todo = list(roots)
    seen = set()
    results = []
    ctxm = mp.get_context("fork")
    with ctxm.Pool(processes=jobs, maxtasksperchild=8) as pool:
        while todo:
            batch = []
            for ref in todo:
                if ref in seen:
                    continue
                seen.add(ref)
                C = CONTRACTS[ref]
                for i in range(len(C.cases())):
                    batch.append((ref, i, budget))
            todo = []
            for res in pool.imap_unordered(_worker, batch, chunksize=1):
                results.append(res)
                for s in res.get("used_stubs", []):
                    if s not in seen and CONTRACTS[s].verify:
                        todo.append(s)
                if verbose:
                    nfail = sum(1 for i in res["instances"] if i["status"] != "discharged")
                    print(f"  [{res['contract']} case {res['case']}] paths={res['paths']} inst={len(res['instances'])} notdischarged={nfail} undecided={len(res['undecided'])} {res.get('crash','')}", flush=True)
    return roots, sorted(seen), results, time.time() - t0


def aggregate(results):
    """Group obligation instances by (contract, oid)."""
    obl = {}
    for res in results:
        for inst in res["instances"]:
            key = f"{res['contract']}::{inst['oid']}"
            o = obl.setdefault(key, dict(contract=res["contract"], oid=inst["oid"], kind=inst["kind"], instances=0, discharged=0, failed=[], unknown=[], backends={}, time=0.0))
            o["instances"] += 1
            o["time"] += inst.get("time", 0.0)
            if inst["status"] == "discharged":
                o["discharged"] += 1
                o["backends"][inst["backend"]] = o["backends"].get(inst["backend"], 0) + 1
            elif inst["status"] == "failed":
                o["failed"].append(dict(inst, case_desc=res.get("case_desc", "")))
            else:
                o["unknown"].append(dict(inst, case_desc=res.get("case_desc", "")))
    return obl


def run_replay(path):
    py = sys.executable
    env = dict(os.environ)
    env["PYTHONPATH"] = os.pathsep.join([HERE] + ([os.environ["PYVC_REPO"]] if os.environ.get("PYVC_REPO") else []) + [env.get("PYTHONPATH", "")])
    r = subprocess.run([py, "-m", "pyvc.replay", path], capture_output=True, text=True, cwd=HERE, env=env, timeout=600)
    try:
        out = json.loads(r.stdout.strip().splitlines()[-1])
    except Exception:  # pylint: disable=broad-except
        out = dict(status="replay-crashed", stdout=r.stdout[-1000:], stderr=r.stderr[-2000:])
    return r.returncode, out


def main(argv=None):
    ap = argparse.ArgumentParser()
    ap.add_argument("prop")
    ap.add_argument("--tier", default=os.environ.get("VERIF_TIER", "quick"))
    ap.add_argument("--replay")
    ap.add_argument("--jobs", type=int, default=int(os.environ.get("PYVC_JOBS", "16")))
    ap.add_argument("--only", action="append")
    ap.add_argument("-v", "--verbose", action="store_true")
    ap.add_argument("--no-evidence", action="store_true")
    ap.add_argument("--update-lock", action="store_true", help="record the discharged obligations of this (passing) run in obligations.lock.json")
    args = ap.parse_args(argv)
    if args.replay:
        rc, out = run_replay(args.replay)
        print(json.dumps(out, indent=1, default=str))
        return 0 if rc == 1 else (1 if rc == 0 else 3)
    from pyvc import report

    return report.run_check(args)


if __name__ == "__main__":
    sys.exit(main())
