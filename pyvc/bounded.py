"""
pyvc.bounded -- BOUNDED stand-ins, never counted as proved.

For a function outside the VC generator's reach (numpy N-d plumbing, linear algebra, float libm)
its contract is still written in the same language and is evaluated NATIVELY on the real code
(plain import of /repo) for every input of an explicitly enumerated, bounded set
(`Contract.native_samples`).  Evidence lists these under `bounded_checks` with the bound.

  python -m pyvc.bounded <PROP> [--tier quick|thorough]     prints one JSON object
"""
from __future__ import annotations

import json
import os
import sys
import time
import traceback

HERE = os.path.dirname(os.path.dirname(os.path.abspath(__file__)))
sys.path.insert(0, HERE)


def main(argv=None):
    import argparse

    ap = argparse.ArgumentParser()
    ap.add_argument("prop")
    ap.add_argument("--tier", default="quick")
    ap.add_argument("--seed", type=int, default=0)
    args = ap.parse_args(argv)
    os.environ["PYVC_TIER"] = args.tier
    os.environ["PYVC_SEED"] = str(args.seed)
    import contracts  # noqa: F401
    from pyvc.contract import CONTRACTS
    from pyvc.replay import evaluate

    known_path = os.path.join(HERE, "known_findings.json")
    known = []
    if os.path.exists(known_path):
        with open(known_path) as f:
            known = [k for k in json.load(f).get("findings", []) if k.get("property") == args.prop and k.get("status", "open") == "open" and k.get("obligation") == "bounded-check"]
    out = []
    for ref, C in CONTRACTS.items():
        if args.prop not in C.props or C.native_samples is None:
            continue
        t0 = time.time()
        n = 0
        fails = []
        known_hits = {}
        bound = ""
        try:
            gen = C.native_samples()
            if isinstance(gen, tuple):
                bound, gen = gen
            for idx, sample in enumerate(gen):
                n += 1
                try:
                    obs = evaluate(C, dict(sample))
                except Exception as e:  # pylint: disable=broad-except
                    obs = dict(pre_ok=True, failed_clauses=[f"oracle-error {type(e).__name__}: {e}"], traceback=traceback.format_exc()[-800:])
                if not obs.get("pre_ok", True):
                    n -= 1
                    continue
                if obs["failed_clauses"]:
                    hit = None
                    for k in known:
                        if k.get("contract") != ref:
                            continue
                        try:
                            ok = bool(eval(k["excuse"], dict(sample)))  # pylint: disable=eval-used
                        except Exception:  # pylint: disable=broad-except
                            ok = False
                        if ok and set(obs["failed_clauses"]) <= set(k.get("clauses", obs["failed_clauses"])):
                            hit = k
                            break
                    if hit is not None:
                        known_hits.setdefault(hit["id"], 0)
                        known_hits[hit["id"]] += 1
                        continue
                    fails.append(dict(index=idx, sample={k: repr(v)[:300] for k, v in sample.items()}, observed={k: (str(v)[:400]) for k, v in obs.items()}))
                    if len(fails) >= 3:
                        break
        except Exception as e:  # pylint: disable=broad-except
            fails.append(dict(sample="<generator>", observed=dict(error=f"{type(e).__name__}: {e}", traceback=traceback.format_exc()[-1500:])))
        out.append(dict(contract=ref, bound=bound or C.note, cases=n, failed=fails, known_hits=known_hits, wall=round(time.time() - t0, 2)))
    print(json.dumps(dict(property=args.prop, bounded=out), default=str))
    return 0


if __name__ == "__main__":
    sys.exit(main())
