"""
pyvc.contract -- sidecar contracts: data model, input shapes, registry.

A contract is attached to a function of the repository by reference ("odc.geo.roi:_norm_slice",
"odc.geo.roi:Tiles.__getitem__"); /repo is not edited.  Clauses are ordinary Python lambdas whose
parameter names select what they see: the function's parameters, `result`, `old` (snapshot taken
by `Contract.old` before the call), `exc` (the raised exception).  They are evaluated symbolically
to build verification conditions and natively during replay.
"""
from __future__ import annotations

import inspect
import itertools
import math
from dataclasses import dataclass, field
from fractions import Fraction
from typing import Any, Callable, Dict, List, Optional, Sequence, Tuple, Union

# ----------------------------------------------------------------------------------------------
# shapes
# ----------------------------------------------------------------------------------------------


class Shape:
    def expand(self) -> List["Shape"]:
        return [self]

    def make(self, name: str):
        raise NotImplementedError

    def describe(self) -> str:
        return type(self).__name__


class Int(Shape):
    def __init__(self, ge=None, le=None):
        self.ge, self.le = ge, le

    def make(self, name):
        from .sym import ctx

        c = ctx()
        v = c.fresh_int(name)
        c.inputs[name] = v.t
        if self.ge is not None:
            c.assume(v >= self.ge)
        if self.le is not None:
            c.assume(v <= self.le)
        return v

    def describe(self):
        s = "int"
        if self.ge is not None:
            s += f">={self.ge}"
        if self.le is not None:
            s += f"<={self.le}"
        return s


class Real(Shape):
    def __init__(self, ge=None, le=None, gt=None, lt=None):
        self.ge, self.le, self.gt, self.lt = ge, le, gt, lt

    def make(self, name):
        from .sym import ctx

        c = ctx()
        v = c.fresh_real(name)
        c.inputs[name] = v.t
        if self.ge is not None:
            c.assume(v >= self.ge)
        if self.le is not None:
            c.assume(v <= self.le)
        if self.gt is not None:
            c.assume(v > self.gt)
        if self.lt is not None:
            c.assume(v < self.lt)
        return v

    def describe(self):
        return "real"


class Bool(Shape):
    def expand(self):
        return [Const(False), Const(True)]


class SymBoolShape(Shape):
    def make(self, name):
        from .sym import ctx

        c = ctx()
        v = c.fresh_bool(name)
        c.inputs[name] = v.t
        return v

    def describe(self):
        return "bool"


class Const(Shape):
    def __init__(self, v):
        self.v = v

    def make(self, name):
        return self.v

    def describe(self):
        return repr(self.v)


class OneOf(Shape):
    def __init__(self, *alts):
        self.alts = [a if isinstance(a, Shape) else Const(a) for a in alts]

    def expand(self):
        out = []
        for a in self.alts:
            out.extend(a.expand())
        return out


def Opt(s):
    return OneOf(Const(None), s)


class Tup(Shape):
    def __init__(self, *elems, as_list=False):
        self.elems = [e if isinstance(e, Shape) else Const(e) for e in elems]
        self.as_list = as_list

    def expand(self):
        return [Tup(*combo, as_list=self.as_list) for combo in itertools.product(*[e.expand() for e in self.elems])]

    def make(self, name):
        vals = [e.make(f"{name}.{i}") for i, e in enumerate(self.elems)]
        return list(vals) if self.as_list else tuple(vals)

    def describe(self):
        return ("[" if self.as_list else "(") + ", ".join(e.describe() for e in self.elems) + ("]" if self.as_list else ")")


class Slice(Shape):
    def __init__(self, start=None, stop=None, step=None):
        f = lambda e: e if isinstance(e, Shape) else Const(e)
        self.start, self.stop, self.step = f(start), f(stop), f(step)

    def expand(self):
        return [Slice(a, b, c) for a, b, c in itertools.product(self.start.expand(), self.stop.expand(), self.step.expand())]

    def make(self, name):
        return slice(self.start.make(name + ".start"), self.stop.make(name + ".stop"), self.step.make(name + ".step"))

    def describe(self):
        return f"slice({self.start.describe()}, {self.stop.describe()}, {self.step.describe()})"


class Obj(Shape):
    """An instance of a repository class allocated with __new__ and given field values directly
    (no constructor run): the representation invariant is stated in `requires`."""

    def __init__(self, cls_ref: str, **fields):
        self.cls_ref = cls_ref
        self.fields = {k: (v if isinstance(v, Shape) else Const(v)) for k, v in fields.items()}

    def expand(self):
        keys = list(self.fields)
        return [Obj(self.cls_ref, **dict(zip(keys, combo))) for combo in itertools.product(*[self.fields[k].expand() for k in keys])]

    def make(self, name):
        from . import shadow
        from .sym import ctx

        _, owner, attr, cls = shadow.resolve(self.cls_ref)
        obj = object.__new__(cls)
        vals = {}
        for k, s in self.fields.items():
            vals[k] = s.make(f"{name}.{k}")
            object.__setattr__(obj, k, vals[k])
        c = ctx()
        # the witness must describe the PRE-state: remember the initial field values (copies of the
        # mutable proxies), not the object the code mutates in place
        init = {k: (v.copy() if hasattr(v, "havoc_inplace") else v) for k, v in vals.items()}
        c.obj_registry[id(obj)] = ("new", self.cls_ref, init)
        c._keepalive.append(obj)
        return obj

    def describe(self):
        return self.cls_ref.split(":")[-1] + "{" + ", ".join(f"{k}={v.describe()}" for k, v in self.fields.items()) + "}"


class Build(Shape):
    """An object built by *calling* a (shadow) repository callable on made arguments, e.g.
    Build('odc.geo.types:XY', Real(), Real())."""

    def __init__(self, fn_ref: str, *args, **kwargs):
        f = lambda e: e if isinstance(e, Shape) else Const(e)
        self.fn_ref = fn_ref
        self.args = [f(a) for a in args]
        self.kwargs = {k: f(v) for k, v in kwargs.items()}

    def expand(self):
        keys = list(self.kwargs)
        out = []
        for combo in itertools.product(*[a.expand() for a in self.args], *[self.kwargs[k].expand() for k in keys]):
            out.append(Build(self.fn_ref, *combo[: len(self.args)], **dict(zip(keys, combo[len(self.args) :]))))
        return out

    def make(self, name):
        from . import shadow
        from .sym import ctx

        _, owner, attr, raw = shadow.resolve(self.fn_ref)
        fn = getattr(owner, attr)
        args = [a.make(f"{name}.{i}") for i, a in enumerate(self.args)]
        kwargs = {k: v.make(f"{name}.{k}") for k, v in self.kwargs.items()}
        obj = fn(*args, **kwargs)
        c = ctx()
        c.obj_registry[id(obj)] = ("call", self.fn_ref, args, kwargs)
        c._keepalive.append(obj)
        return obj

    def describe(self):
        a = [x.describe() for x in self.args] + [f"{k}={v.describe()}" for k, v in self.kwargs.items()]
        return self.fn_ref.split(":")[-1] + "(" + ", ".join(a) + ")"


class SeqOf(Shape):
    """Sequence of symbolic length (SymSeq)."""

    def __init__(self, elem: Shape, kind="list", min_len=0, max_len=None):
        self.elem, self.kind, self.min_len, self.max_len = elem, kind, min_len, max_len

    def make(self, name):
        from .seq import SymSeq

        return SymSeq.fresh(name, self.elem, kind=self.kind, min_len=self.min_len, max_len=self.max_len, is_input=True)

    def describe(self):
        return f"{self.kind}[{self.elem.describe()}]*n"


class BytesSeg(Shape):
    def __init__(self, mutable=False):
        self.mutable = mutable

    def make(self, name):
        from .seq import SymBytes

        return SymBytes.fresh(name, mutable=self.mutable, is_input=True)

    def describe(self):
        return "bytearray" if self.mutable else "bytes"


class Value(Shape):
    """Wraps an already-built value (used by `returns` of stubs: result *is* this object)."""

    def __init__(self, v):
        self.v = v

    def make(self, name):
        return self.v


class Derived(Shape):
    """An input computed from the other (already made) inputs: Derived(lambda q0, res: q0 * res)."""

    def __init__(self, fn, desc="derived"):
        self.fn, self.desc = fn, desc

    def describe(self):
        return self.desc


class Scaled(Shape):
    """A fresh real expressed as (fresh real) * unit -- keeps VCs linear when the contract is
    stated in units of `unit` (e.g. pixels): the value ranges over all reals when unit != 0."""

    def __init__(self, unit):
        self.unit = unit

    def make(self, name):
        from .sym import ctx

        return ctx().fresh_real(name + ".u") * self.unit

    def describe(self):
        return "real (in units of another value)"


class Custom(Shape):
    """Shape given by a function name -> value (may call other shapes' make)."""

    def __init__(self, fn, desc="custom"):
        self.fn, self.desc = fn, desc

    def make(self, name):
        return self.fn(name)

    def describe(self):
        return self.desc


def make_value(shape, name):
    if not isinstance(shape, Shape):
        shape = Const(shape)
    return shape.make(name)


# ----------------------------------------------------------------------------------------------
# contract
# ----------------------------------------------------------------------------------------------


@dataclass
class Contract:
    fn: str
    props: Sequence[str]
    inputs: Any = None  # dict name->Shape, or list of such dicts
    requires: List[Callable] = field(default_factory=list)
    ensures: List[Any] = field(default_factory=list)  # lambda or (label, lambda)
    raises: List[Tuple[type, Callable]] = field(default_factory=list)  # exact: raised iff cond
    returns: Optional[Callable] = None  # (args by name) -> Shape, for stubbing
    modifies: Optional[Callable] = None
    old: Optional[Callable] = None
    inline: bool = False
    loops: Dict[Any, Any] = field(default_factory=dict)  # ordinal or "nested.qual#ordinal" -> LoopSpec
    kind: str = "function"  # or "lemma"
    body: Optional[Callable] = None  # lemma body
    note: str = ""
    verify: bool = True  # False: assumed contract (trusted), listed in evidence
    trusted_reason: str = ""
    max_paths: int = 3000
    native_samples: Optional[Callable] = None  # () -> iterable of kwargs dicts for bounded/native runs
    bind: str = "auto"  # how the stub receives args
    # contracted functions whose REAL BODY runs during this exploration instead of their stub
    # (used by lemmas that are second entry points of a function: its other input shapes)
    unstub: Sequence[str] = ()
    # replay: (args, run) -> list of failure strings; run() calls the real function and returns
    # ("return", value) or ("raise", exc).  Used instead of evaluating the clauses natively when the
    # clauses speak about ghost state that has no native counterpart (stream positions)
    native_oracle: Optional[Callable] = None
    # ghost arguments passed at call sites: callee ref -> lambda(call_index, callee_args, <caller args>) -> {ghost: value}
    ghost_args: Dict[str, Callable] = field(default_factory=dict)

    @property
    def name(self):
        return self.fn

    def const_params(self, raw_fn):
        """{parameter: [allowed constants]} for parameters that are a Const in every input case"""
        import inspect as _i

        if self.kind != "function" or self.inputs is None or not self.verify:
            return {}
        cached = getattr(self, "_const_params", None)
        if cached is not None:
            return cached
        params = set(_i.signature(raw_fn).parameters)
        out = {}
        cases = self.cases()
        for p in params:
            vals = []
            ok = bool(cases)
            for cs in cases:
                if p not in cs:
                    ok = False
                    break
                sh = cs[p]
                if isinstance(sh, Const) and (sh.v is None or isinstance(sh.v, (bool, int, float, str))):
                    if not any(sh.v is v or (type(sh.v) is type(v) and sh.v == v) for v in vals):
                        vals.append(sh.v)
                else:
                    ok = False
                    break
            if ok:
                out[p] = vals
        object.__setattr__(self, "_const_params", out)
        return out

    def ghost_names(self, raw_fn):
        """Input names that are not parameters of the function: ghost (universally quantified)."""
        import inspect as _i

        if self.kind != "function":
            return set()
        params = set(_i.signature(raw_fn).parameters)
        cases = self.cases()
        out = set()
        for cs in cases:  # the cases of a contract may have different ghost inputs (families of 1, 2, 3 operands)
            out |= {k for k in cs if k not in params}
        return out

    def labelled_ensures(self):
        out = []
        for i, e in enumerate(self.ensures):
            if isinstance(e, tuple):
                out.append((e[0], e[1]))
            else:
                out.append((f"post{i}", e))
        return out

    def cases(self):
        if self.inputs is None:
            return [{}]
        ins = self.inputs if isinstance(self.inputs, list) else [self.inputs]
        out = []
        for d in ins:
            keys = list(d)
            shapes = [d[k] if isinstance(d[k], Shape) else Const(d[k]) for k in keys]
            for combo in itertools.product(*[s.expand() for s in shapes]):
                out.append(dict(zip(keys, combo)))
        return out


CONTRACTS: Dict[str, Contract] = {}


def contract(fn: str, props, **kw) -> Contract:
    if isinstance(props, str):
        props = [props]
    c = Contract(fn=fn, props=list(props), **kw)
    if fn in CONTRACTS:
        raise ValueError(f"duplicate contract for {fn}")
    CONTRACTS[fn] = c
    # register loop specs for the instrumenter
    from . import shadow

    for k, spec in c.loops.items():
        if isinstance(k, int):
            key = f"{fn}#{k}"
        else:
            key = f"{fn.split(':')[0]}:{k}"
        shadow.LOOP_SPECS[key] = spec
    return c


def lemma(name: str, props, inputs, body, requires=(), note="", **kw) -> Contract:
    """A lemma over contracts: `body(**inputs)` runs with every contracted function stubbed and
    states its claims with pyvc.engine.claim(...)."""
    return contract(f"lemma:{name}", props, inputs=inputs, body=body, requires=list(requires), kind="lemma", note=note, **kw)


def describe_case(case: dict) -> str:
    return ", ".join(f"{k}: {v.describe()}" for k, v in case.items())
