"""
pyvc.engine -- path exploration, modular stubs, obligation discharge.
"""
from __future__ import annotations

import inspect
import os
import sys
import subprocess
import tempfile
import time
import traceback
from fractions import Fraction
from typing import Any, Dict, List, Optional

import z3

from . import shadow, sym
from .contract import CONTRACTS, Contract, Derived, Shape, Value, describe_case, make_value
from .loops import call_by_name
from .callutil import call_fn
from .sym import Ctx, PathEnd, SymBase, SymBool, SymInt, SymReal, Unsupported, VcAbort, set_ctx

OBLIGATION_TIMEOUT_MS = int(os.environ.get("PYVC_Z3_TIMEOUT_MS", "20000"))
CVC5_TIMEOUT_MS = int(os.environ.get("PYVC_CVC5_TIMEOUT_MS", "30000"))
Z3_QUICK_MS = int(os.environ.get("PYVC_Z3_QUICK_MS", "3000"))


def _load_scale() -> float:
    """solver budgets are wall-clock: stretch them when the machine is oversubscribed so that a
    verdict does not flip to `unknown` because other checks are running"""
    try:
        return min(6.0, max(1.0, os.getloadavg()[0] / (os.cpu_count() or 1)))
    except OSError:
        return 1.0

CVC5_BIN = os.environ.get("PYVC_CVC5", "/usr/bin/cvc5")
WORKDIR = os.path.join(os.path.dirname(os.path.dirname(os.path.abspath(__file__))), ".work")


# ----------------------------------------------------------------------------------------------
# claim() for lemma bodies and ghost code
# ----------------------------------------------------------------------------------------------


def claim(c, label: str):
    sym.ctx().check(c, f"claim:{label}", kind="lemma-claim")


def assume(c):
    sym.ctx().assume(c)


# ----------------------------------------------------------------------------------------------
# witness extraction
# ----------------------------------------------------------------------------------------------


def _num_from_model(v):
    if z3.is_int_value(v):
        return v.as_long()
    if z3.is_rational_value(v):
        return Fraction(v.numerator_as_long(), v.denominator_as_long())
    if z3.is_algebraic_value(v):
        a = v.approx(20)
        return Fraction(a.numerator_as_long(), a.denominator_as_long())
    if z3.is_true(v):
        return True
    if z3.is_false(v):
        return False
    raise ValueError(f"cannot read model value {v}")


def model_value(model, t):
    return _num_from_model(model.eval(t, model_completion=True))


def _float_src(fr):
    if isinstance(fr, Fraction):
        f = float(fr)
        if Fraction(f) == fr:
            return repr(f)
        return f"({fr.numerator}/{fr.denominator})"
    return repr(fr)


def to_src(v, model, c: Ctx) -> str:
    """Python source expression (evaluated by pyvc.replay) rebuilding the concrete value."""
    from .seq import SymBytes, SymSeq

    if isinstance(v, SymBool):
        return repr(bool(model_value(model, v.t)))
    if isinstance(v, SymInt):
        return repr(int(model_value(model, v.t)))
    if isinstance(v, SymReal):
        return _float_src(model_value(model, v.t))
    if v is None or isinstance(v, (bool, int, str, bytes)):
        return repr(v)
    if isinstance(v, float):
        if v != v:
            return "float('nan')"
        if v in (float("inf"), float("-inf")):
            return f"float('{v}')"
        return repr(v)
    if isinstance(v, tuple):
        inner = ", ".join(to_src(e, model, c) for e in v)
        return f"({inner},)" if len(v) == 1 else f"({inner})"
    if isinstance(v, list):
        return "[" + ", ".join(to_src(e, model, c) for e in v) + "]"
    if isinstance(v, dict):
        return "{" + ", ".join(f"{to_src(k, model, c)}: {to_src(e, model, c)}" for k, e in v.items()) + "}"
    if isinstance(v, slice):
        return f"slice({to_src(v.start, model, c)}, {to_src(v.stop, model, c)}, {to_src(v.step, model, c)})"
    if isinstance(v, (SymSeq, SymBytes)):
        return v.to_src(model, c)
    reg = c.obj_registry.get(id(v))
    if reg is not None:
        if reg[0] == "new":
            _, ref, fields = reg
            inner = ", ".join(f"{f}={to_src(v0, model, c)}" for f, v0 in fields.items())
            return f"NEW({ref!r}, {inner})"
        _, ref, args, kwargs = reg
        parts = [to_src(a, model, c) for a in args] + [f"{k}={to_src(a, model, c)}" for k, a in kwargs.items()]
        return f"R({ref!r})({', '.join(parts)})"
    hook = getattr(v, "__vc_src__", None)
    if hook is not None:
        return hook(model, c)
    tn, tm = type(v).__name__, getattr(type(v), "__module__", "")
    if tm == "affine" and tn == "Affine":
        return "R('affine:Affine')(" + ", ".join(to_src(getattr(v, k), model, c) for k in "abcdef") + ")"
    if tm.startswith("odc.geo"):
        if tn in ("XY", "Index2d", "Shape2d", "Resolution"):
            return f"R('{tm}:{tn}')(x={to_src(v.x, model, c)}, y={to_src(v.y, model, c)})"
        if tn == "CRS":
            return f"R('{tm}:CRS')({str(v)!r})"
        if tn == "BoundingBox":
            return f"R('{tm}:BoundingBox')(*{to_src(tuple(v._box), model, c)}, crs={to_src(v._crs, model, c)})"
        if tn == "GeoBox":
            return f"R('{tm}:GeoBox')({to_src(tuple(v._shape.yx), model, c)}, {to_src(v._affine, model, c)}, {to_src(v._crs, model, c)})"
        if tn == "Bin1D":
            return f"R('{tm}:Bin1D')({to_src(v.sz, model, c)}, {to_src(v.origin, model, c)}, {to_src(v.direction, model, c)})"
    import enum

    if isinstance(v, enum.Enum):
        return f"R('{type(v).__module__}:{type(v).__qualname__}').{v.name}"
    raise Unsupported(f"cannot serialise witness value of type {type(v).__name__}")


# ----------------------------------------------------------------------------------------------
# solving
# ----------------------------------------------------------------------------------------------


def _pairwise_int_defs(smt2: str, cap=9) -> str:
    """Conservative extension for cvc5: name the pairwise differences and sums of the integer
    constants, so that branch and bound can split on them (bounded even when the constants are
    not).  Calibrated: turns 20 s time-outs into 10 ms on the floor/nearest-integer obligations."""
    import itertools
    import re

    ints = re.findall(r"\(declare-fun (\S+) \(\) Int\)", smt2)
    if not (2 <= len(ints) <= cap):
        return smt2
    extra = []
    for n, (a, b) in enumerate(itertools.combinations(ints, 2)):
        extra.append(f"(declare-fun pw_d{n} () Int)(assert (= pw_d{n} (- {a} {b})))(declare-fun pw_s{n} () Int)(assert (= pw_s{n} (+ {a} {b})))")
    return smt2.replace("(check-sat)", "\n".join(extra) + "\n(check-sat)")


def _cvc5_check(smt2: str, timeout_ms: int) -> str:
    smt2 = _pairwise_int_defs(smt2)
    os.makedirs(WORKDIR, exist_ok=True)
    with tempfile.NamedTemporaryFile("w", suffix=".smt2", dir=WORKDIR, delete=False) as f:
        f.write("(set-logic ALL)\n" + smt2)
        path = f.name
    try:
        r = subprocess.run(
            [CVC5_BIN, "--lang=smt2", f"--tlimit={timeout_ms}", "--nl-ext-tplanes", path],
            capture_output=True,
            text=True,
            timeout=timeout_ms / 1000 + 10,
        )
        out = (r.stdout or "").strip().splitlines()
        return out[0].strip() if out else "unknown"
    except Exception:  # pylint: disable=broad-except
        return "unknown"
    finally:
        try:
            os.unlink(path)
        except OSError:
            pass


KNOWN_EXCUSES: Dict[tuple, dict] = {}


def _eval_excuse(expr: str, args: dict):
    from . import api

    ns = {k: getattr(api, k) for k in dir(api) if not k.startswith("_")}
    ns.update(args)
    c = sym.ctx()
    c.quant_depth += 1  # excuses must be fork-free
    try:
        return eval(expr, ns)  # pylint: disable=eval-used
    finally:
        c.quant_depth -= 1


def _expand_store_reads(t):
    """Select(Store(a, i, v), j) -> If(j == i, v, Select(a, j)), recursively (z3's simplifier does this only
    when it can decide i == j)"""
    cache = {}

    def go(x):
        k_ = x.get_id()
        if k_ in cache:
            return cache[k_]
        if z3.is_quantifier(x) or not z3.is_app(x) or x.num_args() == 0:
            cache[k_] = x
            return x
        kids = [go(ch) for ch in x.children()]
        if x.decl().kind() == z3.Z3_OP_SELECT and len(kids) == 2:
            arr, idx = kids

            def rd(a):
                if z3.is_app(a) and a.decl().kind() == z3.Z3_OP_STORE:
                    return z3.If(idx == a.arg(1), a.arg(2), rd(a.arg(0)))
                if z3.is_app(a) and a.decl().kind() == z3.Z3_OP_ITE:
                    return z3.If(a.arg(0), rd(a.arg(1)), rd(a.arg(2)))
                return z3.Select(a, idx)

            r = rd(arr)
            cache[k_] = r
            return r
        try:
            r = x.decl()(*kids)
        except Exception:  # pylint: disable=broad-except
            r = x
        cache[k_] = r
        return r

    return go(t)


def _first_ite_condition(t):
    """condition of some if-then-else sub-term of t (outside quantifiers), or None"""
    seen = set()
    stack = [t]
    while stack:
        x = stack.pop()
        k_ = x.get_id()
        if k_ in seen:
            continue
        seen.add(k_)
        if z3.is_quantifier(x) or not z3.is_app(x):
            continue
        if x.decl().kind() == z3.Z3_OP_ITE and not z3.is_bool(x):
            return x.arg(0)
        stack.extend(x.children())
    return None


def _cross_check(assumptions, t, inst):
    """thorough tier: an instance z3 discharged is sent to cvc5 as well; cvc5 answering `sat` is a
    disagreement between the back ends (checker error), `unknown` is recorded and changes nothing"""
    if os.environ.get("PYVC_TIER") != "thorough":
        return
    try:
        s = z3.Solver()
        for a_ in assumptions:
            s.add(a_)
        s.add(z3.Not(t))
        smt2 = s.to_smt2()
    except Exception:  # pylint: disable=broad-except
        inst["cvc5_cross"] = "not-exported"
        return
    if "lambda" in smt2:
        inst["cvc5_cross"] = "not-exported"
        return
    r = _cvc5_check(smt2, int(10000 * _load_scale()))
    inst["cvc5_cross"] = {"unsat": "agree", "sat": "DISAGREE"}.get(r, "unknown")


class Recorder:
    """Collects obligation instances of one (contract, case) exploration."""

    def __init__(self, contract: Contract, case_idx: int, args_of_path):
        self.contract = contract
        self.case_idx = case_idx
        self.args_of_path = args_of_path
        self.instances: List[dict] = []
        self.solver_time = 0.0
        self.by_backend = {"z3": 0, "cvc5": 0, "trivial": 0}

    def __call__(self, c: Ctx, oid: str, t, meta):
        t0 = time.time()
        ts = z3.simplify(t)
        splittable = z3.is_and(ts) and ts.num_args() > 1 and "_part" not in meta
        if splittable and not meta.get("_split_now") and not any(z3.is_quantifier(ch) for ch in ts.children()):
            # quantifier-free conjunction: try it whole first (often easier for the solver than its
            # parts); only if that stays undecided prove it conjunct by conjunct
            n0 = len(self.instances)
            self(c, oid, t, dict(meta, _part=-1))
            whole = self.instances[n0]
            if whole["status"] != "unknown":
                whole.pop("_part", None)
                return
            del self.instances[n0:]
            return self(c, oid, t, dict(meta, _split_now=True))
        if splittable:
            # a conjunction is proved conjunct by conjunct (smaller queries; the report names the conjunct)
            n0 = len(self.instances)
            for k_, ch in enumerate(ts.children()):
                self(c, oid, ch, dict(meta, _part=k_))
            parts = self.instances[n0:]
            del self.instances[n0:]
            rank = {"failed": 0, "unknown": 1, "discharged": 2}
            worst = min(parts, key=lambda p_: rank.get(p_["status"], 1))
            inst = dict(worst)
            inst["conjuncts"] = len(parts)
            inst["time"] = round(sum(p_.get("time", 0.0) for p_ in parts), 4)
            if worst["status"] != "discharged":
                inst["note"] = ((inst.get("note") or "") + f" | conjunct {worst.get('_part')} of {len(parts)}: {str(ts.arg(worst.get('_part', 0)))[:300]}").strip(" |")
            self.instances.append(inst)
            return
        inst = dict(oid=oid, case=self.case_idx, path=list(c.decisions), kind=meta.get("kind", ""), note=meta.get("note", ""), line=meta.get("line"))
        if "_part" in meta:
            inst["_part"] = meta["_part"]
        if z3.is_quantifier(ts) and ts.is_forall():
            # a universally quantified CLAIM is valid iff its body is valid for fresh constants
            # (skolemisation of the negated claim): the solver is left with quantifiers on the assumption side only
            fresh = [z3.Const(c.fresh_name(f"sk.{ts.var_name(i_)}"), ts.var_sort(i_)) for i_ in range(ts.num_vars())]
            t = z3.substitute_vars(ts.body(), *reversed(fresh))
            ts = z3.simplify(t)
            meta = dict(meta, _sk=True)
            ts = z3.simplify(_expand_store_reads(ts))
        if z3.is_true(ts):
            inst.update(status="discharged", backend="trivial", time=0.0)
            self.by_backend["trivial"] += 1
            self.instances.append(inst)
            return
        # a claim that reads freshly written arrays (Store(a, i, v)[j]) or contains other if-then-else terms
        # is split on the first condition: (cond => claim[then]) and (not cond => claim[else]); each half
        # is a simpler query (e.g. "the new pair" / "an old pair" of a sequence invariant)
        depth = meta.get("_ite_depth", 0)
        if depth < 4 and (meta.get("_sk") or depth > 0):
            cond = _first_ite_condition(ts)
            if cond is not None:
                n0 = len(self.instances)
                for val in (True, False):
                    half = z3.simplify(z3.substitute(ts, (cond, z3.BoolVal(val))))
                    guard = cond if val else z3.Not(cond)
                    self(c, oid, z3.Implies(guard, half), dict(meta, _ite_depth=depth + 1, _part=meta.get("_part", 0)))
                parts = self.instances[n0:]
                del self.instances[n0:]
                rank = {"failed": 0, "unknown": 1, "discharged": 2}
                worst = min(parts, key=lambda p_: rank.get(p_["status"], 1))
                combined = dict(worst)
                combined["time"] = round(sum(p_.get("time", 0.0) for p_ in parts), 4)
                self.instances.append(combined)
                return
        # zeroth attempt: cone of influence -- only the assumptions that share symbols (transitively)
        # with the claim; drops e.g. the polynomial facts about affine coefficients from a claim about
        # integer pixel ranges
        rel, n_rel = c.relevant(t)
        if n_rel < len(c.pc):
            s1 = z3.Solver()
            s1.set("timeout", int(8000 * _load_scale()))
            for a_ in rel:
                s1.add(a_)
            s1.add(z3.Not(t))
            c.n_solver_calls += 1
            if s1.check() == z3.unsat:
                _cross_check(rel, t, inst)
                inst.update(status="discharged", backend="z3", time=round(time.time() - t0, 4), sliced=f"{n_rel}/{len(c.pc)}")
                self.by_backend["z3"] += 1
                self.solver_time += time.time() - t0
                self.instances.append(inst)
                return
        # (a') quantified facts about arrays the claim has nothing to do with (e.g. the state of an outer
        # loop that an inner loop's havoc has replaced) only distract the instantiation engine
        if any(c.pc_quant):
            rel_a, n_a = sym.array_slice(rel, t)
            if n_a < len(rel):
                s1 = z3.Solver()
                s1.set("timeout", int(8000 * _load_scale()))
                for a_ in rel_a:
                    s1.add(a_)
                s1.add(z3.Not(t))
                c.n_solver_calls += 1
                r1 = s1.check()
                if os.environ.get("PYVC_DUMP"):
                    print(f"[pyvc] {oid}: attempt array-slice: {r1} ({n_a} assumptions of {len(c.pc)})", flush=True)
                if r1 == z3.unsat:
                    _cross_check(rel_a, t, inst)
                    inst.update(status="discharged", backend="z3", time=round(time.time() - t0, 4), sliced="array-slice")
                    self.by_backend["z3"] += 1
                    self.solver_time += time.time() - t0
                    self.instances.append(inst)
                    return
        # (b) the same cone without its nonlinear facts, and (c) with nonlinear products abstracted to an
        # uninterpreted function (congruence is often all a claim needs): both only ever weaken the
        # assumptions, so `unsat` carries over to the real problem
        if any(sym.is_nonlinear(a_) for a_ in rel) or sym.is_nonlinear(t):
            lin = [a_ for a_ in rel if not sym.is_nonlinear(a_)]
            attempts = []
            if not sym.is_nonlinear(t):
                attempts.append(("linear-slice", lin, t))
            cache = {}
            attempts.append(("uf-abstraction", [sym.abstract_nonlinear(a_, cache) for a_ in rel], sym.abstract_nonlinear(t, cache)))
            for how, assumptions, claim_t in attempts:
                s1 = z3.Solver()
                s1.set("timeout", int(5000 * _load_scale()))
                for a_ in assumptions:
                    s1.add(a_)
                s1.add(z3.Not(claim_t))
                c.n_solver_calls += 1
                r1 = s1.check()
                if os.environ.get("PYVC_DUMP"):
                    print(f"[pyvc] {oid}: attempt {how}: {r1} ({len(assumptions)} assumptions of {len(c.pc)})", flush=True)
                if r1 == z3.unsat:
                    _cross_check(assumptions, claim_t, inst)
                    inst.update(status="discharged", backend="z3", time=round(time.time() - t0, 4), sliced=how)
                    self.by_backend["z3"] += 1
                    self.solver_time += time.time() - t0
                    self.instances.append(inst)
                    return
        # first attempt: only the quantifier-free part of the path condition (fewer assumptions:
        # `unsat` there is `unsat` everywhere) -- keeps cheap obligations cheap on quantifier-heavy paths
        if any(c.pc_quant) and not sym.has_quant(t):
            s0 = z3.Solver()
            s0.set("timeout", 1500)
            for a_, q_ in zip(c.pc, c.pc_quant):
                if not q_:
                    s0.add(a_)
            s0.add(z3.Not(t))
            c.n_solver_calls += 1
            if s0.check() == z3.unsat:
                inst.update(status="discharged", backend="z3", time=round(time.time() - t0, 4))
                self.by_backend["z3"] += 1
                self.solver_time += time.time() - t0
                self.instances.append(inst)
                return
        s = c.solver
        s.push()
        s.set("timeout", Z3_QUICK_MS)
        s.add(z3.Not(t))
        c.n_solver_calls += 1
        r = s.check()
        backend = "z3"
        model = None
        status = "discharged" if r == z3.unsat else ("failed" if r == z3.sat else "unknown")
        if status == "unknown":
            try:
                smt2 = s.to_smt2()
            except Exception:  # pylint: disable=broad-except
                smt2 = None
            if smt2 is not None and os.environ.get("PYVC_DUMP"):
                os.makedirs(WORKDIR, exist_ok=True)
                with open(os.path.join(WORKDIR, f"unknown_{abs(hash(oid)) % 10000}_{len(self.instances)}.smt2"), "w") as fh:
                    fh.write("; " + oid + "\n(set-logic ALL)\n" + smt2)
            if smt2 is not None and "lambda" not in smt2:
                cr = _cvc5_check(smt2, int(CVC5_TIMEOUT_MS * _load_scale()))
                if cr == "unsat":
                    status, backend = "discharged", "cvc5"
                elif cr == "sat":
                    status, backend = "failed", "cvc5"
            if status == "unknown":
                s.set("timeout", int(OBLIGATION_TIMEOUT_MS * _load_scale()))
                r = s.check()
                status = "discharged" if r == z3.unsat else ("failed" if r == z3.sat else "unknown")
            if status == "unknown" and n_rel < len(c.pc):
                # last attempt: the sliced problem again with the long budget
                s1 = z3.Solver()
                s1.set("timeout", int(OBLIGATION_TIMEOUT_MS * _load_scale()))
                for a_ in rel:
                    s1.add(a_)
                s1.add(z3.Not(t))
                c.n_solver_calls += 1
                if s1.check() == z3.unsat:
                    status, r = "discharged", z3.unsat
        if status == "failed" and backend == "cvc5":
            # get a model from z3 if it can produce one now
            s.set("timeout", OBLIGATION_TIMEOUT_MS)
            r = s.check()
        kf = KNOWN_EXCUSES.get((self.contract.fn, oid)) if status == "failed" else None
        if kf is not None:
            # known finding: re-prove the obligation outside the recorded excuse
            try:
                ex = _eval_excuse(kf["excuse"], self.args_of_path())
                s.add(z3.Not(sym.to_bool_term(ex)))
                s.set("timeout", OBLIGATION_TIMEOUT_MS)
                r2 = s.check()
                if r2 == z3.unsat:
                    inst["excused"] = True
                    r = z3.unknown
                elif r2 == z3.sat:
                    r = r2  # a violation outside the excuse: witness comes from this model
                else:
                    status = "unknown"
            except VcAbort as e:
                inst["excuse_error"] = f"{type(e).__name__}: {e}"
            except Exception as e:  # pylint: disable=broad-except
                inst["excuse_error"] = f"{type(e).__name__}: {e}"
        model_raw = None
        if status == "failed" and r == z3.sat:
            model = s.model()
            model_raw = model
            # try for a float-exact witness: all real inputs dyadic (k/1024)
            reals = [v for v in c.inputs.values() if z3.is_real(v)]
            if reals:
                s.push()
                s.set("timeout", 3000)
                for v in reals:
                    s.add(z3.ToReal(z3.ToInt(v * 1024)) == v * 1024)
                if s.check() == z3.sat:
                    model = s.model()
                s.pop()
        s.pop()
        if status == "discharged" and backend == "z3":
            _cross_check(list(c.pc), t, inst)
        inst.update(status=status, backend=backend, time=round(time.time() - t0, 4))
        if status == "discharged":
            self.by_backend[backend] += 1
        if status == "failed":
            inst["term"] = str(ts)[:2000]
            if model is not None:
                try:
                    args = self.args_of_path()
                    inst["witness"] = {k: to_src(v, model, c) for k, v in args.items()}
                    if model_raw is not None and model_raw is not model:
                        inst["witness_raw"] = {k: to_src(v, model_raw, c) for k, v in args.items()}
                    inst["model"] = {str(d): str(model[d]) for d in model.decls()[:60]}
                except VcAbort as e:
                    inst["witness_error"] = f"{type(e).__name__}: {e}"
                except Exception as e:  # pylint: disable=broad-except
                    inst["witness_error"] = f"{type(e).__name__}: {e}"
        if status == "unknown":
            inst["term"] = str(ts)[:800]
        self.solver_time += time.time() - t0
        self.instances.append(inst)
        if os.environ.get("PYVC_DUMP") and time.time() - t0 > 2:
            print(f"[pyvc] slow: {oid} part {meta.get('_part')} -> {status} by {backend} in {time.time() - t0:.1f}s on path {c.decisions}: {str(ts)[:200]!r}", flush=True)


# ----------------------------------------------------------------------------------------------
# stubs (modular verification: callers see callee contracts, never bodies)
# ----------------------------------------------------------------------------------------------

_PATCHES: List[tuple] = []
USED_STUBS: set = set()
_ORIG: Dict[str, Any] = {}


def _bind(raw_fn, args, kwargs):
    sig = inspect.signature(raw_fn)
    ba = sig.bind(*args, **kwargs)
    ba.apply_defaults()
    out = dict(ba.arguments)
    for k, v in list(out.items()):
        if inspect.isgenerator(v):
            out[k] = list(v)  # the callee would consume it once; contracts index into it
    return out


def havoc_location(locn):
    """(obj, attr) -> fresh value of the same kind; (obj, attr, shape) -> fresh value of that shape;
    a mutable proxy -> havocked in place"""
    from .loops import fresh_like

    if isinstance(locn, tuple):
        if len(locn) == 3:
            obj, attr, shape = locn
            setattr(obj, attr, make_value(shape, attr))
        else:
            obj, attr = locn
            setattr(obj, attr, fresh_like(getattr(obj, attr), attr))
    else:
        locn.havoc_inplace()


def make_stub(C: Contract, raw_fn):
    def stub(*args, **kwargs):
        c = sym.ctx()
        prev_mode = c.ghost.get("mode", "claim")
        try:
            return _stub_body(c, args, kwargs)
        finally:
            c.ghost["mode"] = prev_mode

    def _stub_body(c, args, kwargs):
        USED_STUBS.add(C.fn)
        bound = _bind(raw_fn, args, kwargs)
        c.ghost.setdefault("calls", {}).setdefault(C.fn, []).append(bound)
        ghosts = C.ghost_names(raw_fn)
        # ghost arguments supplied by the caller's contract for this call site
        gvals = None
        if ghosts:
            caller = c.ghost.get("caller_contract")
            binder = caller.ghost_args.get(C.fn) if caller is not None else None
            if binder is not None:
                cnt = c.ghost.setdefault("call_counts", {})
                idx = cnt.get(C.fn, 0)
                cnt[C.fn] = idx + 1
                gvals = call_by_name(binder, dict(c.ghost.get("caller_args", {}), call_index=idx, callee_args=bound))
        env = dict(bound)
        if gvals is not None:
            env.update(gvals)
        # the declared input cases are implicit preconditions: a parameter that is a constant in every
        # case of the contract (e.g. shape=None, padding=None) must have one of those values here
        for pname, allowed in C.const_params(raw_fn).items():
            if pname in bound:
                v = bound[pname]
                ok = any((v is a) or (type(v) is type(a) and not isinstance(v, SymBase) and v == a) for a in allowed)
                if not ok and isinstance(v, SymBase):
                    ok = None
                if ok is not True:
                    c.check(False if ok is False else sym.SymBool(z3.Or(*[sym.to_bool_term(v == a) for a in allowed if isinstance(a, (int, float))] or [z3.BoolVal(False)])), f"call-pre:{C.fn}#case:{pname}", kind="call-pre", callee=C.fn, note=f"argument {pname}={v!r} is outside the input cases the contract of {C.fn} covers ({allowed!r})")
        # ... and so are the declared ranges of numeric parameters and the relations that tie a
        # `Derived` parameter to the (ghost) inputs it is computed from: the body was verified only
        # for arguments of that form
        if C.verify and C.inputs is not None and (gvals is not None or not ghosts):
            adm = shapes_admit(C, bound, env)
            if adm is not True:
                c.check(adm, f"call-pre:{C.fn}#shape", kind="call-pre", callee=C.fn, note=f"the arguments are outside every input case of the contract of {C.fn} (numeric ranges / derived-argument relations)")
                c.assume(adm)
        ghost_reqs = []
        for i, r in enumerate(C.requires):
            uses_ghost = bool(ghosts and set(inspect.signature(r).parameters) & ghosts)
            if uses_ghost and gvals is None:
                ghost_reqs.append(r)
                continue
            try:
                v = call_by_name(r, env)
            except VcAbort:
                raise
            except Exception as e:  # pylint: disable=broad-except
                v = False
                c.notes.append(f"requires of {C.fn} not evaluable: {e!r}")
            c.check(v, f"call-pre:{C.fn}#{i}", kind="call-pre", callee=C.fn)
            c.assume(v)
        c.ghost["mode"] = "assume"
        if C.old is not None:
            env["old"] = call_by_name(C.old, env)
        for exc_t, when in C.raises:
            if bool(call_by_name(when, env)):
                raise exc_t(f"[pyvc stub of {C.fn}]")
        if C.modifies is not None:
            from .loops import fresh_like

            for locn in call_by_name(C.modifies, env):
                havoc_location(locn)
        if C.returns is None:
            raise Unsupported(f"contract of {C.fn} has no `returns` shape; cannot be used as a stub")
        shp = call_by_name(C.returns, env)
        res = make_value(shp, f"ret.{C.fn.split(':')[-1]}")
        env["result"] = res
        c.ghost["calls"][C.fn][-1] = dict(bound, __result__=res)
        for label, e in C.labelled_ensures():
            used = set(inspect.signature(e).parameters) & ghosts
            if not used or gvals is not None:
                c.assume(call_by_name(e, env))
            else:
                c.assume(_forall_ghosts(C, c, e, env, ghost_reqs), fact=True)
        return res

    stub.__name__ = getattr(raw_fn, "__name__", "stub")
    stub.__vc_stub_of__ = C.fn
    return stub


def _struct_eq(a, b, depth=0):
    """structural equality of two values as a SymBool / bool, or None when their type is not one that is
    compared field by field here (then the relation is left unchecked).  Numbers, sequences of the same
    length, slices, and the repository's record types (XY family, BoundingBox, GeoBox: shape + affine + CRS)."""
    num = lambda x: isinstance(x, (SymInt, SymReal)) or (isinstance(x, (int, float)) and not isinstance(x, bool))
    if a is b:
        return True
    if num(a) and num(b):
        return a == b
    if a is None or b is None or isinstance(a, (str, bool)) or isinstance(b, (str, bool)):
        return a == b if type(a) is type(b) else False
    if depth > 4:
        return None

    def conj(pairs):
        acc = True
        for x, y in pairs:
            r = _struct_eq(x, y, depth + 1)
            if r is None:
                return None
            if r is False:
                return False
            if r is not True:
                acc = r if acc is True else SymBool(z3.And(sym.to_bool_term(acc), sym.to_bool_term(r)))
        return acc

    if isinstance(a, (tuple, list)) and isinstance(b, (tuple, list)):
        if len(a) != len(b):
            return False
        return conj(zip(a, b))
    if isinstance(a, slice) and isinstance(b, slice):
        return conj([(a.start, b.start), (a.stop, b.stop), (a.step, b.step)])
    ta, tb = type(a).__name__, type(b).__name__
    if ta != tb:
        return None
    if ta in ("XY", "Resolution", "Index2d", "Shape2d") and hasattr(a, "xy"):
        return conj([(a.x, b.x), (a.y, b.y)])
    if ta == "Affine":
        return conj(zip(tuple(a)[:6], tuple(b)[:6]))
    if ta == "BoundingBox":
        r = conj(zip(tuple(a._box), tuple(b._box)))
        return r if (r is None or r is False) else (r if a.crs is b.crs or a.crs == b.crs else False)
    if ta == "GeoBox":
        r = conj([(a.shape, b.shape), (a.affine, b.affine)])
        return r if (r is None or r is False) else (r if a.crs is b.crs or a.crs == b.crs else False)
    return None


def shape_admits(shape, v, env):
    """True / False / SymBool: does value `v` lie in `shape`?  Only what a proof relied on is checked:
    numeric ranges, constants, derived relations, tuples thereof; object shapes are admitted as is
    (their invariants are `requires` clauses)."""
    from .contract import Const, Int, Real, Tup

    num = lambda x: isinstance(x, (SymInt, SymReal)) or (isinstance(x, (int, float)) and not isinstance(x, bool))
    if isinstance(shape, Derived):
        try:
            want = call_by_name(shape.fn, env)
        except VcAbort:
            raise
        except Exception:  # pylint: disable=broad-except
            return True
        if num(want) and num(v):
            return v == want
        r = _struct_eq(v, want)
        return True if r is None else r
    if isinstance(shape, (Int, Real)):
        if not num(v):
            return False if (v is None or isinstance(v, (str, tuple, list))) else True
        cs = []
        for op, b in (("ge", getattr(shape, "ge", None)), ("le", getattr(shape, "le", None)), ("gt", getattr(shape, "gt", None)), ("lt", getattr(shape, "lt", None))):
            if b is None:
                continue
            cs.append(v >= b if op == "ge" else v <= b if op == "le" else v > b if op == "gt" else v < b)
        out = True
        for x in cs:
            if isinstance(x, SymBool):
                out = x if out is True else SymBool(z3.And(sym.to_bool_term(out), x.t))
            elif not x:
                return False
        return out
    if isinstance(shape, Const):
        a = shape.v
        if a is None or isinstance(a, (bool, str)):
            if isinstance(v, SymBase):
                return False if a is None or isinstance(a, str) else True
            return (v is a) or (type(v) is type(a) and v == a)
        if isinstance(a, (int, float)):
            import math as _m

            if isinstance(a, float) and not _m.isfinite(a):
                if isinstance(v, SymBase):
                    return False  # symbolic reals are finite
                return isinstance(v, float) and (v == a or (_m.isnan(a) and _m.isnan(v)))
            if isinstance(v, (SymInt, SymReal)):
                return v == a
            return isinstance(v, (int, float)) and not isinstance(v, bool) and v == a
        return True
    if isinstance(shape, Tup):
        if not isinstance(v, (tuple, list)):
            return True
        if len(v) != len(shape.elems):
            return False
        out = True
        for e, x in zip(shape.elems, v):
            r = shape_admits(e, x, env)
            if r is False:
                return False
            if r is not True:
                out = r if out is True else SymBool(z3.And(sym.to_bool_term(out), sym.to_bool_term(r)))
        return out
    return True


def shapes_admit(C: Contract, bound, env):
    """disjunction over the input cases of the contract"""
    alts = []
    for cs in C.cases():
        acc = True
        if any(p not in bound and p not in env for p in cs):
            continue  # a case with ghost inputs this call site does not provide (another family size)
        for p, shape in cs.items():
            if p not in bound:
                continue
            r = shape_admits(shape, bound[p], env)
            if r is False:
                acc = False
                break
            if r is not True:
                acc = r if acc is True else SymBool(z3.And(sym.to_bool_term(acc), sym.to_bool_term(r)))
        if acc is True:
            return True
        if acc is not False:
            alts.append(acc)
    if not alts:
        return False
    if len(alts) == 1:
        return alts[0]
    return SymBool(z3.Or(*[sym.to_bool_term(a) for a in alts]))


def _forall_ghosts(C: Contract, c: Ctx, clause, env, ghost_reqs):
    """forall ghost inputs (within their shapes and ghost preconditions): clause."""
    from .contract import Int, Real, Tup

    case0 = C.cases()[0]
    ghosts = [g for g in case0 if g not in env]
    bound_vars = []
    antecedents = []
    genv = dict(env)

    def mk(shape, name):
        if isinstance(shape, Int):
            v = z3.Int(c.fresh_name(f"g.{name}"))
            bound_vars.append(v)
            sv = SymInt(v)
            if shape.ge is not None:
                antecedents.append(v >= shape.ge)
            if shape.le is not None:
                antecedents.append(v <= shape.le)
            return sv
        if isinstance(shape, Real):
            v = z3.Real(c.fresh_name(f"g.{name}"))
            bound_vars.append(v)
            return SymReal(v)
        if isinstance(shape, Tup):
            return tuple(mk(e, f"{name}.{i}") for i, e in enumerate(shape.elems))
        raise Unsupported(f"ghost input {name} of shape {shape.describe()} cannot be quantified in a stub")

    # tuple-shaped ghosts must match the arity of this call: pick the case whose ghost arity fits
    for g in ghosts:
        shape = case0[g]
        if isinstance(shape, Tup):
            for cs in C.cases():
                ok = True
                for k, v in env.items():
                    if k in cs and isinstance(v, tuple) and isinstance(cs[k], Tup) and len(cs[k].elems) != len(v):
                        ok = False
                if ok:
                    shape = cs[g]
                    break
        genv[g] = mk(shape, g)
    c.quant_depth += 1
    try:
        for r in ghost_reqs:
            antecedents.append(sym.to_bool_term(call_by_name(r, genv)))
        if C.verify and C.inputs is not None:
            adm = shapes_admit(C, {k: v for k, v in env.items() if k not in ghosts}, genv)
            if adm is not True:
                antecedents.append(sym.to_bool_term(adm) if adm is not False else z3.BoolVal(False))
        body = sym.to_bool_term(call_by_name(clause, genv))
    finally:
        c.quant_depth -= 1
    if antecedents:
        body = z3.Implies(z3.And(*antecedents), body)
    return SymBool(z3.ForAll(bound_vars, body)) if bound_vars else SymBool(body)


def install_stubs(exclude: Optional[str], unstub=()):
    """Replace every contracted, non-inline function except `exclude` by its contract."""
    assert not _PATCHES
    for ref, C in CONTRACTS.items():
        if C.kind != "function" or C.inline or ref == exclude or ref in unstub:
            continue
        try:
            mod, owner, attr, raw = shadow.resolve(ref)
        except (KeyError, AttributeError, ImportError) as e:
            # a contract on a function that does not exist (renamed / moved / defined on a base class)
            # would silently leave the real body in place: that is a checker error, not a skip
            raise RuntimeError(f"contract target {ref} cannot be resolved in the tree under verification: {type(e).__name__}: {e}") from e
        if isinstance(raw, staticmethod):
            fn = raw.__func__
            new = staticmethod(make_stub(C, fn))
        elif isinstance(raw, classmethod):
            fn = raw.__func__
            new = classmethod(make_stub(C, fn))
        elif isinstance(raw, property):
            fn = raw.fget
            new = property(make_stub(C, fn))
        else:
            fn = raw
            new = make_stub(C, fn)
        _patch(owner, attr, raw, new)
        # `from .math import align_up` style aliases in other shadow modules
        if not isinstance(owner, type):
            import sys

            for mname, m in list(sys.modules.items()):
                if m is None or not getattr(m, "__vc_shadow__", False) or m is owner:
                    continue
                for k, v in list(m.__dict__.items()):
                    if v is raw:
                        _patch(m, k, raw, new)


def _patch(owner, attr, old, new):
    _PATCHES.append((owner, attr, old))
    setattr(owner, attr, new)


def remove_stubs():
    while _PATCHES:
        owner, attr, old = _PATCHES.pop()
        setattr(owner, attr, old)


# ----------------------------------------------------------------------------------------------
# exploring one (contract, case)
# ----------------------------------------------------------------------------------------------


def _target_callable(C: Contract):
    if C.kind == "lemma":
        return C.body, None
    mod, owner, attr, raw = shadow.resolve(C.fn)
    if isinstance(raw, (staticmethod, classmethod)):
        return raw.__func__, raw
    if isinstance(raw, property):
        return raw.fget, raw
    return raw, raw


def explore_case(C: Contract, case_idx: int, case: Dict[str, Shape], max_paths=None, budget_s=None) -> dict:
    """Explore all paths of one input case; returns a picklable result."""
    fn, raw = _target_callable(C)
    is_cm = isinstance(raw, classmethod)
    max_paths = max_paths or C.max_paths
    state = {"args": None}
    rec = Recorder(C, case_idx, lambda: state["args"])
    worklist: List[List[bool]] = [[]]
    paths = 0
    ended = 0
    undecided: List[dict] = []
    outcomes = {"return": 0, "raise": 0}
    t_start = time.time()
    USED_STUBS.clear()
    install_stubs(exclude=C.fn, unstub=tuple(C.unstub))
    try:
        while worklist:
            if paths >= max_paths:
                undecided.append(dict(case=case_idx, reason=f"path budget {max_paths} exhausted", path=[]))
                break
            if budget_s is not None and time.time() - t_start > budget_s:
                undecided.append(dict(case=case_idx, reason=f"time budget {budget_s}s exhausted", path=[]))
                break
            prefix = worklist.pop()
            c = Ctx(prefix, on_obligation=rec)
            set_ctx(c)
            paths += 1
            try:
                args = {k: make_value(s, k) for k, s in case.items() if not isinstance(s, Derived)}
                for k, s_ in case.items():
                    if isinstance(s_, Derived):
                        args[k] = call_by_name(s_.fn, args)
                args = {k: args[k] for k in case}
                # witnesses describe the pre-state: keep copies of top-level mutable proxies
                state["args"] = {k: (v.copy() if hasattr(v, "havoc_inplace") else v) for k, v in args.items()}
                c.ghost["caller_contract"] = C
                c.ghost["caller_args"] = args
                c.ghost["mode"] = "assume"
                for r in C.requires:
                    c.assume(call_by_name(r, args))
                c.ghost["mode"] = "claim"
                env = dict(args)
                if C.old is not None:
                    env["old"] = call_by_name(C.old, args)
                try:
                    if C.kind == "lemma":
                        result = fn(**args)
                    elif is_cm:
                        mod, owner, attr, _ = shadow.resolve(C.fn)
                        result = call_fn(fn, args, owner)
                    else:
                        result = call_fn(fn, args)
                    if inspect.isgenerator(result):
                        result = list(result)
                    outcome = ("return", result)
                except VcAbort:
                    raise
                except RecursionError as e:
                    raise Unsupported(f"recursion: {e}")
                except Exception as e:  # pylint: disable=broad-except
                    gap = ghost_gap(e)
                    if gap:
                        raise Unsupported(gap)
                    outcome = ("raise", e)
                outcomes[outcome[0]] += 1
                _check_outcome(C, c, env, outcome)
            except PathEnd:
                ended += 1
            except Unsupported as e:
                tb = traceback.extract_tb(e.__traceback__)
                where = ""
                for fr in reversed(tb):
                    if "/pyvc/" not in fr.filename:
                        where = f"{os.path.basename(fr.filename)}:{fr.lineno}"
                        break
                undecided.append(dict(case=case_idx, reason=f"Unsupported: {e}", where=where, path=list(c.decisions)))
            finally:
                worklist.extend(c.pending)
                set_ctx(None)
    finally:
        remove_stubs()
    return dict(
        contract=C.fn,
        case=case_idx,
        case_desc=describe_case(case),
        paths=paths,
        paths_cut=ended,
        outcomes=outcomes,
        instances=rec.instances,
        undecided=undecided,
        solver_time=round(rec.solver_time, 3),
        by_backend=rec.by_backend,
        used_stubs=sorted(USED_STUBS),
        models_used=sorted(__import__("pyvc.npmodel", fromlist=["x"]).MODELS_USED),
        wall=round(time.time() - t_start, 3),
    )


def _check_outcome(C: Contract, c: Ctx, env: dict, outcome):
    kind, val = outcome
    if kind == "return":
        env = dict(env, result=val)
        for exc_t, when in C.raises:
            w = _eval_clause(c, when, env, f"raises[{exc_t.__name__}]")
            c.check(_neg(w), f"no-raise-when:{exc_t.__name__}", kind="exc-iff", note=f"returned normally although {exc_t.__name__} is required here")
        for label, e in C.labelled_ensures():
            v = _eval_clause(c, e, env, label)
            c.check(v, f"post:{label}", kind="post")
    else:
        exc = val
        env = dict(env, exc=exc)
        matched = False
        for exc_t, when in C.raises:
            if isinstance(exc, exc_t):
                matched = True
                w = _eval_clause(c, when, env, f"raises[{exc_t.__name__}]")
                c.check(w, f"raise-only-when:{exc_t.__name__}", kind="exc-iff", note=f"raised {type(exc).__name__}: {exc}")
        if not matched:
            tb = traceback.extract_tb(exc.__traceback__)
            where = ""
            for fr in reversed(tb):
                if "/pyvc/" not in fr.filename:
                    where = f"{os.path.basename(fr.filename)}:{fr.lineno}"
                    break
            label = "internal-assert" if isinstance(exc, AssertionError) else type(exc).__name__
            if os.environ.get("PYVC_DUMP"):
                traceback.print_exception(type(exc), exc, exc.__traceback__, file=sys.stderr)
            c.check(False, f"no-exception:{label}@{where}", kind="noexc", note=f"{type(exc).__name__}: {str(exc)[:200]}")


def ghost_gap(exc):
    """An AttributeError raised because a STAND-IN collaborator of a data-flow lemma (an object or class defined in a
    contracts module) lacks an attribute the code under verification now uses is a gap of the stand-in, not a failure
    of the code: the case is UNDECIDED, never a violation."""
    if isinstance(exc, AttributeError):
        obj = getattr(exc, "obj", None)
        cls = obj if isinstance(obj, type) else type(obj)
        mod = getattr(cls, "__module__", "") or ""
        if obj is not None and (mod.startswith("contracts.") or mod == "contracts"):
            return f"stand-in {cls.__name__} (contracts) has no attribute {getattr(exc, 'name', '?')!r}: the data-flow lemma's collaborators do not model what the code uses now"
    return None


def _neg(v):
    from . import spec

    return spec.Not(v)


def _eval_clause(c: Ctx, fn, env, label):
    try:
        return call_by_name(fn, env)
    except VcAbort:
        raise
    except Exception as e:  # pylint: disable=broad-except
        c.notes.append(f"clause {label} not evaluable on this outcome: {type(e).__name__}: {e}")
        return False
