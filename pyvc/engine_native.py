"""pyvc.engine_native -- native (concrete) evaluation helpers used by replay and bounded checks."""
from __future__ import annotations

from .callutil import call_by_name as call_by_name_native  # noqa: F401
from .callutil import call_fn  # noqa: F401

CLAIM_FAILURES: list = []
