"""Generate MANIFEST.json from the table below (kept in one place so it stays valid)."""
import json

CLAIMS = {
    "C17": dict(
        text="Deductive proof, for all integers (array lengths, slice bounds incl. None/negative/reversed, pads, scales) of the ROI helper contracts of roi.py against CPython's slice semantics; roi_from_points and the perimeter samplers are not yet under contract.",
        note="pyvc VC generator over the shadow-loaded real source + z3/cvc5; py_slice_bounds oracle self-checked against CPython every run; N-d wrappers for 1-3 axes",
        technique="contract-based deductive verification: sidecar pre/postconditions, VCs from symbolic execution of the real source, z3 then cvc5, counterexamples replayed on the real code",
        design_ref="DESIGN.md §2 C17",
    ),
}
CLAIMS["C20"] = dict(
    text="Deductive proof over the reals/integers of the scalar helper contracts of math.py: split_float, maybe_int/is_almost_int (agreement), snap_scale (+idempotence), snap_affine (component-wise exact post), align_down/up/_pow2, clamp, _snap_edge_pos/_snap_edge/snap_grid (covers up to tol / aligned / minimal, stated in pixel units), Bin1D (+ neighbour, lookup-inverse and rebuild lemmas), data_resolution_and_offset / affine_from_axis on regularly spaced labels, is_affine_st, split_translation. Poly2d: input normalisation = the affine it was built with and with_input_transform composes (polynomial identities), fit dispatch by number of points (symbolic N); 1/<int> hint lemma. The numerical linear algebra (decompose_rws, affine_from_pts, the least-squares fits themselves) is NOT proved: BOUNDED native check.",
    note="floats are reals (A1); log2 enters through the axiom 2**(n-1) < x <= 2**n for n=ceil(log2 x); the composed snap_affine idempotence lemma is not claimed (solver unknown), its two component lemmas are",
    technique="contract-based deductive verification: sidecar pre/postconditions + lemmas over contracts, VCs from symbolic execution of the real source, z3 then cvc5, counterexamples replayed on the real code",
    design_ref="DESIGN.md §2 C20",
)
CLAIMS["C06"] = dict(
    text="Deductive proof of the multi-part assembly: representation invariant wf(chunk, writer, ghost) -- left_data ++ parts ++ data is exactly one segment of the global byte stream, parts adjacent with strictly increasing ids inside the chunk's id window and the writer's range, every part >= min_write_sz, enough kept back to always finish, observed = ordered (size,id) list -- is preserved by append, maybe_write, flush_rhs and merge for ARBITRARY well-formed adjacent operands (hence every merge tree / dask fold shape, any spill_sz >= 1, any writer limits), by the append-loop operator (loop invariant, unbounded number of chunks) and the fold operator; flush and _finalizer_dask_op then hand finalise exactly header ++ data ++ footer as adjacent parts with unique increasing in-range ids, all but the last >= minimum size; header/footer callbacks observe the complete ordered list; no internal assert can fail.",
    note="bytes are abstracted to stream segments (content-parametric operations only); the PartsWriter is a ghost object; _mpu_collate_op is unrolled for 1-3 sub-streams and gen_bunch for 0,1,2,4 partitions; dask's fold/from_sequence/map_partitions semantics (adjacent, in-order combination) and the id arithmetic inside mpu_write/from_dask_bag (dask objects) are assumed; max_write_sz is enforced by nothing in the module and is not claimed",
    technique="contract-based deductive verification: data-structure invariant + abstract view over ghost stream positions, quantified array invariants, loop invariant, modular stubs; z3 (cvc5 fallback); counterexamples replayed on the real code through a content-based native oracle",
    design_ref="DESIGN.md §2 C06",
)
TECH = "contract-based deductive verification: sidecar pre/postconditions, data-structure invariants, lemmas over contracts; VCs from symbolic execution of the real (shadow-loaded) source, z3 then cvc5; counterexamples replayed on the real code"
CLAIMS["C04"] = dict(
    text="Deductive proof, for all image/tile sizes and indices, that regular (Tiles) and variable (VariableSizedTiles) tilings are exact partitions: tile (r,c) is [o(r),o(r+1)) x [o(c),o(c+1)) with o(k)=min(k*n,N) resp. prefix sums; lemmas: tiles abut, first starts at 0, last ends at the base, non-empty; tile_shape/chunks are the region sizes; locate inverts region lookup; crop/clip_tiles give the re-based tiling (crop closed form by an induction scheme); IndexError exactly outside the tiling. GeoboxTiles indexing is C12; N-d block assembly (BlockAssembler.extract, numpy plumbing) only by a BOUNDED native check against the dense mosaic.",
    note="VariableSizedTiles.__init__ (numpy cumsum in int32) is an ASSUMED contract with a BOUNDED native check; numpy searchsorted/diff/min/max enter through stated library models; clip_tiles for selections of 1-3 tiles",
    technique=TECH, design_ref="DESIGN.md §2 C04")
CLAIMS["C08"] = dict(
    text="Deductive proof over the reals that GeoBox.from_bbox (resolution-driven: every anchor spelling x tight x sign of each resolution component; shape-driven: every anchor x tight) has exactly the requested pixel size/orientation or shape, covers the region up to tol, exceeds it by < 1 pixel (+tol) per side, has its pixel edges at the anchor fraction, and is not moved at all when snapping is off; from_geopolygon with the deprecated align=. Stated in pixel units so every VC is linear.",
    note="floats are reals (A1); the zero-span region corner case gets exactly one pixel (<= instead of <); reprojection inside from_geopolygon(crs=...) is pyproj's and not decided",
    technique=TECH, design_ref="DESIGN.md §2 C08")
CLAIMS["C14"] = dict(
    text="Deductive proof for all tile shapes, resolutions of either sign, origins, flips and indices: Bin1D lemmas (bins are [o+i*d*sz,+sz), neighbours share their edge, lookup inverts indexing, rebuild from a sample bin), GridSpec constructor invariant, a tile's GeoBox has exactly the footprint xbin[ix] x ybin[iy] and the specified shape/resolution, pt2idx containment, idx_bounds <=> bins met by the shrunk query (ghost index), rebuild from any sample tile, web_tiles = slippy-map extents with 2**z tiles per side.",
    note="tiles()/tiles_from_geopolygon (range loops + shapely filter) only by a BOUNDED native check against brute force; polygon reprojection not decided; geom.box is an assumed contract; exactness of shared edges is in the reals (A1)",
    technique=TECH, design_ref="DESIGN.md §2 C14")
CLAIMS["C16"] = dict(
    text="Deductive proof: bounding-box union/intersection are component-wise min/max with CRS check and obey the lattice laws (lemma); pixel_translation returns the exact shift for any invertible base grid and rejects other CRS / non-unit linear part; bounding_box_in_pixel_domain gives the integer pixel rectangle and rejects sub-pixel offsets beyond tol; union/intersection of 1-3 GeoBoxes on a common grid are the bounding/shared pixel rectangle (empty -> zero-size GeoBox) placed at base*T(corner); overlap_roi indexes exactly the shared pixels within self; snap_to moves by <= 1/2 pixel onto the other grid; translate_pix.",
    note="polynomial identities over the six affine coefficients (NRA); numpy.isclose thresholds taken from the code; GeoBox.enclosing over a ghost pixel-plane image of the region (the projection itself assumed); commutativity of | and & and associativity of | are machine-checked lemmas over the contracts (each intermediate result re-described as a family on its own first member's grid, the description checked structurally at the call site); an empty intersection is placed relative to its first operand, so & commutes on placement only when a pixel is shared",
    technique=TECH, design_ref="DESIGN.md §2 C16")
CLAIMS["C02"] = dict(
    text="Deductive proof (polynomial identities over the six affine coefficients, any invertible affine: mirrored, non-square, rotated, sheared): pix2wld/wld2pix are mutual inverses; bounding box contains all four corner images and is tight; footprint ring = the four corner images in ring order; every view-changing operation (indexing/cropping incl. negative/open-ended/int forms, pad, pad_wh, crop/expand, translate_pix, flipx/flipy, left/right/top/bottom, zoom_out, zoom_to(shape), scaled_down_geobox, rotate about the centre, center_pixel, __mul__/__rmul__) returns a GeoBox with the same CRS, the prescribed shape and affine == old.affine * M for the documented pixel-space map M; covering where documented.",
    note="cos/sin are uninterpreted with cos^2+sin^2=1; coordinates (numpy.arange through its arithmetic-progression model), buffered and resolution are proved for axis-aligned grids only (rotated grids use decompose_rws: not decided); GCP GeoBoxes, zoom_to(resolution=) beyond its from_bbox call, and Geometry/BoundingBox crop regions (pyproj/shapely) are NOT decided; geom.polygon is an assumed thin wrapper",
    technique=TECH, design_ref="DESIGN.md §2 C02")
CLAIMS["C18"] = dict(
    text="Rely/guarantee proof of DelayedS3Writer._ensure_init/__call__/finalise over the real code, both in-process (shared object + process lock) and cluster (Variable + distributed Lock) branches: with arbitrary interference by any number of other workers at every shared read and at lock acquisition, create_multipart_upload is issued only under the lock and only when no upload exists (lock invariant re-established at release), initiate()'s precondition holds, every part goes out under the one id, no assert fails. File sink: each accessor returns the value configured under its own keyword else its default (all 16 keyword combinations, symbolic values), maxima above minima.",
    note="assumes sequential consistency / atomic attribute access (GIL) and a linearisable Variable/Lock; Variable.get time-outs are faults outside the quantifier; liveness not addressed; MPUFileSink.__call__/finalise (file-system effects) only by a BOUNDED native check on a scratch directory; abstract counterexamples are concretised by a native turn-based scheduler enumerating 2-worker schedules of the real code",
    technique="contract-based deductive verification with rely/guarantee (lock invariant, havoc at shared reads); z3; replay through a native schedule enumerator", design_ref="DESIGN.md §2 C18")
CLAIMS["C19"] = dict(
    text="Record-level deductive proof for XY family, Shape2d, BoundingBox, GeoBox, Tiles, GeoboxTiles (fields symbolic, CRS concrete): == is reflexive/symmetric/transitive, equal hashable objects have equal hashes (hash = uninterpreted function of exactly the compared fields), objects sharing a dask token are equal and equal objects share theirs. CRS: structural obligations on the source -- the CRS cache is a plain dict that nothing ever evicts from, every CRS._crs is a value held by it, the transformer cache key is (id(a._crs), id(b._crs), always_xy) -- so a cached transformer always converts between exactly the two systems; __ne__ is not __eq__; CRS never equals None.",
    note="Geometry (shapely equality, pickle), GCPGeoBox, GridSpec, VariableSizedTiles and pickling / copying of every type are NOT proved: BOUNDED native catalogue (10 types x families of 3-9 near-identical objects, each built twice, copied, pickled; all pairs and triples), with the KNOWN FINDING that GCPGeoBox equality is by identity of its mapping; CRS equality/hash/token across construction routes and histories involve concrete pyproj objects: BOUNDED native catalogue (4 CRSs x 8 routes; 40 histories in fresh interpreters), with two recorded KNOWN FINDINGS (hash by spelling; cache-key collision / history dependence)",
    technique=TECH + "; structural (AST) obligations for the cache lifetime invariant", design_ref="DESIGN.md §2 C19")
CLAIMS["C03"] = dict(
    text="Deductive proof for same-CRS pairs related by scale+translation: compute_axis_overlap / box_overlap keep both regions inside their images and never drop a destination pixel whose centre maps inside the source (ghost pixel, all sizes, any real scale != 0 and shift); _pick_read_scale is a positive integer, exact (1 below 1, nearest integer within tol, else floor); compute_reproject_roi for exact integer scale k in {1..5} x either orientation x any shift x any invertible source grid: read_shrink == k, regions inside the images (source up to the next multiple of k), no needed pixel dropped; native_pix_transform is inv(dst)*src.",
    note="the sampled path (rotation, fractional scale, sub-pixel shift beyond ttol, other CRS: numpy float32 boundary sampling, roi_from_points, pyproj) is NOT proved: assumed stub + BOUNDED native brute force over every destination pixel of 100 pairs incl. 16 cross-CRS; get_scale_from_linear_transform (Cholesky) assumed for axis-aligned input + bounded; 'scale at the centre of the overlap' for non-linear transforms (lstsq) not decided; symbolic k is non-linear for both solvers, hence the enumeration",
    technique=TECH, design_ref="DESIGN.md §2 C03")
CLAIMS["C10"] = dict(
    text="Deductive proof against the nearest-neighbour specification NN(d) = floor(A(d+1/2)): _can_paste reports paste-ability only for no rotation/shear (>= 1e-10), integer scale within stol, both axes within stol of it and whole-pixel shift within ttol; with read_shrink == 1 and the ACTUAL unsnapped transform (scale exactly +-1, |residue| < ttol <= 1/4): d in roi_dst <=> NN(d) inside the source, NN(d) = the pixel at the same (mirrored) offset in roi_src, equal sizes -- i.e. the copy is the warp; with read_shrink = k in {2..5}: roi_src is roi_dst scaled by k.",
    note="GDAL's nearest resampling is ASSUMED to compute NN in the proofs -- a BOUNDED native check compares the paste plan (read_shrink == 1: copy roi_src into roi_dst, mirrored where needed) with the real rasterio nearest warp of the whole destination for 59 placements (whole-pixel shifts x residues up to and beyond ttol x plain / mirrored x shapes); near-integer scales k(1+delta) within stol are accepted by the code but excluded from the NN clause (drift delta*d exceeds half a pixel on images wider than 1/(2 delta)); pixel types (int8/bool detours in warp.py) are numpy/GDAL and not decided",
    technique=TECH, design_ref="DESIGN.md §2 C10")
CLAIMS["C12"] = dict(
    text="Deductive proof for pixel-space queries on regular tilings: GeoboxTiles.range_from_bbox returns index ranges that contain every tile whose pixel rectangle meets the box (ghost tile, all sizes), stay within the tiling, and are empty for a box strictly outside the raster; pix_bbox and GeoboxTiles[idx] are the tile's region / the parent cropped to it; Tiles/VariableSizedTiles.locate inverts region lookup (C04).",
    note="geometry / CRS-carrying queries (pyproj projection + shapely predicates), itertools enumeration, and both grid_intersect paths are NOT proved: BOUNDED native checks against brute force over all tiles (504 queries on north-up/mirrored/rotated/sheared rasters, regular+variable tilings, same and other CRS) and all tile pairs (34 raster pairs incl. touching, disjoint and cross-CRS)",
    technique=TECH, design_ref="DESIGN.md §2 C12")
CLAIMS["C05"] = dict(
    text="Second sentence of the property only (layout arithmetic): deductive proof that tile sides are multiples of 16 (requested size, or the image side for smaller images, rounded up), num_overviews (loop invariant dim == floor(dim0/2**c), termination) leaves a side that fits a block, compute_cog_spec pads each side upwards by < 2**levels to a multiple of 2**levels, a multiple of 2m halves exactly to a multiple of m (each overview exactly half), cog_gbox/expand keep origin and grid (padding on the right/bottom only), yaxis_from_shape, CogMeta tile grid = ceil division, flat_tile_idx = row-major rank, IndexError exactly outside, injective and onto [0, num_tiles) (lemma); structural obligation: tile bags written in reverse creation order (overviews first), header from _patch_hdr for both sinks.",
    note="That independent TIFF readers decode the original pixels/transform/CRS/nodata (tifffile, imagecodecs, GDAL, dask scheduling) is NOT proved: BOUNDED native round trip of save_cog_with_dask (7 fixed + 24 quick / 120 thorough combinations of shape incl. single row/column and narrower than a tile x YX/YXS/SYX x dtype x nodata x block-size list x compression/predictor x chunking x spill size x writes per chunk x scheduler), read back with rasterio AND tifffile, incl. padding rule, halving, multiples of 16, offsets without gaps/overlaps, overviews first. _extract_tile_info (offset table = prefix sums, no gaps/overlaps) and _make_empty_cog (page layout through tifffile) only by BOUNDED native checks (36 pyramids; 240 shape/blocksize/layout combinations incl. single-row/column images); completeness of the observed stream is C06's postcondition; 2**n through the pow2 axioms",
    technique=TECH + "; loop invariant for num_overviews; structural (AST) obligation for the write order", design_ref="DESIGN.md §2 C05")
CLAIMS["C01"] = dict(
    text="Deductive proof over an abstract CRS domain (none / symbolic equivalence class per operand) of the guard logic, running the REAL code on stand-in operands: all 16 @wrap_shapely methods, Geometry.split, common_crs, multigeom, unary_union, unary_intersection, geom.intersects (collections of 1-3 operands, every tag combination): a ValueError (CRSMismatchError) is raised iff some operand's CRS differs from the first's (incl. exactly one without a CRS), before anything is combined; otherwise the result is the SAME shapely operation on the raw shapes, tagged with the first operand's CRS. Bounding-box union/intersection, pixel_translation, bounding_box_in_pixel_domain, GeoBox union/intersection/overlap_roi/snap_to carry the same guard in their C16 contracts. Census (structural): every operation of geom.py/geobox.py taking >= 2 CRS-tagged operands has a guard contract or a stated exemption.",
    note="pyproj CRS equality is ASSUMED to be an equivalence relation; shapely is replaced by a ghost shape algebra (operations are pure and identified by name); 'the same CRS in another spelling compares equal' and agreement with real shapely results are exercised only by the BOUNDED native catalogue (4 CRS tags squared x 4 geometry-kind pairs x 21 operations)",
    technique=TECH + "; structural census of the API", design_ref="DESIGN.md §2 C01")
CLAIMS["C07"] = dict(
    text="Deductive proof for densify() on a polyline with ANY number of vertices (outer for-loop over the edges under an invariant) and any number of inserted points per edge (inner while loop under an invariant), any position / direction / resolution: first and last vertex kept, no vertex dropped, every consecutive pair of the output within the resolution, each inserted point on its edge at a multiple of the resolution from the edge's start; an edge is skipped only when it is short enough. Two facts of plane geometry / real arithmetic (collinear points at arcs a, b are |b - a| apart; squares are monotone on non-negatives) are proved once and applied in the invariants. Data-flow lemma on the real Geometry.to_crs over ghost collaborators: what is projected (and chopped at the antimeridian) is segmented(resolution) of the receiver on every branch, densified before projecting, repaired only when asked and invalid. Structural obligation: the transformer cache key contains always_xy.",
    note="shapely LineString.length / interpolate are ASSUMED (Euclidean length; interpolate(d) = p + d e with e the unit vector of the segment); floats are reals. segmented() (type, ring/part structure, area/length, subsequence) and to_crs against pyproj (identity in the same CRS, ValueError without CRS, vertex-exact mapping, there-and-back) only by BOUNDED native checks (20 polylines, 36 geometry x resolution cases, 41 geometry x CRS cases); projection accuracy inside pyproj is not decided",
    technique=TECH + "; loop invariants (nested loops), stated lemmas applied in invariants", design_ref="DESIGN.md §2 C07")
CLAIMS["C11"] = dict(
    text="Deductive proof of the dispatch of the real compute_output_geobox over ghost collaborators, for every combination of {own CRS, other CRS with same / different units, utm request} x {auto, fit, same, number, Resolution, unknown keyword} x {no shape, (ny,nx), n} x anchor/tight x tol x round_resolution: the source is returned unchanged exactly for own CRS + default options; otherwise the result is GeoBox.from_bbox of the footprint's bounding box (buffer 0.9 source pixels, 100 points per side) in the CRS the footprint resolved to, with shape/tight/anchor/tol passed through and the resolution chosen by the documented rule (source resolution for same units, square inverted-Y mean of the centre-pixel fit otherwise, the explicit value, none when a shape is given). GeoBox.from_bbox (C08 contracts: covers the box up to tol, axis aligned, anchor alignment, < 1 pixel excess/displacement, exact shape) carries the enclosure of the footprint; footprint buffers by +0.9 x max|pixel size| for every grid orientation (lemma); utm / utm-n / utm-s: exhaustive enumeration of the 60 x 2 WGS84 zones x 5 spellings on the real norm_crs (same zone, requested hemisphere).",
    note="that the buffered, densified, projected footprint contains the projected position of every source pixel is shapely/pyproj geometry: ASSUMED, with a BOUNDED native end-to-end check (9 source grids incl. rotated/mirrored/south-up, metre and degree based, 8 km to continental x 6-8 target CRSs x 9-13 option sets = 576 requests, 729 source positions each); CRS.utm's choice of zone (pyproj database query + valid-area overlap) only by that bounded check; KNOWN FINDING: shape=<int> without tight gives N+1 pixels on the longest side",
    technique=TECH + "; exhaustive enumeration for the finite utm zone arithmetic", design_ref="DESIGN.md §2 C11")
CLAIMS["C15"] = dict(
    text="Deductive proof of the library's own part of the write, on the real code over a ghost file system / ghost rasterio that records every call: check_write_path (IOError iff the destination exists and overwriting was not requested, removed iff it exists and it was, untouched otherwise); _default_cog_opts (tiled, block sides = adjust_blocksize: multiples of 16, image side when smaller; predictor by dtype kind; caller's options kept); _norm_compression_opts (exact); _write_cog data flow for YX / band-first / band-last images with symbolic sides: overwrite guard once and before anything is opened (never for memory), band axis moved first, all pixels written once with band indexes 1..n (block by block when windowed), default overview levels (none under 512 px, 2..32 otherwise) or exactly the requested ones, built once after the pixels and before the single copy with copy_src_overviews, creation options of the final file = the image's size / band count / dtype / CRS / transform / nodata + tiling; write_cog / write_cog_layers: band axis by dimension name, nodata = explicit keyword else attribute else none for computed AND externally supplied overviews, every layer to its own side-car with its own GeoBox, one final copy.",
    note="that GDAL encodes and independent readers decode the same pixels / transform / CRS / nodata, and GDAL's actual block and overview layout, are GDAL/tifffile behaviour: ASSUMED, with a BOUNDED native round-trip check reading back with rasterio AND tifffile (18 fixed + 50 quick / 260 thorough combinations of shape x band layout x dtype incl. int8/float64 x nodata incl. nan via attrs or keyword x CRS x rotated x block size x overview lists x external overviews x windowed x intermediate compression x file/memory x existing destination with/without overwrite); the transform compared is the one of the DataArray handed to the writer (its GeoBox as recovered from the coordinates, C09)",
    technique=TECH + "; ghost file system / ghost I/O library recording the call sequence", design_ref="DESIGN.md §2 C15")
CLAIMS["C09"] = dict(
    text="Deductive proof of odc-geo's own part of the round trip, with xarray as a ghost container (a DataArray is a record that stores the values / dims / attrs / encoding it is given; positional slicing slices every coordinate variable by the same index): the REAL xr_coords followed by the REAL _locate_geo_info / _extract_transform / affine_from_axis / data_resolution_and_offset on symbolic grids -- (1) any axis-aligned GeoBox (any shape >= 1x1 incl. single row/column through the GeoTransform fallback, any pixel size of either sign, any origin, extra time/band dimension): one label per pixel = the world coordinate of its centre, and the recovered GeoBox has the same shape, the same affine and an equal CRS; (2) any rotated / sheared GeoBox: pixel-space labels + transform in the coordinate encoding, same result; (3) any arithmetic sub-progression of the labels per axis (= any positional slice incl. strided and reversed, >= 2 remaining pixels per axis): the recovered grid maps remaining pixel (i, j) to the world location original pixel (sx + i*kx, sy + j*ky) had.",
    note="floats are reals (A1): in floating point the rebuilt affine can differ from the original in the last bits (KNOWN FINDING C09-label-roundtrip-last-bits); float(str(x)) == x for the GeoTransform attribute is assumed. That the real xarray propagates coordinates / attrs / encoding this way through isel, arithmetic, astype, pickling, chunking, and the whole reprojection output (rasterio) are NOT proved: BOUNDED native check (26 GeoBoxes incl. GCP-based x 3 layouts x numpy/dask round trips; random operation sequences; 35 reprojections of DataArrays and Datasets). KNOWN FINDING: GCPGeoBox equality is by identity of the control-point mapping",
    technique=TECH + "; ghost container for the external object model", design_ref="DESIGN.md §2 C09")
CLAIMS["C13"] = dict(
    text="Deductive proof of odc-geo's own contribution to 'chunked == whole': resolve_fill_value over its complete decision structure (destination nodata, else source nodata, else NaN for floating point, else zero; result has the array's dtype); data flow of the real _do_chunked_reproject over ghost tilings / blocks / assembler and a recording warp (the source tiling is clipped to exactly the tiles listed for this destination chunk, every listed block is handed to the assembler under its re-based index, one warp per non-spatial plane reading the assembled window with the clipped source GeoBox and the chunk's GeoBox into a zero-initialised chunk of the right shape, gaps filled with the source nodata, floating-point data without nodata warped with NaN as destination nodata as in the in-memory path). The completeness of the dependency map is C12's grid_intersect.",
    note="GDAL's warp and dask's graph execution are NOT proved: BOUNDED native checks -- (a) structure of the real dask graph (each destination chunk depends on exactly grid_intersect's source blocks; chunks with none are constant blocks of the fill value), (b) computed result vs the in-memory path under the synchronous and threaded schedulers for 9 placements (identical, whole-pixel shift, sub-pixel, x2, x1/2, mirrored, partial overlap, disjoint, other CRS) x chunkings incl. 1-pixel and non-dividing x dtypes / nodata x leading time axis: pixel-identical for same-CRS nearest, unreached pixels hold the fill value, disjoint destination all fill; (c) BlockAssembler.extract == the dense mosaic window. Task purity (any execution order gives the same result) is assumed of dask",
    technique=TECH + "; ghost collaborators recording the data flow; exhaustive enumeration of the finite fill-value rule", design_ref="DESIGN.md §2 C13")

# ---- later additions (kept separate so that the history of each claim stays readable) ---------------------------------------------
def _add(pid, text=None, note=None, replace_text=None, replace_note=None):
    c = CLAIMS[pid]
    for old, new in (replace_text or []):
        assert old in c["text"], (pid, old)
        c["text"] = c["text"].replace(old, new)
    for old, new in (replace_note or []):
        assert old in c["note"], (pid, old)
        c["note"] = c["note"].replace(old, new)
    if text:
        c["text"] += " " + text
    if note:
        c["note"] += "; " + note


_add("C17",
     replace_text=[(" roi_from_points and the perimeter samplers are not yet under contract.", " roi_from_points is proved for point sets of ANY length over an N x 2 array model (stays within the image; contains every point inside the image with its clamped padding however far the other points are; edges aligned or on the border; tight: every edge is the floor/ceil of some point's coordinate moved by the padding and clamped; every int32 cast and int32 operation carries a no-overflow obligation).")],
     note="numpy min/max along axis 0 (attained bounds), floor/ceil/clip/astype elementwise are library models; rows with NaN/inf and float rounding of roi_from_points are covered by a BOUNDED native check against an exact reference over the finite rows (every single kind of non-finite value alone, and all mixes)")
_add("C03",
     text="Sampled path (rotation / fractional scale / other CRS), data flow proved: roi_boundary samples exactly pts_per_side evenly spaced points on EVERY side independently of the other side's length (any region, 1-pixel thin ones included); _relative_rois back-projects the destination perimeter, takes the padded / aligned envelope inside the source, forward-projects the perimeter of that region sampled as densely, and takes the envelope inside the destination without adding the padding twice; roi_from_points (the envelope) is proved for point sets of any length (C17).",
     replace_note=[("assumed stub + BOUNDED native brute force over every destination pixel of 100 pairs incl. 16 cross-CRS", "its ACCURACY (that sampling the perimeter suffices) stays an assumed stub + BOUNDED native brute force over every destination pixel of 106 pairs incl. 16 cross-CRS and 6 with a raster 1-2 pixels thin and 1500-2000 long; edge_index / polygon_path / numpy.linspace by a BOUNDED native check on all grids up to 6 x 6 and thin long ones")])
_add("C04",
     replace_note=[("VariableSizedTiles.__init__ (numpy cumsum in int32) is an ASSUMED contract with a BOUNDED native check", "VariableSizedTiles.__init__ is PROVED for chunk tuples of any length (numpy asarray / cumsum taken as prefix sums: library model, totals assumed to fit int32; the bounded native run checks that model against real numpy); offsets are modelled as numpy 1-d arrays (elementwise arithmetic) and replayed as real int32 arrays")],
     text="Data-flow lemma blocks.extract_flow on the real BlockAssembler.extract (symbolic window).")
_add("C08",
     replace_note=[("; reprojection inside from_geopolygon(crs=...) is pyproj's and not decided", "; from_geopolygon(crs=...): data-flow lemma over a stand-in region -- the POLYGON is reprojected and the box of the reprojected polygon is covered (pyproj's numerics themselves are not decided)")])
_add("C01",
     replace_text=[("collections of 1-3 operands, every tag combination", "collections of 1-3 operands, every tag combination; bbox_union / bbox_intersection over every assignment of none / projected / geographic to 2-4 operands")])
_add("C07",
     text="Data-flow lemma on the real Geometry.segmented over stand-in shapely geometries of every kind (points, lines, rings, polygons with holes, multi-part, nested collections), ANY extent and resolution: every line / ring / hole of every part is densified exactly once with the requested resolution and the structure is preserved.",
     replace_note=[("segmented() (type, ring/part structure, area/length, subsequence) and to_crs", "segmented() against real shapely (type, ring/part structure, area/length, subsequence) and to_crs")])
_add("C09",
     text="Reprojection output assembly (the real _xr_reproject_da / _xr_reproject_ds over the ghost container, symbolic source and destination grids, destination in another OR the same CRS, down to 1 x 1 pixels): destination array shape, one warp with the recovered source GeoBox, attributes cleaned, coordinates of spatial dimensions replaced, and the GeoBox recovered from the result is the requested destination grid, CRS included.",
     replace_note=[("35 reprojections of DataArrays and Datasets", "35 reprojections of DataArrays and Datasets + 12 onto single-row / single-column / single-pixel grids in the source's own CRS")])
_add("C13",
     text="A plane whose assembled window holds nothing but source nodata may be filled directly, but only with the fill value (destination nodata if set, else source nodata) -- proved on the same lemma; graph construction data flow (dask.graph_build_flow) and the structural obligation that the graph name's token covers every parameter.",
     note="bounded samples include sources whose first chunks / a whole time step are all nodata with an overridden destination nodata")
_add("C18",
     text="S3 writers: exhaustive lemma over the configuration that reaches the writer objects (endpoint, profile, upload state; uploader and delayed writer): limits within S3's documented ranges and each maximum above its minimum.")
_add("C19",
     text="GCP GeoBoxes at record level (symbolic shape and pixel-plane affine over shared / different control-point mappings): == is an equivalence and equal boxes hash alike.",
     replace_note=[("families of 3-9 near-identical objects", "families of 3-21 near-identical objects (Geometry: every shapely kind incl. rings, holes, multi-part, collections, empty, 3-D)")])
_add("C20",
     replace_text=[("The numerical linear algebra (decompose_rws, affine_from_pts, the least-squares fits themselves) is NOT proved: BOUNDED native check.", "resolution_from_affine for rotated / sheared transforms: rx > 0, rx^2 == a^2 + d^2, rx*ry == det A, proved against the documented form of decompose_rws (A = R W S, R rotation, W unit shear, S diagonal with positive X scale), which is an ASSUMED contract validated by the bounded check. The numerical linear algebra itself (decompose_rws, affine_from_pts, the least-squares fits) is NOT proved: BOUNDED native check.")],
     note="math.hypot / sqrt enter as non-negative roots (h >= 0, h*h == sum of squares)")
_add("C02",
     replace_note=[("buffered and resolution are proved for axis-aligned grids only (rotated grids use decompose_rws: not decided)", "buffered is proved for axis-aligned grids only; resolution of rotated / sheared grids against the assumed documented form of decompose_rws (C20)")])
_add("C05",
     text="Per-tile padding: data-flow lemma on the real tile compressors over a stand-in block of ANY size within a tile of ANY (also non-square) size -- a ragged tile is padded once, on the bottom and right only, exactly up to the tile's height and width, with the fill value, then predicted along X and encoded once.",
     replace_note=[("7 fixed + 24 quick / 120 thorough combinations", "11 fixed (incl. wide tiles whose last column is as wide as a tile is tall, uncompressed tiles) + 24 quick / 120 thorough combinations")],
     note="uncompressed tile bytes of both compressors by a BOUNDED native check (4 tile shapes x 3 layouts x 7 block sizes x 2 fill values)")

_add("C05",
     text="_extract_tile_info is PROVED for a tile stream of any length over 1-3 pyramid levels with any tile counts (loop invariant over the running byte position: every non-empty tile's entry = start + total size of the tiles before it, byte count = its size; the level's slot map is an uninterpreted injective function, flat_tile_idx's own contract and lemma). _patch_hdr data-flow lemma over a stand-in TIFF editor whose buffer grows by a symbolic amount when the statistics text does not fit in place: tile offsets use the header size measured AFTER that.",
     replace_note=[("_extract_tile_info (offset table = prefix sums, no gaps/overlaps) and _make_empty_cog", "_make_empty_cog")],
     note="the dask round trip now also covers uncompressed tiles, pyramids with a level that is exactly one tile, images whose padding adds whole tile rows / columns and full-range / 1e300-sized pixel values (three genuine defects found there and repaired: see known_findings.json)")
_add("C16",
     replace_note=[("GeoBox.enclosing over a ghost pixel-plane image of the region (the projection itself assumed)", "GeoBox.enclosing over a ghost pixel-plane image of the region, given as a geometry or as a BoundingBox whose polygon -- not its corners -- must be projected (the projection itself assumed)")])
_add("C19",
     note="the catalogue also holds CRS objects built from other spellings AFTER their EPSG code / units were looked up (clone has the same string form, hash and token)")
_add("C11",
     replace_note=[("BOUNDED native end-to-end check (9 source grids", "BOUNDED native end-to-end check (10 source grids incl. a 3200 x 3200 km LAEA raster checked on a 161 x 161 lattice; 9 other source grids")],
     note="the stand-in footprint of the dispatch lemma resolves omitted arguments from the REAL signature's defaults")
_add("C12",
     note="grid_intersect samples include destinations overhanging the source by whole tiles on the left / top")
_add("C09",
     replace_text=[(">= 2 remaining pixels per axis", ">= 1 remaining pixel per axis")],
     note="data_resolution_and_offset (label arithmetic, incl. the fallback resolution used only for single-element axes) is verified as a root of this property too")

_add("C02",
     text="State / history independence of views: every view-changing operation on a receiver whose footprint is already cached returns a GeoBox that does not carry that cached footprint (lemma over 19 operations, symbolic grid).")
_add("C01",
     text="CRS.to_epsg caches exactly pyproj's default-confidence identification (lemma over a recording stand-in): the code CRS.__eq__'s fast path compares is the one the equivalence assumption is about.")
_add("C04",
     note="BlockAssembler samples include fills the blocks' dtype cannot hold (-1 on uint8, NaN on int16) and Y/X windows whose extent equals the length of a non-spatial axis")
_add("C13",
     note="... and reprojection onto the source's own grid with another destination nodata (default chunking)")
_add("C15",
     note="round trips include whole blocks of genuine zeros beside a non-zero nodata, written window by window")

_add("C19",
     text="CRS.__eq__ / __ne__: equal iff same pyproj class for every state of the lazily cached EPSG codes, proved WITHOUT assuming that equal codes mean equal CRSs (an assumption real pyproj violates; the code path relying on it was a genuine defect and is repaired).")
_add("C01",
     note="the only assumption left about EPSG codes is that the code is a function of the pyproj CRS")
_add("C17",
     note="roi_shape's contract is stated from the index set (an empty selection has size 0), no longer from the code")
_add("C04",
     text="VariableSizedTiles.tile_shape for EVERY integer index (from the end when negative, IndexError exactly outside).")

NA = {}
ALL = [f"C{i:02d}" for i in range(1, 21)]

def main():
    checks = []
    for pid in ALL:
        if pid not in CLAIMS:
            continue
        c = CLAIMS[pid]
        checks.append(dict(
            property_id=pid,
            quick_cmd=f"./check {pid} --tier quick",
            thorough_cmd=f"./check {pid} --tier thorough",
            evidence_file=f"/verif/evidence/{pid}.json",
            replay_cmd_template=f"./check {pid} --replay {{path}}",
            engine="pyvc",
            level_claimed=dict(category="proof", text=c["text"], design_ref=c["design_ref"]),
            level_note=c["note"],
            technique=c["technique"],
        ))
    na = [dict(property_id=p, reason=r) for p, r in NA.items()]
    for pid in ALL:
        if pid not in CLAIMS and pid not in NA:
            na.append(dict(property_id=pid, reason="not claimed yet: contracts for this property are still being written (work in progress, see DESIGN.md)"))
    m = dict(
        version=1,
        setup_cmd="./setup.sh",
        hooks=dict(guard="ODC_GEO_VERIF", enable="no hooks in /repo: contracts are sidecar files under /verif/contracts; checks export ODC_GEO_VERIF=1 for uniformity", baseline_off_cmd="cd /repo && /venv/bin/python -m pytest -ra -q -p no:cacheprovider --timeout=900 --continue-on-collection-errors", source_commits=[], add_only=True),
        engines=[dict(name="pyvc", path="/verif/pyvc", serves_properties=sorted(CLAIMS), kind_free_text="home-made verification-condition generator: proxy-based symbolic execution of the real, shadow-loaded source against sidecar contracts; obligations discharged by z3 5.1 then cvc5 1.0.3; counterexamples replayed on the real code")],
        checks=checks,
        not_applicable=sorted(na, key=lambda d: d["property_id"]),
        notes="exit codes of ./check: 0 held / 1 violation / 2 undecided / 3 checker error. known_findings.json lists recorded and fixed defects.",
    )
    with open("MANIFEST.json", "w") as f:
        json.dump(m, f, indent=1)

if __name__ == "__main__":
    main()
