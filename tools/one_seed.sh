#!/bin/sh
# tools/one_seed.sh <seed id> -- run the seed's property check against a scratch copy with the seed applied; one line of output
s="$1"
p=$(python3 -c "import json;print(json.load(open('/verif/seeded/$s/meta.json'))['property'])")
r=$(sh /verif/tools/try_seed_copy.sh "/verif/seeded/$s/patch.diff" "$p" 2>&1 | grep -E "^check exit|patch does not apply" | tail -1)
echo "$s $p $r"
