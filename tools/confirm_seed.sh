#!/bin/sh
# tools/confirm_seed.sh <dir with patch.diff and demo.py>
# Independent confirmation of a seeded change in a scratch worktree (outside /repo and /verif):
#  demo passes on HEAD, fails with the patch; test-suite counts with the patch.
D="$1"; WT=/tmp/confirm_wt_$$
git -C /repo worktree add --detach "$WT" HEAD >/dev/null 2>&1 || exit 9
cd "$WT" || exit 9
PYTHONPATH="$WT" /venv/bin/python "$D/demo.py" >/dev/null 2>&1; echo "demo on HEAD: exit $?"
if git apply --check "$D/patch.diff" 2>/dev/null; then git apply "$D/patch.diff"; else echo "PATCH DOES NOT APPLY"; cd /tmp; git -C /repo worktree remove --force "$WT"; exit 8; fi
PYTHONPATH="$WT" /venv/bin/python "$D/demo.py" >/dev/null 2>&1; echo "demo with patch: exit $?"
PYTHONPATH="$WT" /venv/bin/python -m pytest -q -p no:cacheprovider --timeout=900 tests 2>&1 | tail -1
cd /tmp; git -C /repo worktree remove --force "$WT"
