"""tools/seed_meta.py <seed> <property> <status> <detected_by> <needs>  -- write seeded/<seed>/meta.json"""
import json, sys, subprocess
seed, prop, status, detected_by, needs = sys.argv[1:6]
head = subprocess.run(["git", "-C", "/repo", "rev-parse", "--short", "HEAD"], capture_output=True, text=True).stdout.strip()
meta = dict(
    seed=seed, property=prop, breaks=needs, status=status, detected_by=detected_by,
    confirmed=dict(
        how="tools/confirm_seed.sh in a scratch worktree of /repo (outside /repo and /verif): demo.py exits 0 on HEAD and non-zero with patch.diff applied; full test-suite counts with the patch; then tools/try_seed.sh applies the patch to /repo, runs ./check <property>, and undoes it with git checkout",
        repo_head=head,
    ),
    origin="written by an independent sub-agent that saw only the property text and its own scratch worktree",
)
json.dump(meta, open(f"/verif/seeded/{seed}/meta.json", "w"), indent=1)
