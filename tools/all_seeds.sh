#!/bin/sh
# tools/all_seeds.sh [jobs] -- regression of the checks themselves: every kept seeded change is applied to a scratch
# worktree (never to /repo) and its property's check is run against that tree; exit 1 = detected.
# Output: seeded/LAST_REGRESSION.txt
J="${1:-3}"
cd /verif || exit 9
OUT=/verif/.work/all_seeds_out.$$
mkdir -p /verif/.work
ls seeded | grep -E "^C[0-9]+_[0-9]+$" | xargs -P "$J" -I{} sh tools/one_seed.sh {} | sort > "$OUT"
{ echo "# $(date -u +%F) HEAD $(git -C /repo rev-parse --short HEAD): seed, property, exit code of ./check on the tree with the seed applied (1 = detected)"; cat "$OUT"; } > seeded/LAST_REGRESSION.txt
rm -f "$OUT"
cat seeded/LAST_REGRESSION.txt
