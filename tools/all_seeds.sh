#!/bin/sh
# tools/all_seeds.sh -- apply every kept seeded change in turn, run its property's check, report the exit code
# (1 = detected).  /repo is restored after each.
cd /verif || exit 9
for d in seeded/*/; do
  s=$(basename "$d")
  p=$(python3 -c "import json;print(json.load(open('/verif/seeded/$s/meta.json'))['property'])")
  if git -C /repo apply --check "/verif/seeded/$s/patch.diff" 2>/dev/null; then
    r=$(sh tools/try_seed.sh "/verif/seeded/$s/patch.diff" "$p" 2>&1 | grep -E "^check exit")
  else
    r="patch no longer applies to HEAD"
  fi
  echo "$s $p $r"
done
git -C /repo status --short
