#!/bin/sh
# tools/try_seed_copy.sh <patch.diff> <PROP> [more check args]
# Like try_seed.sh, but /repo is never touched: the change is applied to a scratch worktree (outside /repo and /verif) and the
# check reads that tree (PYVC_REPO).  Several of these can run at the same time.
P="$1"; shift
WT=/tmp/tsc_wt_$$
git -C /repo worktree add --detach "$WT" HEAD >/dev/null 2>&1 || exit 9
if ! git -C "$WT" apply "$P" 2>/dev/null; then echo "patch does not apply to HEAD"; git -C /repo worktree remove --force "$WT"; exit 9; fi
cd /verif && PYVC_REPO="$WT" PYTHONPATH="$WT" ./check "$@" --no-evidence; RC=$?
git -C /repo worktree remove --force "$WT"
echo "check exit: $RC"
