#!/bin/sh
# tools/process_seed.sh <dir> <PROP>: confirm a delivered seed in a scratch worktree, then run the property's check against a
# scratch copy with it applied (/repo is never touched, so several can run at once)
D="$1"; P="$2"
echo "== $D ($P)"; git -C /repo apply --stat "$D/patch.diff" | tail -3
sh /verif/tools/confirm_seed.sh "$D" 2>&1 | grep -v conda
sh /verif/tools/try_seed_copy.sh "$D/patch.diff" "$P" 2>&1 | grep -v conda | grep -v "no longer generated" | cut -c1-700 | tail -6
