#!/bin/sh
# tools/try_seed.sh <patch.diff> <PROP> [more check args]  -- apply to /repo, run the check, undo
P="$1"; shift
git -C /repo apply "$P" || { echo "patch does not apply to /repo"; exit 9; }
cd /verif && ./check "$@" --no-evidence; RC=$?
git -C /repo checkout -- .
echo "check exit: $RC"
