#!/bin/sh
# Build the overlay venv used by every check (offline; wheels from /opt/veriftools/wheels).
# Idempotent: does nothing when the venv is already usable.
set -e
HERE="$(cd "$(dirname "$0")" && pwd)"
VENV="$HERE/.venv"
if [ -x "$VENV/bin/python" ] && "$VENV/bin/python" -c "import z3, cvc5, jsonschema, numpy, affine" >/dev/null 2>&1; then
    exit 0
fi
rm -rf "$VENV"
/venv/bin/python -m venv "$VENV" >/dev/null
PIP_NO_INDEX=1 "$VENV/bin/python" -m pip install -q --no-index --find-links /opt/veriftools/wheels \
    z3-solver cvc5 crosshair-tool deal icontract hypothesis jsonschema >/dev/null 2>&1
SP="$("$VENV/bin/python" -c 'import sysconfig; print(sysconfig.get_paths()["purelib"])')"
echo "import site; site.addsitedir('/venv/lib/python3.12/site-packages')" > "$SP/zz_repo_deps.pth"
"$VENV/bin/python" -c "import z3, cvc5, jsonschema, numpy, affine"
