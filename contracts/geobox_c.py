"""
Contracts for odc/geo/geobox.py (and BoundingBox of geom.py).
Properties: C08 (GeoBox from a region), C16 (set operations on a common grid), C02 (views agree with
the pixel-to-world mapping), C11 (dispatch clauses of to_crs), C12 (tile queries).

CRS values are concrete objects of the shadow-loaded crs module (None / EPSG:3857 / EPSG:4326): the
arithmetic under contract never looks inside a CRS, it only passes it along and compares it.
"""
from pyvc.api import *  # noqa: F401,F403

from .math_c import AFFINE, _edge_post_px, _snap_edge_lo, coeffs

GBX = "odc.geo.geobox"
GEOM = "odc.geo.geom"
TYPES = "odc.geo.types"

_CRS_CACHE = {}


def crs_obj(spec):
    """concrete CRS object of the module in use (shadow in the checker, real in replay)"""
    if spec is None:
        return None
    mod = repo("odc.geo.crs")
    key = (id(mod), spec)
    if key not in _CRS_CACHE:
        _CRS_CACHE[key] = mod.CRS(spec)
    return _CRS_CACHE[key]


class CRSShape(Shape):
    def __init__(self, spec):
        self.spec = spec

    def make(self, name):
        v = crs_obj(self.spec)
        return v

    def describe(self):
        return f"CRS({self.spec!r})"


def _crs_src(v):
    return "None" if v is None else f"R('odc.geo.crs:CRS')({str(v)!r})"


def BBOX(crs="EPSG:3857"):
    return Build(f"{GEOM}:BoundingBox", Real(), Real(), Real(), Real(), CRSShape(crs))


def GEOBOX(crs="EPSG:3857", min_side=1):
    return Build(f"{GBX}:GeoBox", Tup(Int(ge=min_side), Int(ge=min_side)), AFFINE(), CRSShape(crs))


def XYR():
    return Build(f"{TYPES}:XY", Real(), Real())


def anchor_enum(name):
    return getattr(repo(TYPES).AnchorEnum, name)


def is_xy(v):
    return type(v).__name__ in ("XY", "Resolution", "Index2d", "Shape2d") and hasattr(v, "xy")


# ---- _norm_anchor -------------------------------------------------------------------------------------------


def expected_snap(anchor, tight):
    """the pixel fraction (fx, fy) the grid is snapped to, or None when snapping is off --
    taken from the documentation: 0 for edge (the default), 1/2 for centre, the given fraction(s)
    otherwise; floating / tight turn snapping off"""
    if tight:
        return None
    if isinstance(anchor, str):
        return {"default": (0, 0), "edge": (0, 0), "center": (0.5, 0.5), "centre": (0.5, 0.5), "floating": None}[anchor]
    if type(anchor).__name__ == "AnchorEnum":
        return {"EDGE": (0, 0), "CENTER": (0.5, 0.5), "FLOATING": None}[anchor.name]
    if is_xy(anchor):
        return anchor.xy
    return (anchor, anchor)


class EnumShape(Shape):
    def __init__(self, name):
        self.name = name

    def make(self, name):
        return anchor_enum(self.name)

    def describe(self):
        return f"AnchorEnum.{self.name}"


ANCHORS = OneOf("default", "edge", "center", "centre", "floating", EnumShape("EDGE"), EnumShape("CENTER"), EnumShape("FLOATING"), 0, 0.5, Real(gt=0, lt=1), Build(f"{TYPES}:XY", Real(ge=0, lt=1), Real(ge=0, lt=1)))

contract(
    f"{GBX}:_norm_anchor",
    ["C08"],
    inputs=dict(anchor=ANCHORS),
    ensures=[
        (
            "normalised to EDGE / CENTER / FLOATING or an XY of pixel fractions, as documented",
            lambda anchor, result: (
                (result is anchor_enum("FLOATING"))
                if expected_snap(anchor, False) is None
                else And(
                    *[
                        Ite(And(f == 0, expected_snap(anchor, False)[0] is expected_snap(anchor, False)[1]), result is anchor_enum("EDGE"), True)
                        if not is_xy(result)
                        else And(result.x == expected_snap(anchor, False)[0], result.y == expected_snap(anchor, False)[1])
                        for f in [expected_snap(anchor, False)[0]]
                    ]
                )
            ),
        ),
        (
            "enum results carry the documented fraction",
            lambda anchor, result: True
            if is_xy(result) or expected_snap(anchor, False) is None
            else And({"EDGE": 0, "CENTER": 0.5}[result.name] == expected_snap(anchor, False)[0], {"EDGE": 0, "CENTER": 0.5}[result.name] == expected_snap(anchor, False)[1]),
        ),
    ],
    inline=True,
)

# ---- GeoBox.from_bbox: resolution driven ----------------------------------------------------------------------------
#
# stated in pixel units, like snap_grid: the region is [qx0, qx1] x [qy0, qy1] pixels of size |rx| x |ry|


def _fb_res_case(sx, sy):
    rx = Real(gt=0) if sx > 0 else Real(lt=0)
    ry = Real(gt=0) if sy > 0 else Real(lt=0)
    d = dict(qx0=Real(), qx1=Real(), qy0=Real(), qy1=Real(), rx=rx, ry=ry, anchor=ANCHORS, tight=OneOf(False, True), tol=Real(ge=0, le=0.25))
    ax = (lambda r: r) if sx > 0 else (lambda r: -r)
    ay = (lambda r: r) if sy > 0 else (lambda r: -r)
    d["bbox"] = Derived(lambda qx0, qx1, qy0, qy1, rx, ry: repo(GEOM).BoundingBox(qx0 * ax(rx), qy0 * ay(ry), qx1 * ax(rx), qy1 * ay(ry), crs_obj("EPSG:3857")), "BoundingBox (pixel units x |res|), EPSG:3857")
    d["resolution"] = Derived(lambda rx, ry: repo(TYPES).Resolution(rx, ry), "Resolution(rx, ry)")
    d["crs"] = None
    d["shape"] = None
    return d


def _axis_post(q0, q1, res, frac, tol, off, n):
    """one axis of the result against the region, in pixels"""
    lo = _snap_edge_lo(res, off, n)
    if frac is None:
        if bool(res > 0):
            return And(lo == q0, _edge_post_px(q0, q1, tol, lo, n))
        return And(lo + n == q1, _edge_post_px(-q1, -q0, tol, -(lo + n), n))
    return And(_edge_post_px(q0, q1, tol, lo, n), is_int_valued(lo - frac))


def _fb_res_post(qx0, qx1, qy0, qy1, rx, ry, anchor, tight, tol, result):
    a, b, c, d, e, f = coeffs(result.affine)
    ny, nx = result.shape.yx
    snap = expected_snap(anchor, tight)
    fx, fy = (None, None) if snap is None else snap
    return And(
        # exactly the requested pixel size and orientation, axis aligned
        a == rx,
        e == ry,
        b == 0,
        d == 0,
        nx >= 1,
        ny >= 1,
        _axis_post(qx0, qx1, rx, fx, tol, c, nx),
        _axis_post(qy0, qy1, ry, fy, tol, f, ny),
    )


def _fresh_st_geobox(name, rx, ry, crs):
    """stub result: GeoBox((ny, nx), Affine(rx, 0, u*rx, 0, ry, v*ry), crs) with fresh u, v, nx, ny"""
    G = repo(GBX).GeoBox
    A = repo("affine").Affine
    nx, ny = Int(ge=1).make(name + ".nx"), Int(ge=1).make(name + ".ny")
    u, v = Real().make(name + ".u"), Real().make(name + ".v")
    return G((ny, nx), A(rx, 0, u * rx, 0, ry, v * ry), crs)


contract(
    f"{GBX}:GeoBox.from_bbox",
    ["C08", "C11"],
    inputs=[_fb_res_case(sx, sy) for sx in (1, -1) for sy in (1, -1)],
    requires=[lambda qx0, qx1, qy0, qy1: And(qx0 <= qx1, qy0 <= qy1)],
    ensures=[
        ("requested pixel size/orientation; covers the region up to tol; < 1 pixel (+tol) larger per side; pixel edges at the anchor fraction (exactly at the region when snapping is off)", _fb_res_post),
        ("CRS of the region is kept", lambda bbox, result: result.crs is bbox.crs),
    ],
    ghost_args={
        "odc.geo.math:snap_grid": lambda call_index, qx0, qx1, qy0, qy1: dict(q0=qx0, q1=qx1) if call_index == 0 else dict(q0=qy0, q1=qy1),
    },
    returns=lambda bbox, rx, ry: Custom(lambda name: _fresh_st_geobox(name, rx, ry, bbox.crs), "axis-aligned GeoBox with origin in pixel units"),
    note="resolution-driven construction; all anchor spellings x tight x sign of each resolution component",
    max_paths=400,
)

# ---- GeoBox.from_bbox: shape driven (lemma-style contract on a second entry) ------------------------------------------


def _fb_shape_body(ql, qb, rx, ry, nx, ny, anchor, tight, tol):
    """region = [ql, ql + nx] x [qb, qb + ny] pixels of size rx x ry (rx, ry > 0), asked for shape (ny, nx)"""
    G = repo(GBX).GeoBox
    BB = repo(GEOM).BoundingBox
    left, right, bottom, top = ql * rx, (ql + nx) * rx, qb * ry, (qb + ny) * ry
    bbox = BB(left, bottom, right, top, crs_obj("EPSG:3857"))
    g = G.from_bbox(bbox, shape=(ny, nx), anchor=anchor, tight=tight, tol=tol)
    a, b, c, d, e, f = coeffs(g.affine)
    claim(And(g.shape.y == ny, g.shape.x == nx), "exactly the requested shape")
    claim(And(a == rx, e == -ry, b == 0, d == 0), "pixel size is the region's span divided by the shape (north-up)")
    snap = expected_snap(anchor, tight)
    if snap is None:
        claim(And(c == left, f == top), "snapping off: origin is exactly the region's top-left corner")
    else:
        claim(And(Abs(div(c, rx) - ql) < 1 + tol, Abs(div(f, ry) - (qb + ny)) < 1 + tol), "displaced from the region by less than one pixel (plus tol)")
        claim(And(is_int_valued(div(c, rx) - snap[0]), is_int_valued(div(f, ry) - ny - snap[1])), "pixel edges sit at the requested fraction")
    claim(g.crs is bbox.crs, "CRS kept")


lemma(
    "geobox.from_bbox_shape_driven",
    ["C08", "C11"],
    inputs=dict(ql=Real(), qb=Real(), rx=Real(gt=0), ry=Real(gt=0), nx=Int(ge=1), ny=Int(ge=1), anchor=ANCHORS, tight=OneOf(False, True), tol=Real(ge=0, le=0.25)),
    body=_fb_shape_body,
    ghost_args={
        "odc.geo.math:snap_grid": lambda call_index, ql, qb, nx, ny: dict(q0=ql, q1=ql + nx) if call_index == 0 else dict(q0=qb, q1=qb + ny),
    },
    unstub=[f"{GBX}:GeoBox.from_bbox"],
    note="shape-driven construction: a second entry point of GeoBox.from_bbox -- the real body runs (unstub), its callees are stubbed as usual",
)

# ---- GeoBox.from_geopolygon -----------------------------------------------------------------------------------------------


class RegionStandIn:
    """Ghost stand-in for a Geometry: exposes what from_geopolygon uses (.crs, .boundingbox, .to_crs);
    shapely/pyproj are not involved in the clauses decided here."""

    def __init__(self, bbox):
        self.boundingbox = bbox
        self.crs = bbox.crs
        self.reprojected_to = None

    def to_crs(self, crs, *a, **k):
        self.reprojected_to = crs
        return self

    def __vc_src__(self, model, c):
        from pyvc.engine import to_src

        return f"R('odc.geo.geom:box')(*{to_src(tuple(self.boundingbox.bbox), model, c)}, R('odc.geo.crs:CRS')('EPSG:3857'))"


def _fg_body(qx0, qx1, qy0, qy1, rx, ry, ax, ay, tol):
    """deprecated align=(ax, ay) in CRS units: pixel edges must sit at ax (ay) modulo the pixel size"""
    G = repo(GBX).GeoBox
    BB = repo(GEOM).BoundingBox
    T = repo(TYPES)
    bbox = BB(qx0 * rx, qy0 * ry, qx1 * rx, qy1 * ry, crs_obj("EPSG:3857"))
    poly = RegionStandIn(bbox)
    g = G.from_geopolygon(poly, resolution=T.Resolution(rx, -ry), align=T.xy_(ax * rx, ay * ry), tol=tol)
    a, b, c, d, e, f = coeffs(g.affine)
    claim(And(a == rx, e == -ry, b == 0, d == 0), "requested resolution")
    ny, nx = g.shape.yx
    claim(And(is_int_valued(div(c, rx) - ax), is_int_valued(div(f, ry) - ny - ay)), "pixel edges are offset from the CRS origin by the requested alignment")
    claim(And(div(c, rx) <= qx0 + tol, div(c, rx) + nx >= qx1 - tol, div(f, ry) - ny <= qy0 + tol, div(f, ry) >= qy1 - tol), "covers the polygon's bounding box up to tol")
    claim(poly.reprojected_to is None, "no reprojection when no CRS was asked for")
    claim(g.crs is bbox.crs, "CRS of the polygon is kept")


lemma(
    "geobox.from_geopolygon_align",
    ["C08"],
    inputs=dict(qx0=Real(), qx1=Real(), qy0=Real(), qy1=Real(), rx=Real(gt=0), ry=Real(gt=0), ax=Real(ge=0, lt=1), ay=Real(ge=0, lt=1), tol=Real(ge=0, le=0.25)),
    requires=[lambda qx0, qx1, qy0, qy1: And(qx0 <= qx1, qy0 <= qy1)],
    body=_fg_body,
    unstub=[f"{GBX}:GeoBox.from_geopolygon"],
    ghost_args={f"{GBX}:GeoBox.from_bbox": lambda qx0, qx1, qy0, qy1, rx, ry: dict(qx0=qx0, qx1=qx1, qy0=qy0, qy1=qy1, rx=rx, ry=-ry)},
    note="from_geopolygon with the deprecated align= and a stand-in region object; reprojection of the polygon (crs=...) is pyproj's and not decided",
)
