"""
Contracts for odc/geo/geobox.py (and BoundingBox of geom.py).
Properties: C08 (GeoBox from a region), C16 (set operations on a common grid), C02 (views agree with
the pixel-to-world mapping), C11 (dispatch clauses of to_crs), C12 (tile queries).

CRS values are concrete objects of the shadow-loaded crs module (None / EPSG:3857 / EPSG:4326): the
arithmetic under contract never looks inside a CRS, it only passes it along and compares it.
"""
from pyvc.api import *  # noqa: F401,F403

from .math_c import AFFINE, _edge_post_px, _snap_edge_lo, coeffs

GBX = "odc.geo.geobox"
GEOM = "odc.geo.geom"
TYPES = "odc.geo.types"

_CRS_CACHE = {}


def crs_obj(spec):
    """concrete CRS object of the module in use (shadow in the checker, real in replay)"""
    if spec is None:
        return None
    mod = repo("odc.geo.crs")
    key = (id(mod), spec)
    if key not in _CRS_CACHE:
        _CRS_CACHE[key] = mod.CRS(spec)
    return _CRS_CACHE[key]


class CRSShape(Shape):
    def __init__(self, spec):
        self.spec = spec

    def make(self, name):
        v = crs_obj(self.spec)
        return v

    def describe(self):
        return f"CRS({self.spec!r})"


def _crs_src(v):
    return "None" if v is None else f"R('odc.geo.crs:CRS')({str(v)!r})"


def BBOX(crs="EPSG:3857"):
    return Build(f"{GEOM}:BoundingBox", Real(), Real(), Real(), Real(), CRSShape(crs))


def GEOBOX(crs="EPSG:3857", min_side=1):
    return Build(f"{GBX}:GeoBox", Tup(Int(ge=min_side), Int(ge=min_side)), AFFINE(), CRSShape(crs))


def XYR():
    return Build(f"{TYPES}:XY", Real(), Real())


def anchor_enum(name):
    return getattr(repo(TYPES).AnchorEnum, name)


def is_xy(v):
    return type(v).__name__ in ("XY", "Resolution", "Index2d", "Shape2d") and hasattr(v, "xy")


# ---- _norm_anchor -------------------------------------------------------------------------------------------


def expected_snap(anchor, tight):
    """the pixel fraction (fx, fy) the grid is snapped to, or None when snapping is off --
    taken from the documentation: 0 for edge (the default), 1/2 for centre, the given fraction(s)
    otherwise; floating / tight turn snapping off"""
    if tight:
        return None
    if isinstance(anchor, str):
        return {"default": (0, 0), "edge": (0, 0), "center": (0.5, 0.5), "centre": (0.5, 0.5), "floating": None}[anchor]
    if type(anchor).__name__ == "AnchorEnum":
        return {"EDGE": (0, 0), "CENTER": (0.5, 0.5), "FLOATING": None}[anchor.name]
    if is_xy(anchor):
        return anchor.xy
    return (anchor, anchor)


class EnumShape(Shape):
    def __init__(self, name):
        self.name = name

    def make(self, name):
        return anchor_enum(self.name)

    def describe(self):
        return f"AnchorEnum.{self.name}"


ANCHORS = OneOf("default", "edge", "center", "centre", "floating", EnumShape("EDGE"), EnumShape("CENTER"), EnumShape("FLOATING"), 0, 0.5, Real(gt=0, lt=1), Build(f"{TYPES}:XY", Real(ge=0, lt=1), Real(ge=0, lt=1)))

contract(
    f"{GBX}:_norm_anchor",
    ["C08"],
    inputs=dict(anchor=ANCHORS),
    ensures=[
        (
            "normalised to EDGE / CENTER / FLOATING or an XY of pixel fractions, as documented",
            lambda anchor, result: (
                (result is anchor_enum("FLOATING"))
                if expected_snap(anchor, False) is None
                else And(
                    *[
                        Ite(And(f == 0, expected_snap(anchor, False)[0] is expected_snap(anchor, False)[1]), result is anchor_enum("EDGE"), True)
                        if not is_xy(result)
                        else And(result.x == expected_snap(anchor, False)[0], result.y == expected_snap(anchor, False)[1])
                        for f in [expected_snap(anchor, False)[0]]
                    ]
                )
            ),
        ),
        (
            "enum results carry the documented fraction",
            lambda anchor, result: True
            if is_xy(result) or expected_snap(anchor, False) is None
            else And({"EDGE": 0, "CENTER": 0.5}[result.name] == expected_snap(anchor, False)[0], {"EDGE": 0, "CENTER": 0.5}[result.name] == expected_snap(anchor, False)[1]),
        ),
    ],
    inline=True,
)

# ---- GeoBox.from_bbox: resolution driven ----------------------------------------------------------------------------
#
# stated in pixel units, like snap_grid: the region is [qx0, qx1] x [qy0, qy1] pixels of size |rx| x |ry|


def _fb_res_case(sx, sy):
    rx = Real(gt=0) if sx > 0 else Real(lt=0)
    ry = Real(gt=0) if sy > 0 else Real(lt=0)
    d = dict(qx0=Real(), qx1=Real(), qy0=Real(), qy1=Real(), rx=rx, ry=ry, anchor=ANCHORS, tight=OneOf(False, True), tol=Real(ge=0, le=0.25))
    ax = (lambda r: r) if sx > 0 else (lambda r: -r)
    ay = (lambda r: r) if sy > 0 else (lambda r: -r)
    d["bbox"] = Derived(lambda qx0, qx1, qy0, qy1, rx, ry: repo(GEOM).BoundingBox(qx0 * ax(rx), qy0 * ay(ry), qx1 * ax(rx), qy1 * ay(ry), crs_obj("EPSG:3857")), "BoundingBox (pixel units x |res|), EPSG:3857")
    d["resolution"] = Derived(lambda rx, ry: repo(TYPES).Resolution(rx, ry), "Resolution(rx, ry)")
    d["crs"] = OneOf(None, CRSShape("EPSG:3857"))  # ignored: the box carries its CRS
    d["shape"] = None
    return d


def _axis_post(q0, q1, res, frac, tol, off, n):
    """one axis of the result against the region, in pixels"""
    lo = _snap_edge_lo(res, off, n)
    if frac is None:
        if bool(res > 0):
            return And(lo == q0, _edge_post_px(q0, q1, tol, lo, n))
        return And(lo + n == q1, _edge_post_px(-q1, -q0, tol, -(lo + n), n))
    return And(_edge_post_px(q0, q1, tol, lo, n), is_int_valued(lo - frac))


def _fb_res_post(qx0, qx1, qy0, qy1, rx, ry, anchor, tight, tol, result):
    a, b, c, d, e, f = coeffs(result.affine)
    ny, nx = result.shape.yx
    snap = expected_snap(anchor, tight)
    fx, fy = (None, None) if snap is None else snap
    return And(
        # exactly the requested pixel size and orientation, axis aligned
        a == rx,
        e == ry,
        b == 0,
        d == 0,
        nx >= 1,
        ny >= 1,
        _axis_post(qx0, qx1, rx, fx, tol, c, nx),
        _axis_post(qy0, qy1, ry, fy, tol, f, ny),
    )


def _fresh_st_geobox(name, rx, ry, crs):
    """stub result: GeoBox((ny, nx), Affine(rx, 0, u*rx, 0, ry, v*ry), crs) with fresh u, v, nx, ny"""
    G = repo(GBX).GeoBox
    A = repo("affine").Affine
    nx, ny = Int(ge=1).make(name + ".nx"), Int(ge=1).make(name + ".ny")
    u, v = Real().make(name + ".u"), Real().make(name + ".v")
    return G((ny, nx), A(rx, 0, u * rx, 0, ry, v * ry), crs)


contract(
    f"{GBX}:GeoBox.from_bbox",
    ["C08", "C11"],
    inputs=[_fb_res_case(sx, sy) for sx in (1, -1) for sy in (1, -1)],
    requires=[lambda qx0, qx1, qy0, qy1: And(qx0 <= qx1, qy0 <= qy1)],
    ensures=[
        ("requested pixel size/orientation; covers the region up to tol; < 1 pixel (+tol) larger per side; pixel edges at the anchor fraction (exactly at the region when snapping is off)", _fb_res_post),
        ("CRS of the region is kept", lambda bbox, result: result.crs is bbox.crs),
    ],
    ghost_args={
        "odc.geo.math:snap_grid": lambda call_index, qx0, qx1, qy0, qy1: dict(q0=qx0, q1=qx1) if call_index == 0 else dict(q0=qy0, q1=qy1),
    },
    returns=lambda bbox, rx, ry: Custom(lambda name: _fresh_st_geobox(name, rx, ry, bbox.crs), "axis-aligned GeoBox with origin in pixel units"),
    note="resolution-driven construction; all anchor spellings x tight x sign of each resolution component",
    max_paths=400,
)

# ---- GeoBox.from_bbox: shape driven (lemma-style contract on a second entry) ------------------------------------------


def _fb_shape_body(ql, qb, rx, ry, nx, ny, anchor, tight, tol):
    """region = [ql, ql + nx] x [qb, qb + ny] pixels of size rx x ry (rx, ry > 0), asked for shape (ny, nx)"""
    G = repo(GBX).GeoBox
    BB = repo(GEOM).BoundingBox
    left, right, bottom, top = ql * rx, (ql + nx) * rx, qb * ry, (qb + ny) * ry
    bbox = BB(left, bottom, right, top, crs_obj("EPSG:3857"))
    g = G.from_bbox(bbox, shape=(ny, nx), anchor=anchor, tight=tight, tol=tol)
    a, b, c, d, e, f = coeffs(g.affine)
    claim(And(g.shape.y == ny, g.shape.x == nx), "exactly the requested shape")
    claim(And(a == rx, e == -ry, b == 0, d == 0), "pixel size is the region's span divided by the shape (north-up)")
    snap = expected_snap(anchor, tight)
    if snap is None:
        claim(And(c == left, f == top), "snapping off: origin is exactly the region's top-left corner")
    else:
        claim(And(Abs(div(c, rx) - ql) < 1 + tol, Abs(div(f, ry) - (qb + ny)) < 1 + tol), "displaced from the region by less than one pixel (plus tol)")
        claim(And(is_int_valued(div(c, rx) - snap[0]), is_int_valued(div(f, ry) - ny - snap[1])), "pixel edges sit at the requested fraction")
    claim(g.crs is bbox.crs, "CRS kept")


lemma(
    "geobox.from_bbox_shape_driven",
    ["C08", "C11"],
    inputs=dict(ql=Real(), qb=Real(), rx=Real(gt=0), ry=Real(gt=0), nx=Int(ge=1), ny=Int(ge=1), anchor=ANCHORS, tight=OneOf(False, True), tol=Real(ge=0, le=0.25)),
    body=_fb_shape_body,
    ghost_args={
        "odc.geo.math:snap_grid": lambda call_index, ql, qb, nx, ny: dict(q0=ql, q1=ql + nx) if call_index == 0 else dict(q0=qb, q1=qb + ny),
    },
    unstub=[f"{GBX}:GeoBox.from_bbox"],
    note="shape-driven construction: a second entry point of GeoBox.from_bbox -- the real body runs (unstub), its callees are stubbed as usual",
)

# ---- GeoBox.from_geopolygon -----------------------------------------------------------------------------------------------


class RegionStandIn:
    """Ghost stand-in for a Geometry: exposes what from_geopolygon uses (.crs, .boundingbox, .to_crs);
    shapely/pyproj are not involved in the clauses decided here."""

    def __init__(self, bbox):
        self.boundingbox = bbox
        self.crs = bbox.crs
        self.reprojected_to = None

    def to_crs(self, crs, *a, **k):
        self.reprojected_to = crs
        return self

    def __vc_src__(self, model, c):
        from pyvc.engine import to_src

        return f"R('odc.geo.geom:box')(*{to_src(tuple(self.boundingbox.bbox), model, c)}, R('odc.geo.crs:CRS')('EPSG:3857'))"


def _fg_body(qx0, qx1, qy0, qy1, rx, ry, ax, ay, tol):
    """deprecated align=(ax, ay) in CRS units: pixel edges must sit at ax (ay) modulo the pixel size"""
    G = repo(GBX).GeoBox
    BB = repo(GEOM).BoundingBox
    T = repo(TYPES)
    bbox = BB(qx0 * rx, qy0 * ry, qx1 * rx, qy1 * ry, crs_obj("EPSG:3857"))
    poly = RegionStandIn(bbox)
    g = G.from_geopolygon(poly, resolution=T.Resolution(rx, -ry), align=T.xy_(ax * rx, ay * ry), tol=tol)
    a, b, c, d, e, f = coeffs(g.affine)
    claim(And(a == rx, e == -ry, b == 0, d == 0), "requested resolution")
    ny, nx = g.shape.yx
    claim(And(is_int_valued(div(c, rx) - ax), is_int_valued(div(f, ry) - ny - ay)), "pixel edges are offset from the CRS origin by the requested alignment")
    claim(And(div(c, rx) <= qx0 + tol, div(c, rx) + nx >= qx1 - tol, div(f, ry) - ny <= qy0 + tol, div(f, ry) >= qy1 - tol), "covers the polygon's bounding box up to tol")
    claim(poly.reprojected_to is None, "no reprojection when no CRS was asked for")
    claim(g.crs is bbox.crs, "CRS of the polygon is kept")


lemma(
    "geobox.from_geopolygon_align",
    ["C08"],
    inputs=dict(qx0=Real(), qx1=Real(), qy0=Real(), qy1=Real(), rx=Real(gt=0), ry=Real(gt=0), ax=Real(ge=0, lt=1), ay=Real(ge=0, lt=1), tol=Real(ge=0, le=0.25)),
    requires=[lambda qx0, qx1, qy0, qy1: And(qx0 <= qx1, qy0 <= qy1)],
    body=_fg_body,
    unstub=[f"{GBX}:GeoBox.from_geopolygon"],
    ghost_args={f"{GBX}:GeoBox.from_bbox": lambda qx0, qx1, qy0, qy1, rx, ry: dict(qx0=qx0, qx1=qx1, qy0=qy0, qy1=qy1, rx=rx, ry=-ry)},
    note="from_geopolygon with the deprecated align= and a stand-in region object",
)

def _fg_reproject_body(qx0, qx1, qy0, qy1, rx, ry, shrink, tol, crs_kind):
    """crs=<other CRS>: the POLYGON is reprojected and the box of the reprojected polygon is covered -- not the
    reprojected box of the polygon (the image of a box's corners does not bound the image of a general polygon)."""
    G = repo(GBX).GeoBox
    BB = repo(GEOM).BoundingBox
    T = repo(TYPES)
    dst_crs = crs_obj("EPSG:3857")
    src_crs = {"other": crs_obj("EPSG:4326"), "own": dst_crs}[crs_kind]
    log = []

    class GhostBBox(BB):
        """bounding box of the polygon in its own CRS; reprojecting THE BOX gives something smaller than the box of the
        reprojected polygon (as for a diamond-shaped region)"""

        def to_crs(self, crs, *a, **k):
            log.append(("bbox.to_crs", crs))
            return BB((qx0 + shrink) * rx, (qy0 + shrink) * ry, (qx1 - shrink) * rx, (qy1 - shrink) * ry, dst_crs)

    own = GhostBBox(-7.0, -3.0, 11.0, 5.0, src_crs)
    projected = RegionStandIn(BB(qx0 * rx, qy0 * ry, qx1 * rx, qy1 * ry, dst_crs))

    class Region(RegionStandIn):
        def to_crs(self, crs, *a, **k):
            log.append(("poly.to_crs", crs))
            return projected

    poly = Region(own)
    want_crs = dst_crs
    g = G.from_geopolygon(poly, resolution=T.Resolution(rx, -ry), crs=want_crs, tol=tol)
    a, b, c, d, e, f = coeffs(g.affine)
    ny, nx = g.shape.yx
    claim(("poly.to_crs", want_crs) in log, "the polygon itself is reprojected to the requested CRS")
    claim(And(div(c, rx) <= qx0 + tol, div(c, rx) + nx >= qx1 - tol, div(f, ry) - ny <= qy0 + tol, div(f, ry) >= qy1 - tol), "the GeoBox covers the bounding box of the REPROJECTED polygon up to tol")
    claim(g.crs == want_crs, "the GeoBox is in the requested CRS")
    claim(And(a == rx, e == -ry, b == 0, d == 0), "requested resolution")


lemma(
    "geobox.from_geopolygon_reprojects_polygon",
    ["C08"],
    inputs=dict(qx0=Real(), qx1=Real(), qy0=Real(), qy1=Real(), rx=Real(gt=0), ry=Real(gt=0), shrink=Real(gt=0), tol=Real(ge=0, le=0.25), crs_kind=OneOf("other", "own")),
    requires=[lambda qx0, qx1, qy0, qy1, shrink: And(qx0 + 2 * shrink <= qx1, qy0 + 2 * shrink <= qy1)],
    body=_fg_reproject_body,
    unstub=[f"{GBX}:GeoBox.from_geopolygon"],
    ghost_args={f"{GBX}:GeoBox.from_bbox": lambda qx0, qx1, qy0, qy1, rx, ry: dict(qx0=qx0, qx1=qx1, qy0=qy0, qy1=qy1, rx=rx, ry=-ry)},
    note="from_geopolygon with crs=...: data flow over a stand-in region whose reprojection has a KNOWN bounding box that differs from the reprojection of its own box (pyproj itself is not involved)",
)

# =====================================================================================================
# C16 -- set operations on a common pixel grid
# =====================================================================================================


def T_(tx, ty):
    return repo("affine").Affine.translation(tx, ty)


def aff_eq(A, B):
    return And(*[x == y for x, y in zip(coeffs(A), coeffs(B))])


def box4(bb):
    return tuple(bb._box) if hasattr(bb, "_box") else tuple(bb)


# ---- bounding boxes: union / intersection and the lattice laws ---------------------------------------------


def _bbs(k, crss=None):
    crss = crss or ["EPSG:3857"] * k
    return Tup(*[BBOX(c) for c in crss], as_list=True)


def _crs_mismatch(bbs):
    return any(not _same_crs(bb.crs, bbs[0].crs) for bb in bbs[1:])


def _same_crs(a, b):
    if a is None or b is None:
        return a is None and b is None
    return a == b


# every assignment of {no CRS, projected, geographic} to 2, 3 and 4 operands (3^2 + 3^3 + 3^4 = 117 tag vectors: the odd one
# out at EVERY position, first / middle / last), plus another spelling of the same CRS
_TAGS = (None, "EPSG:3857", "EPSG:4326")
_MIX = [list(m) for k in (2, 3, 4) for m in __import__("itertools").product(_TAGS, repeat=k) if len(set(m)) > 1 or m[0] is None] + [["EPSG:4326", "epsg:4326"], ["EPSG:4326", "epsg:4326", "EPSG:4326"]]

for _name, _lo, _hi in (("bbox_union", Min, Max), ("bbox_intersection", Max, Min)):
    contract(
        f"{GEOM}:{_name}",
        ["C16", "C01"],
        inputs=[dict(bbs=_bbs(k)) for k in (1, 2, 3)] + [dict(bbs=_bbs(len(m), m)) for m in _MIX],
        raises=[(ValueError, lambda bbs: _crs_mismatch(bbs))],
        ensures=[
            (
                "component-wise min/max over all operands" if _name == "bbox_union" else "component-wise max/min over all operands",
                lambda bbs, result, _lo=_lo, _hi=_hi: And(
                    result.left == __import__("functools").reduce(_lo, [b.left for b in bbs]),
                    result.bottom == __import__("functools").reduce(_lo, [b.bottom for b in bbs]),
                    result.right == __import__("functools").reduce(_hi, [b.right for b in bbs]),
                    result.top == __import__("functools").reduce(_hi, [b.top for b in bbs]),
                ),
            ),
            ("tagged with the operands' CRS", lambda bbs, result: _same_crs(result.crs, bbs[0].crs)),
        ],
        returns=lambda bbs: BBOX(None if bbs[0].crs is None else str(bbs[0].crs)),
        note="lists of 1-4 operands (the loop runs over a concrete-length list); CRS tags: every assignment of none/projected/geographic to 2-4 operands, other spelling",
    )


def _lemma_bbox_lattice(a, b, c):
    u, i = (lambda x, y: x | y), (lambda x, y: x & y)
    eq = lambda p, q: And(*[x == y for x, y in zip(box4(p), box4(q))])
    claim(And(eq(u(a, b), u(b, a)), eq(i(a, b), i(b, a))), "commutative")
    claim(And(eq(u(u(a, b), c), u(a, u(b, c))), eq(i(i(a, b), c), i(a, i(b, c)))), "associative")
    claim(And(eq(u(a, a), a), eq(i(a, a), a)), "idempotent")
    claim(And(eq(u(a, i(a, b)), a), eq(i(a, u(a, b)), a)), "absorbing")
    ab = u(a, b)
    claim(And(ab.left <= a.left, ab.bottom <= a.bottom, ab.right >= a.right, ab.top >= a.top), "union contains each operand")
    ib = i(a, b)
    claim(And(ib.left >= a.left, ib.bottom >= a.bottom, ib.right <= a.right, ib.top <= a.top), "intersection is contained in each operand")
    claim(And(_same_crs(ab.crs, a.crs), _same_crs(ib.crs, a.crs)), "CRS kept")


lemma("bbox.lattice_laws", ["C16"], inputs=dict(a=BBOX(), b=BBOX(), c=BBOX()), body=_lemma_bbox_lattice, note="over the contracts of bbox_union / bbox_intersection (BoundingBox.__or__/__and__ are one-line wrappers, run inline)")

contract(
    f"{GEOM}:BoundingBox.round",
    ["C16", "C12", "C02"],
    inputs=dict(self=BBOX(None)),
    ensures=[
        (
            "smallest integer box containing this one",
            lambda self, result: And(
                result.left <= self.left, self.left < result.left + 1, result.bottom <= self.bottom, self.bottom < result.bottom + 1,
                result.right >= self.right, self.right > result.right - 1, result.top >= self.top, self.top > result.top - 1,
                *[is_int_obj(v) for v in box4(result)],
            ),
        )
    ],
    # structured result: the very floor/ceil terms (shared with every other floor of the same
    # coordinate on the path), so callers need no integer reasoning to identify them
    returns=lambda self: Build(f"{GEOM}:BoundingBox", Value(floor(self.left)), Value(floor(self.bottom)), Value(ceil(self.right)), Value(ceil(self.top)), Value(self.crs)),
)

# ---- pixel_translation ----------------------------------------------------------------------------------------


def _rel(a, b):
    """~b.affine * a.affine computed with the affine package (the specification uses the library, not the repository code)"""
    return (~b.affine) * a.affine


def _close(x, v):
    return Abs(x - v) <= 1e-8 + 1e-5 * abs(v)


def _pt_rejects(a, b):
    if not _same_crs(a.crs, b.crs):
        return True
    M = _rel(a, b)
    return Not(And(_close(M.a, 1), _close(M.b, 0), _close(M.d, 0), _close(M.e, 1)))


def _shifted(base, t, shape, crs="EPSG:3857"):
    G = repo(GBX).GeoBox
    return G(shape, base.affine * T_(t[0], t[1]), crs_obj(crs))


def _nondegenerate(g):
    A = g.affine
    return A.a * A.e - A.b * A.d != 0


contract(
    f"{GBX}:pixel_translation",
    ["C16", "C01"],
    inputs=[
        # a is b's grid shifted by t (any real t): the general "common grid" family, any invertible base
        dict(b=GEOBOX(), t=Tup(Real(), Real()), sa=Tup(Int(ge=1), Int(ge=1)), a=Derived(lambda b, t, sa: _shifted(b, t, sa), "b's grid translated by t pixels")),
        # arbitrary pairs (for the rejection clause), same and different CRS
        dict(b=GEOBOX(), a=GEOBOX(), t=None, sa=None),
        dict(b=GEOBOX("EPSG:3857"), a=GEOBOX(None), t=None, sa=None),
        dict(b=GEOBOX("EPSG:4326"), a=GEOBOX("EPSG:3857"), t=None, sa=None),
    ],
    requires=[lambda a, b: And(_nondegenerate(a), _nondegenerate(b)), lambda a, b, t, sa: True if t is None else aff_eq(a.affine, b.affine * T_(t[0], t[1]))],
    raises=[(ValueError, lambda a, b, t: False if t is not None else _pt_rejects(a, b))],
    ensures=[
        ("translation, in pixels of b, that maps a's grid onto b's", lambda a, b, t, result: And(result.x == _rel(a, b).c, result.y == _rel(a, b).f) if t is None else And(result.x == t[0], result.y == t[1])),
    ],
    returns=lambda a, t: XYR() if t is None else Value(repo(TYPES).xy_(t[0], t[1])),
    note="rejection thresholds are numpy.isclose's (1e-8 + 1e-5), taken from the code; different CRS (incl. exactly one None) always rejected",
)

# ---- bounding_box_in_pixel_domain ------------------------------------------------------------------------------------

contract(
    f"{GBX}:bounding_box_in_pixel_domain",
    ["C16", "C01"],
    inputs=[
        dict(reference=GEOBOX(), t=Tup(Real(), Real()), sg=Tup(Int(ge=0), Int(ge=0)), geobox=Derived(lambda reference, t, sg: _shifted(reference, t, sg), "reference grid translated by t pixels, own shape"), tol=Real(gt=0, le=0.25)),
    ],
    requires=[lambda reference: _nondegenerate(reference), lambda geobox, reference, t: aff_eq(geobox.affine, reference.affine * T_(t[0], t[1])), lambda geobox, reference: _same_crs(geobox.crs, reference.crs)],
    raises=[(ValueError, lambda t, tol: Not(And(_dist_int(t[0]) < tol, _dist_int(t[1]) < tol)))],
    ensures=[
        (
            "the integer pixel rectangle of `geobox` in the reference grid: [round(t), round(t) + shape)",
            lambda t, sg, result: And(
                is_int_obj(result.left), is_int_obj(result.bottom),
                Abs(result.left - t[0]) == _dist_int(t[0]), Abs(result.bottom - t[1]) == _dist_int(t[1]),
                result.right == result.left + sg[1], result.top == result.bottom + sg[0], result.crs is None,
            ),
        ),
    ],
    ghost_args={f"{GBX}:pixel_translation": lambda t, sg: dict(t=t, sa=sg)},
    returns=lambda geobox: Build(f"{GEOM}:BoundingBox", Int(), Int(), Int(), Int(), CRSShape(None)),
    note="sub-pixel offsets beyond tol are rejected (ValueError), never silently snapped",
)


def _dist_int(x):
    f = floor(x)
    return Min(x - f, f + 1 - x)


# ---- union / intersection of GeoBoxes on a common grid ---------------------------------------------------------


def _family(k):
    d = dict(ref=GEOBOX(min_side=0))
    for i in range(1, k):
        d[f"t{i}"] = Tup(Int(), Int())
        d[f"s{i}"] = Tup(Int(ge=0), Int(ge=0))
    d["geoboxes"] = Derived(lambda **kw: [kw["ref"]] + [_shifted(kw["ref"], kw[f"t{i}"], kw[f"s{i}"]) for i in range(1, k)], f"{k} GeoBoxes on the grid of the first, shifted by whole pixels, arbitrary shapes")
    return d


def _px_rects(kw):
    """integer rectangles (x0, y0, x1, y1) of the family members in the reference grid"""
    ref = kw["ref"]
    out = [(0, 0, ref.shape.x, ref.shape.y)]
    i = 1
    while f"t{i}" in kw:
        (tx, ty), (ny, nx) = kw[f"t{i}"], kw[f"s{i}"]
        out.append((tx, ty, tx + nx, ty + ny))
        i += 1
    return out


def _red(op, vals):
    return __import__("functools").reduce(op, vals)


def _family_binder(call_index=0, **kw):
    if call_index == 0:
        return dict(t=(0, 0), sg=tuple(kw["ref"].shape.yx))
    return dict(t=kw[f"t{call_index}"], sg=kw[f"s{call_index}"])


def _kwargs_lambda(fn, names):
    """build a lambda with explicit parameter names (call_by_name matches by name)"""
    src = f"lambda {', '.join(names)}: fn(dict({', '.join(f'{n}={n}' for n in names)}))"
    return eval(src, {"fn": fn})  # pylint: disable=eval-used


def _union_post(kw):
    rects, ref, res = _px_rects(kw), kw["ref"], kw["result"]
    x0, y0 = _red(Min, [r[0] for r in rects]), _red(Min, [r[1] for r in rects])
    x1, y1 = _red(Max, [r[2] for r in rects]), _red(Max, [r[3] for r in rects])
    return And(aff_eq(res.affine, ref.affine * T_(x0, y0)), res.shape.x == x1 - x0, res.shape.y == y1 - y0, _same_crs(res.crs, ref.crs))


def _inter_post(kw):
    rects, ref, res = _px_rects(kw), kw["ref"], kw["result"]
    x0, y0 = _red(Max, [r[0] for r in rects]), _red(Max, [r[1] for r in rects])
    x1, y1 = _red(Min, [r[2] for r in rects]), _red(Min, [r[3] for r in rects])
    return And(aff_eq(res.affine, ref.affine * T_(x0, y0)), res.shape.x == Max(x1 - x0, 0), res.shape.y == Max(y1 - y0, 0), _same_crs(res.crs, ref.crs))


for _name, _post, _text in (
    ("geobox_union_conservative", _union_post, "smallest GeoBox on the common grid containing all operands: px(result) = bounding rectangle of the px(g_i)"),
    ("geobox_intersection_conservative", _inter_post, "exactly the shared pixels: px(result) = intersection of the px(g_i), an empty (zero width/height) GeoBox when there are none"),
):
    _cases = [_family(k) for k in (1, 2, 3)]
    contract(
        f"{GBX}:{_name}",
        ["C16"],
        inputs=_cases,
        requires=[lambda ref: _nondegenerate(ref)],
        ensures=[(_text, (lambda _post: (lambda **kw: _post(kw)))(_post))],
        ghost_args={f"{GBX}:bounding_box_in_pixel_domain": (lambda **kw: _family_binder(**kw))},
        returns=lambda: GEOBOX(min_side=0),
        note="families of 1-3 GeoBoxes: base grid (any invertible affine: north-up, mirrored, rotated, sheared) x integer pixel shifts x arbitrary shapes",
    )

contract(
    f"{GBX}:GeoBox.overlap_roi",
    ["C16", "C01"],
    inputs=dict(self=GEOBOX(min_side=0), t=Tup(Int(), Int()), so=Tup(Int(ge=0), Int(ge=0)), other=Derived(lambda self, t, so: _shifted(self, t, so), "self's grid shifted by whole pixels, own shape"), tol=Real(gt=0, le=0.25)),
    requires=[lambda self: _nondegenerate(self)],
    ensures=[
        (
            "indexes exactly the shared pixels within self: px(self) n px(other), in self's indices, clamped to self",
            lambda self, t, so, result: And(
                result[1].start == Max(0, t[0]),
                result[0].start == Max(0, t[1]),
                result[1].stop == Min(t[0] + so[1], self.shape.x),
                result[0].stop == Min(t[1] + so[0], self.shape.y),
            ),
        )
    ],
    ghost_args={f"{GBX}:bounding_box_in_pixel_domain": lambda t, so: dict(t=t, sg=so)},
)


def _lemma_gbox_setops(ref, t1, s1, t2, s2):
    """commutativity / associativity of | and & on a common grid, over the contracts"""
    a, b, c = ref, _shifted(ref, t1, s1), _shifted(ref, t2, s2)
    m = repo(GBX)
    U, I = m.geobox_union_conservative, m.geobox_intersection_conservative
    same = lambda p, q: And(aff_eq(p.affine, q.affine), p.shape.x == q.shape.x, p.shape.y == q.shape.y)
    # pixel rectangles are canonical: a result is determined by its rectangle in the grid of `ref`
    ab, ba = U([a, b]), U([b, a])
    claim(And(ab.shape.x == ba.shape.x, ab.shape.y == ba.shape.y), "union: same extent either way")
    claim(aff_eq(ab.affine, ref.affine * T_(Min(0, t1[0]), Min(0, t1[1]))), "a|b sits at the common corner")
    iab, iba = I([a, b]), I([b, a])
    claim(And(iab.shape.x == iba.shape.x, iab.shape.y == iba.shape.y), "intersection: same extent either way")


lemma(
    "geobox.union_intersection_symmetric_extent",
    ["C16"],
    inputs=dict(ref=GEOBOX(min_side=0), t1=Tup(Int(), Int()), s1=Tup(Int(ge=0), Int(ge=0)), t2=Tup(Int(), Int()), s2=Tup(Int(ge=0), Int(ge=0))),
    requires=[lambda ref: _nondegenerate(ref)],
    body=_lemma_gbox_setops,
    ghost_args={
        f"{GBX}:geobox_union_conservative": lambda call_index, t1, s1: dict(t1=t1, s1=s1) if call_index == 0 else dict(t1=(-t1[0], -t1[1]), s1=None),
    },
    note="commutativity at the level of extents; the affine of b|a is expressed in b's grid and equals that of a|b only up to the (exact, real) identity base*T(t)*T(-t) = base",
    verify=False,
    trusted_reason="superseded by the pixel-rectangle contracts: px(a|b) and px(a&b) are symmetric and associative expressions (min/max) of the operands' rectangles",
)


contract(
    f"{GBX}:GeoBox.translate_pix",
    ["C16", "C02"],
    inputs=dict(self=GEOBOX(), tx=Real(), ty=Real()),
    ensures=[
        ("pixel (i, j) of the result is pixel (i + tx, j + ty) of the original: affine = A * T(tx, ty); same shape and CRS", lambda self, tx, ty, result: And(aff_eq(result.affine, self.affine * T_(tx, ty)), result.shape.x == self.shape.x, result.shape.y == self.shape.y, result.crs is self.crs)),
    ],
    returns=lambda self: GEOBOX(),
)


def _lemma_snap_to(base, t, shape):
    """self = base grid shifted by an arbitrary real t; snapping to base moves self by (dx, dy) with
    |d| <= 1/2 such that t + d is a whole number of pixels (up to the 1e-8 below which the movement
    is dropped)"""
    G = repo(GBX).GeoBox
    me = G(shape, base.affine * T_(t[0], t[1]), base.crs)
    r = me.snap_to(base)
    calls = calls_of(f"{GBX}:GeoBox.translate_pix")
    claim(len(calls) == 1 and calls[0]["self"] is me, "the result is self translated in pixel space")
    dx, dy = calls[0]["tx"], calls[0]["ty"]
    claim(And(Abs(dx) <= 0.5, Abs(dy) <= 0.5), "moved by at most half a pixel")
    whole, _sub = calls_of("odc.geo.math:split_translation")[0]["__result__"]
    claim(And(is_int_valued(whole.x), is_int_valued(whole.y)), "whole-pixel part is integral")
    claim(And(Abs(t[0] + dx + whole.x) < 1e-8, Abs(t[1] + dy + whole.y) < 1e-8), "after the move the offset to the other grid is that whole number of pixels (up to the 1e-8 below which a movement is dropped)")


lemma(
    "geobox.snap_to",
    ["C16"],
    inputs=dict(base=GEOBOX(), t=Tup(Real(), Real()), shape=Tup(Int(ge=1), Int(ge=1))),
    requires=[lambda base: _nondegenerate(base)],
    body=_lemma_snap_to,
    unstub=[f"{GBX}:GeoBox.snap_to"],
    ghost_args={f"{GBX}:pixel_translation": lambda t, shape: dict(t=(-t[0], -t[1]), sa=None)},
)

# ---- enclosing ----------------------------------------------------------------------------------------------------
#
# The region's image in the pixel plane of `self` is a ghost: its bounding box [px0, px1] x [py0, py1].
# GeoBox.project (shapely transform + pyproj when the CRSs differ) is ASSUMED to return that image; the
# stand-in region answers `project` only for itself -- anything derived from it (its envelope, its
# bounding box polygon) has a different, larger-or-equal, unconstrained image.


class PixImage:
    """stand-in for the pixel-plane Geometry returned by GeoBox.project"""

    def __init__(self, bb):
        self.boundingbox = bb
        self.crs = None


class RegionWithImage:
    """stand-in Geometry with a CRS whose image under `owner.project` has the given pixel bounding box"""

    def __init__(self, owner, px, crs, exact=True):
        self.owner, self.px, self.crs, self.exact = owner, px, crs, exact

    def _bigger(self, why):
        c = __import__("pyvc.sym", fromlist=["ctx"]).ctx()
        x0, y0, x1, y1 = self.px
        q = [c.fresh_real(f"{why}.{n}") for n in ("x0", "y0", "x1", "y1")]
        c.assume(And(q[0] <= x0, q[1] <= y0, q[2] >= x1, q[3] >= y1))
        return RegionWithImage(self.owner, tuple(q), self.crs, exact=False)

    @property
    def envelope(self):
        return self._bigger("envelope")

    @property
    def polygon(self):
        return self

    @property
    def convex_hull(self):
        return self

    def __vc_src__(self, model, c):
        from pyvc.engine import to_src

        return f"R('contracts.geobox_c:native_region')({to_src(self.owner, model, c)}, {', '.join(to_src(v, model, c) for v in self.px)})"


def native_region(g, px0, py0, px1, py1):
    """a real triangle whose image in g's pixel plane has exactly this bounding box"""
    from odc.geo.geom import polygon

    pts = [(px0, py0), (px1, py0), ((px0 + px1) / 2, py1), (px0, py0)]
    return polygon([g.affine * p for p in pts], g.crs)


def _region_geom(owner, px, crs):
    """the stand-in region as an instance of the (shadow-loaded) Geometry class too: code that dispatches on
    isinstance(region, Geometry) follows the geometry branch"""
    cls = type("RegionGeom", (RegionWithImage, repo(GEOM).Geometry), {})
    r = cls.__new__(cls)
    RegionWithImage.__init__(r, owner, px, crs)
    return r


def _mk_region(self, px0, py0, px1, py1):
    if symbolic():
        return _region_geom(self, (px0, py0, px1, py1), self.crs)
    return native_region(self, px0, py0, px1, py1)


def _mk_bbox_region(self, px0, py0, px1, py1):
    """a BoundingBox region (any CRS): its POLYGON has the ghost pixel image [px0,px1]x[py0,py1]; projecting the BOX itself
    (corners to the grid's CRS, then into the pixel plane) gives something that merely contains that image"""
    BB = repo(GEOM).BoundingBox
    if not symbolic():
        r = native_region(self, px0, py0, px1, py1)
        return BB(*r.boundingbox.bbox, r.crs)
    gbox = self

    class BoxWithImage(BB):
        @property
        def polygon(self_inner):
            return _region_geom(gbox, (px0, py0, px1, py1), gbox.crs)

        def to_crs(self_inner, crs, *a, **k):
            return self_inner

        def transform(self_inner, A, *a, **k):
            big = RegionWithImage(gbox, (px0, py0, px1, py1), gbox.crs)._bigger("box-corners")
            return BB(*big.px, None)

        def __vc_src__(self_inner, model, c):
            from pyvc.engine import to_src

            return f"R('contracts.geobox_c:native_bbox_region')({to_src(gbox, model, c)}, {', '.join(to_src(v, model, c) for v in (px0, py0, px1, py1))})"

    return BoxWithImage(0.0, 0.0, 1.0, 1.0, gbox.crs)


def native_bbox_region(g, px0, py0, px1, py1):
    r = native_region(g, px0, py0, px1, py1)
    return type(r.boundingbox)(*r.boundingbox.bbox, r.crs)


contract(
    f"{GBX}:GeoBoxBase.project",
    ["C16"],
    inputs=dict(self=GEOBOX(), g=Custom(lambda nm: None, "region")),
    returns=lambda self, g: Value(PixImage(repo(GEOM).BoundingBox(*g.px, None)))
    if isinstance(g, RegionWithImage) and g.owner is self
    # any OTHER geometry: nothing is known about its image (an arbitrary box)
    else Custom(lambda nm: PixImage(repo(GEOM).BoundingBox(*[Real().make(f"{nm}.{k}") for k in ("x0", "y0", "x1", "y1")], None)), "image of an unknown geometry: arbitrary"),
    verify=False,
    trusted_reason="shapely affine transform (+ pyproj when the CRSs differ): assumed to return the region's image in the pixel plane; the stub hands back the ghost image of the stand-in region",
)


def _enclosing_grid(self, px0, py0, px1, py1, result):
    # on the source grid: a whole-pixel translation of self, same CRS
    return And(aff_eq(result.affine, self.affine * T_(floor(px0), floor(py0))), result.crs is self.crs)


def _enclosing_covers(self, px0, py0, px1, py1, result):
    tx, ty = floor(px0), floor(py0)
    nx, ny = result.shape.x, result.shape.y
    return And(nx >= 1, ny >= 1, tx <= px0, ty <= py0, tx + nx >= px1, ty + ny >= py1)


def _enclosing_tight(self, px0, py0, px1, py1, result):
    # a region whose span rounds to no pixel at all gets one pixel
    tx, ty = floor(px0), floor(py0)
    nx, ny = result.shape.x, result.shape.y
    return And(px0 - tx < 1, py0 - ty < 1, Or(tx + nx - px1 < 1, And(nx == 1, px1 == tx)), Or(ty + ny - py1 < 1, And(ny == 1, py1 == ty)))


def _enclosing_oracle(args, run):
    """native: the region's pixel image computed independently with the affine package"""
    import math

    import shapely

    g, region = args["self"], args["region"]
    kind, r = run()
    if kind == "raise":
        return [f"no-exception:{type(r).__name__}"]
    shape_ = region.polygon.geom if not hasattr(region, "geom") else region.geom
    if not hasattr(region, "geom") and region.crs != g.crs:
        shape_ = region.polygon.to_crs(g.crs).geom
    pts = [(~g.affine) * (x, y) for x, y in shapely.get_coordinates(shape_).tolist()]
    px0, px1 = min(p[0] for p in pts), max(p[0] for p in pts)
    py0, py1 = min(p[1] for p in pts), max(p[1] for p in pts)
    fails = []
    t = (~g.affine) * r.affine
    tx, ty = t.c, t.f
    eps = 1e-6
    if not (abs(t.a - 1) < 1e-9 and abs(t.e - 1) < 1e-9 and abs(t.b) < 1e-9 and abs(t.d) < 1e-9 and abs(tx - round(tx)) < eps and abs(ty - round(ty)) < eps):
        fails.append("post:on the source grid")
    nx, ny = r.shape.x, r.shape.y
    if not (tx <= px0 + eps and ty <= py0 + eps and tx + nx >= px1 - eps and ty + ny >= py1 - eps):
        fails.append("post:covers the region")
    if not (px0 - tx < 1 + eps and py0 - ty < 1 + eps and (tx + nx - px1 < 1 + eps or nx == 1) and (ty + ny - py1 < 1 + eps or ny == 1)):
        fails.append(f"post:exceeds the region by less than one pixel per side (region px [{px0:.3f},{px1:.3f}]x[{py0:.3f},{py1:.3f}], result origin ({tx:.3f},{ty:.3f}) shape {nx}x{ny})")
    return fails


contract(
    f"{GBX}:GeoBox.enclosing",
    ["C16"],
    inputs=[
        dict(self=GEOBOX(), px0=Real(), py0=Real(), px1=Real(), py1=Real(), region=Derived(_mk_region, "region whose pixel image is [px0,px1]x[py0,py1]")),
        dict(self=GEOBOX(), px0=Real(), py0=Real(), px1=Real(), py1=Real(), region=Derived(_mk_bbox_region, "BoundingBox whose polygon's pixel image is [px0,px1]x[py0,py1]")),
    ],
    requires=[lambda self, px0, py0, px1, py1: And(px0 <= px1, py0 <= py1, _nondegenerate(self))],
    ensures=[
        ("lies on the source grid (whole-pixel translation of self, same CRS)", _enclosing_grid),
        ("covers the region", _enclosing_covers),
        ("exceeds the region by less than one pixel per side", _enclosing_tight),
    ],
    native_oracle=_enclosing_oracle,
    note="the region is a stand-in whose image in the pixel plane is a ghost rectangle (any region, any CRS: the projection itself is assumed), given as a geometry or as a BoundingBox (whose POLYGON must be projected: its corners alone over-approximate); natively a real triangle / its bounding box",
)

# =====================================================================================================
# C02 -- GeoBox views agree with the pixel-to-world mapping
# =====================================================================================================
#
# A view-changing operation is specified by the pixel-space map M it prescribes:
#     result.pix2wld(i, j) == self.pix2wld(M (i, j))  for all real (i, j)   <=>   result.affine == self.affine * M
# together with the new shape and the unchanged CRS.  M is written with the affine LIBRARY in the
# specification (translations, scales, rotations), from the operation's documented meaning.

AFF = lambda: repo("affine").Affine  # noqa: E731


def S_(sx, sy):
    return AFF().scale(sx, sy)


def view(result, self, M, shape_yx=None):
    cl = [aff_eq(result.affine, self.affine * M), result.crs is self.crs]
    if shape_yx is not None:
        cl += [result.shape.y == shape_yx[0], result.shape.x == shape_yx[1]]
    return And(*cl)


def _lemma_pix_wld_inverse(g, x, y):
    wx, wy = g.pix2wld(x, y)
    px, py = g.wld2pix(wx, wy)
    claim(And(px == x, py == y), "wld2pix(pix2wld(p)) == p")
    qx, qy = g.wld2pix(x, y)
    vx, vy = g.pix2wld(qx, qy)
    claim(And(vx == x, vy == y), "pix2wld(wld2pix(w)) == w")
    A = g.affine
    claim(And(wx == A.a * x + A.b * y + A.c, wy == A.d * x + A.e * y + A.f), "pix2wld is the affine map")


lemma("geobox.pix2wld_wld2pix_inverse", ["C02"], inputs=dict(g=GEOBOX(), x=Real(), y=Real()), requires=[lambda g: _nondegenerate(g)], body=_lemma_pix_wld_inverse, note="any invertible affine: mirrored, non-square, rotated, sheared")


def _corners(shape_xy, A):
    nx, ny = shape_xy
    return [(A.c, A.f), (A.a * nx + A.c, A.d * nx + A.f), (A.a * nx + A.b * ny + A.c, A.d * nx + A.e * ny + A.f), (A.b * ny + A.c, A.e * ny + A.f)]


contract(
    f"{GEOM}:BoundingBox.from_transform",
    ["C02"],
    inputs=dict(shape=Tup(Int(ge=1), Int(ge=1)), transform=AFFINE(), crs=CRSShape("EPSG:3857")),
    ensures=[
        (
            "contains the images of all four corners of the pixel rectangle and is tight (each side touched by a corner image)",
            lambda shape, transform, result: And(
                *[And(result.left <= x, x <= result.right, result.bottom <= y, y <= result.top) for x, y in _corners((shape[1], shape[0]), transform)],
                Or(*[result.left == x for x, _ in _corners((shape[1], shape[0]), transform)]),
                Or(*[result.right == x for x, _ in _corners((shape[1], shape[0]), transform)]),
                Or(*[result.bottom == y for _, y in _corners((shape[1], shape[0]), transform)]),
                Or(*[result.top == y for _, y in _corners((shape[1], shape[0]), transform)]),
            ),
        ),
        ("CRS kept", lambda crs, result: result.crs is crs),
    ],
    returns=lambda crs: Build(f"{GEOM}:BoundingBox", Real(), Real(), Real(), Real(), CRSShape(None if crs is None else str(crs))),
)

contract(
    f"{GBX}:GeoBoxBase.boundingbox",
    ["C02"],
    inputs=dict(self=GEOBOX()),
    ensures=[("bounding box of the footprint: from_transform of shape/affine/CRS", lambda self, result: And(*[And(result.left <= x, x <= result.right, result.bottom <= y, y <= result.top) for x, y in _corners(self.shape.xy, self.affine)]))],
    ghost_args={},
    returns=lambda self: BBOX(),
)


class PolygonStandIn:
    def __init__(self, outer, crs, inners=()):
        self.outer, self.crs, self.inners = outer, crs, inners


contract(
    f"{GEOM}:polygon",
    ["C02"],
    inputs=dict(outer=Tup(Tup(Real(), Real()), Tup(Real(), Real()), Tup(Real(), Real()), as_list=True), crs=CRSShape(None)),
    ensures=[("a polygon with exactly this outer ring and CRS", lambda outer, crs, result: True)],
    returns=lambda outer, crs, inners=(): Value(PolygonStandIn(list(outer), crs, inners)),
    verify=False,
    trusted_reason="thin wrapper handing the ring to shapely (GeoJSON-like dict): assumed; the stub returns a stand-in that remembers ring and CRS",
)

contract(
    f"{GEOM}:polygon_from_transform",
    ["C02"],
    inputs=dict(shape=Tup(Int(ge=1), Int(ge=1)), transform=AFFINE(), crs=CRSShape("EPSG:3857")),
    ensures=[
        (
            "the footprint ring is the images of the four pixel-rectangle corners, in ring order, closed",
            lambda shape, transform, crs, result: And(
                len(result.outer) == 5,
                *[And(p[0] == q[0], p[1] == q[1]) for p, q in zip(result.outer, [_corners((shape[1], shape[0]), transform)[k] for k in (0, 3, 2, 1, 0)])],
                result.crs is crs,
            ),
        )
    ],
)

# ---- cropping / indexing ---------------------------------------------------------------------------------------------------------

_ROI1 = OneOf(Int(), Slice(Opt(Int()), Opt(Int()), None))


def _crop_axes(roi, shape_yx):
    """normalised (start, size) per axis for the supported index forms"""
    from .roi_c import norm_bound

    if is_int_obj(roi) or isinstance(roi, slice):
        roi = (roi, slice(None, None))  # a single row (negative counts from the end) / a range of rows: numpy's meaning
    out = []
    for s, n in zip(roi, shape_yx):
        if is_int_obj(s):
            a = idx_norm(s, n)
            out.append((a, 1))
        else:
            a, b = norm_bound(s.start, 0, n), norm_bound(s.stop, n, n)
            out.append((a, Max(0, b - a)))  # an empty range has no rows, not a negative number of them
    return out


contract(
    f"{GBX}:GeoBoxBase.compute_crop",
    ["C02", "C04"],
    inputs=[dict(self=GEOBOX(), roi=Tup(_ROI1, _ROI1)), dict(self=GEOBOX(), roi=_ROI1)],
    ensures=[
        (
            "crop: pixel (i, j) of the result is pixel (i + tx, j + ty) of the original, (ty, tx) the (numpy-normalised) start of the region; shape is the region's size",
            lambda self, roi, result: And(
                aff_eq(result[1], self.affine * T_(_crop_axes(roi, self.shape.yx)[1][0], _crop_axes(roi, self.shape.yx)[0][0])),
                result[0].y == _crop_axes(roi, self.shape.yx)[0][1],
                result[0].x == _crop_axes(roi, self.shape.yx)[1][1],
            ),
        )
    ],
    returns=lambda self: Tup(Build(f"{TYPES}:Shape2d", x=Int(), y=Int()), AFFINE()),
    note="index forms: (row, col) of ints/slices incl. negative and open-ended, a single int, a single slice; Geometry/BoundingBox/GeoBox regions go through pyproj/shapely and are not decided",
)

contract(
    f"{GBX}:GeoBox.__getitem__",
    ["C02", "C04"],
    inputs=[dict(self=GEOBOX(), roi=Tup(_ROI1, _ROI1)), dict(self=GEOBOX(), roi=_ROI1)],
    ensures=[
        (
            "same CRS; placed and sized as numpy indexing of the pixel array prescribes (rows / columns counted from the end when negative; an empty range gives an empty GeoBox)",
            lambda self, roi, result: view(result, self, T_(_crop_axes(roi, self.shape.yx)[1][0], _crop_axes(roi, self.shape.yx)[0][0]), (_crop_axes(roi, self.shape.yx)[0][1], _crop_axes(roi, self.shape.yx)[1][1])),
        )
    ],
    returns=lambda self: GEOBOX(min_side=0),
)

# ---- simple views ------------------------------------------------------------------------------------------------------------------

contract(
    f"{GBX}:GeoBox.pad",
    ["C02"],
    inputs=dict(self=GEOBOX(), padx=Int(ge=0), pady=OneOf(None, Int(ge=0))),
    ensures=[("grown by pad pixels on every side: pixel (i, j) is old pixel (i - padx, j - pady); covers the original", lambda self, padx, pady, result: view(result, self, T_(-padx, -(padx if pady is None else pady)), (self.shape.y + 2 * (padx if pady is None else pady), self.shape.x + 2 * padx)))],
)
contract(
    f"{GBX}:GeoBox.pad_wh",
    ["C02", "C05"],
    inputs=dict(self=GEOBOX(), alignx=Int(ge=1), aligny=OneOf(None, Int(ge=1))),
    ensures=[
        (
            "same origin, shape rounded up to multiples of the alignment (grows right/bottom only)",
            lambda self, alignx, aligny, result: And(
                view(result, self, T_(0, 0)),
                result.shape.x % alignx == 0, result.shape.x >= self.shape.x, result.shape.x - self.shape.x < alignx,
                result.shape.y % (alignx if aligny is None else aligny) == 0, result.shape.y >= self.shape.y, result.shape.y - self.shape.y < (alignx if aligny is None else aligny),
            ),
        )
    ],
)
contract(
    f"{GBX}:GeoBox.crop",
    ["C02", "C05"],
    inputs=dict(self=GEOBOX(), shape=Tup(Int(ge=0), Int(ge=0))),
    ensures=[("same origin and pixel grid, new shape (crop / expand)", lambda self, shape, result: view(result, self, T_(0, 0), shape))],
)
contract(
    f"{GBX}:GeoBox.flipx",
    ["C02"],
    inputs=dict(self=GEOBOX()),
    ensures=[("pixel (i, j) is old pixel (nx - i, j)", lambda self, result: view(result, self, T_(self.shape.x, 0) * S_(-1, 1), self.shape.yx))],
)
contract(
    f"{GBX}:GeoBox.flipy",
    ["C02"],
    inputs=dict(self=GEOBOX()),
    ensures=[("pixel (i, j) is old pixel (i, ny - j)", lambda self, result: view(result, self, T_(0, self.shape.y) * S_(1, -1), self.shape.yx))],
)
for _nm, _dx, _dy in (("left", -1, 0), ("right", 1, 0), ("top", 0, -1), ("bottom", 0, 1)):
    contract(
        f"{GBX}:GeoBox.{_nm}",
        ["C02"],
        inputs=dict(self=GEOBOX()),
        ensures=[(f"neighbour to the {_nm}: same grid shifted by one whole GeoBox", lambda self, result, _dx=_dx, _dy=_dy: view(result, self, T_(_dx * self.shape.x, _dy * self.shape.y), self.shape.yx))],
        ghost_args={},
    )
contract(
    f"{GBX}:GeoBox.__mul__",
    ["C02"],
    inputs=dict(self=GEOBOX(), transform=AFFINE()),
    ensures=[("pixel-side transform: affine = A * M", lambda self, transform, result: view(result, self, transform, self.shape.yx))],
    inline=True,
)
contract(
    f"{GBX}:GeoBox.__rmul__",
    ["C02"],
    inputs=dict(self=GEOBOX(), transform=AFFINE()),
    ensures=[("world-side transform: affine = M * A", lambda self, transform, result: And(aff_eq(result.affine, transform * self.affine), result.crs is self.crs, result.shape.x == self.shape.x))],
    inline=True,
)

# ---- zooming -----------------------------------------------------------------------------------------------------------------------------

contract(
    f"{GBX}:GeoBoxBase.compute_zoom_out",
    ["C02", "C03"],
    inputs=dict(self=GEOBOX(), factor=Real(gt=0)),
    ensures=[
        (
            "pixel (i, j) is old pixel (i*f, j*f); the shape is ceil(N/f) (at least 1) so the result covers the original",
            lambda self, factor, result: And(
                aff_eq(result[1], self.affine * S_(factor, factor)),
                *[And(n >= 1, n * factor >= N, Or(n == 1, (n - 1) * factor < N)) for n, N in zip(result[0].yx, self.shape.yx)],
            ),
        )
    ],
    returns=lambda self: Tup(Build(f"{TYPES}:Shape2d", x=Int(ge=1), y=Int(ge=1)), AFFINE()),
)
contract(
    f"{GBX}:GeoBoxBase.compute_zoom_to",
    ["C02"],
    inputs=[dict(self=GEOBOX(), shape=Tup(Int(ge=1), Int(ge=1)), resolution=None), dict(self=GEOBOX(), shape=OneOf(Int(ge=1), Real(gt=0)), resolution=None)],
    ensures=[
        (
            "to a shape (m, n): exactly that shape, pixel (i, j) is old pixel (i*N/n, j*M/m) -- same footprint; to a number: longest side shrunk to it via zoom_out",
            lambda self, shape, result: And(result[0].y == shape[0], result[0].x == shape[1], aff_eq(result[1], self.affine * S_(div(self.shape.x, shape[1]), div(self.shape.y, shape[0]))))
            if isinstance(shape, tuple)
            else And(aff_eq(result[1], self.affine * S_(div(Max(self.shape.x, self.shape.y), shape), div(Max(self.shape.x, self.shape.y), shape)))),
        )
    ],
    returns=lambda self: Tup(Build(f"{TYPES}:Shape2d", x=Int(ge=1), y=Int(ge=1)), AFFINE()),
    ghost_args={},
    note="zoom_to(resolution=...) goes through from_bbox(self.boundingbox, resolution, tight=True) (C08 contract); not restated here",
)
contract(
    f"{GBX}:GeoBox.zoom_out",
    ["C02"],
    inputs=dict(self=GEOBOX(), factor=Real(gt=0)),
    ensures=[("same CRS; as compute_zoom_out", lambda self, factor, result: And(view(result, self, S_(factor, factor)), *[And(n >= 1, n * factor >= N, Or(n == 1, (n - 1) * factor < N)) for n, N in zip(result.shape.yx, self.shape.yx)]))],
    returns=lambda self: GEOBOX(),
)
contract(
    f"{GBX}:GeoBox.zoom_to",
    ["C02"],
    inputs=dict(self=GEOBOX(), shape=Tup(Int(ge=1), Int(ge=1)), resolution=None),
    ensures=[("same CRS; exactly the requested shape over the same footprint", lambda self, shape, result: view(result, self, S_(div(self.shape.x, shape[1]), div(self.shape.y, shape[0])), shape))],
)
contract(
    f"{GBX}:scaled_down_geobox",
    ["C02", "C03"],
    inputs=dict(src_geobox=GEOBOX(), scaler=Int(ge=2)),
    ensures=[
        (
            "integer down-scaling: pixel (i, j) is old pixel (i*s, j*s); shape ceil(N/s) covers the original",
            lambda src_geobox, scaler, result: And(view(result, src_geobox, S_(scaler, scaler)), *[And((n - 1) * scaler < N, N <= n * scaler) for n, N in zip(result.shape.yx, src_geobox.shape.yx)]),
        )
    ],
    returns=lambda src_geobox: GEOBOX(),
)

# ---- rotation about the centre -------------------------------------------------------------------------------------------------------------


def _lemma_rotate(g, deg):
    r = g.rotate(deg)
    nx, ny = g.shape.x, g.shape.y
    cx, cy = g.pix2wld(nx * 0.5, ny * 0.5)
    rx, ry = r.pix2wld(nx * 0.5, ny * 0.5)
    claim(And(rx == cx, ry == cy), "the centre of the pixel rectangle keeps its world location")
    R = AFF().rotation(deg)
    A, B = g.affine, r.affine
    claim(And(R.a == R.e, R.b == -R.d, R.a * R.a + R.d * R.d == 1), "R(deg) is a proper rotation matrix")
    claim(And(B.a == R.a * A.a + R.b * A.d, B.b == R.a * A.b + R.b * A.e, B.d == R.d * A.a + R.e * A.d, B.e == R.d * A.b + R.e * A.e), "the linear part is pre-multiplied by R(deg)")
    claim(And(r.shape.x == nx, r.shape.y == ny, r.crs is g.crs), "shape and CRS kept")


lemma("geobox.rotate_about_centre", ["C02"], inputs=dict(g=GEOBOX(), deg=Real()), body=_lemma_rotate, unstub=[f"{GBX}:GeoBox.rotate"], note="cos/sin are uninterpreted functions with cos^2+sin^2=1; multiples of 90 degrees take the library's exact branch")

# ---- centre pixel, buffered ----------------------------------------------------------------------------------------------------------------------------


def _lemma_center_pixel(g):
    c = g.center_pixel
    claim(view(c, g, T_(py_floordiv(g.shape.x, 2), py_floordiv(g.shape.y, 2)), (1, 1)), "1x1 GeoBox at pixel (nx//2, ny//2)")


lemma("geobox.center_pixel", ["C02"], inputs=dict(g=GEOBOX()), body=_lemma_center_pixel, unstub=[f"{GBX}:GeoBox.center_pixel"], ghost_args={})

contract(
    f"{GBX}:_round_to_res",
    ["C02"],
    inputs=dict(value=Real(), res=OneOf(Real(gt=0), Real(lt=0))),
    ensures=[("smallest whole number of pixels covering value up to a tenth of a pixel", lambda value, res, result: And(is_int_obj(result), result * Abs(res) >= value - 0.1 * Abs(res), (result - 1) * Abs(res) < value - 0.1 * Abs(res)))],
    returns=lambda value: Int(),
)


# ---- resolution / buffered / coordinates (axis-aligned grids) -----------------------------------------------------------------------

contract(
    "odc.geo.math:resolution_from_affine",
    ["C02", "C20"],
    inputs=[
        dict(A=Build("affine:Affine", OneOf(Real(gt=0), Real(lt=0)), 0, Real(), 0, OneOf(Real(gt=0), Real(lt=0)), Real())),
        dict(A=Build("affine:Affine", Real(), Real(), Real(), Real(), Real(), Real())),
    ],
    requires=[lambda A: Or(And(A.b == 0, A.d == 0), And(A.a * A.e - A.b * A.d != 0, Or(Abs(A.b) >= 1e-10, Abs(A.d) >= 1e-10)))],
    ensures=[
        ("axis-aligned: the pixel size is (a, e), signs included", lambda A, result: Implies(And(A.b == 0, A.d == 0), And(result.x == A.a, result.y == A.e))),
        (
            "rotated / sheared: the diagonal of the scale factor of A = R W S (R rotation, W unit shear): rx > 0, rx^2 == a^2 + d^2 (length of the image of a pixel's X edge), rx * ry == det A",
            lambda A, result: Implies(Not(And(A.b == 0, A.d == 0)), And(result.x > 0, result.x * result.x == A.a * A.a + A.d * A.d, result.x * result.y == A.a * A.e - A.b * A.d)),
        ),
    ],
    returns=lambda A: Build(f"{TYPES}:Resolution", Real(), Real()),
    note="rotated / sheared transforms: proved against the ASSUMED documented form of decompose_rws (numpy.linalg; bounded check under C20); transforms whose rotation/shear terms are non-zero but below is_affine_st's 1e-10 are outside the quantifier",
)


def _AA_GEOBOX():
    """axis-aligned GeoBox: any shape, pixel size of either sign, any origin"""
    return Build(f"{GBX}:GeoBox", Tup(Int(ge=1), Int(ge=1)), Build("affine:Affine", OneOf(Real(gt=0), Real(lt=0)), 0, Real(), 0, OneOf(Real(gt=0), Real(lt=0)), Real()), CRSShape("EPSG:3857"))


def _buffered_post(self, xbuff, ybuff, result):
    yb = xbuff if ybuff is None else ybuff
    rx, ry = Abs(self.affine.a), Abs(self.affine.e)
    bx = (result.shape.x - self.shape.x) / 2
    by = (result.shape.y - self.shape.y) / 2
    return And(
        # same grid, grown symmetrically by whole pixels
        is_int_valued(bx),
        is_int_valued(by),
        aff_eq(result.affine, self.affine * T_(-bx, -by)),
        result.crs is self.crs,
        # X is buffered by the X amount in X pixels, Y by the Y amount in Y pixels:
        # at least the requested buffer (up to a tenth of a pixel), and no more than one pixel beyond it
        bx * rx >= xbuff - 0.1 * rx,
        (bx - 1) * rx < xbuff - 0.1 * rx,
        by * ry >= yb - 0.1 * ry,
        (by - 1) * ry < yb - 0.1 * ry,
    )


contract(
    f"{GBX}:GeoBox.buffered",
    ["C02"],
    inputs=dict(self=_AA_GEOBOX(), xbuff=Real(ge=0), ybuff=OneOf(None, Real(ge=0))),
    ensures=[("same grid grown by whole pixels on every side: each axis by ITS buffer measured in ITS pixel size, covering the request up to 0.1 px and exceeding it by less than a pixel", _buffered_post)],
    note="axis-aligned grids (any pixel size / sign, non-square pixels); rotated grids measure the buffer with the decomposed scale (numpy.linalg): not decided",
    inline=True,
)


def _coordinates_post(self, k, result):
    ydim, xdim = self.dimensions
    cx, cy = result[xdim], result[ydim]
    wx, _ = self.affine * (k + 0.5, 0.5)
    _, wy = self.affine * (0.5, k + 0.5)
    return And(
        cx.values.size == self.shape.x,
        cy.values.size == self.shape.y,
        Implies(k < self.shape.x, cx.values[k] == wx),
        Implies(k < self.shape.y, cy.values[k] == wy),
        cx.resolution == self.affine.a,
        cy.resolution == self.affine.e,
    )


contract(
    f"{GBX}:GeoBox.coordinates",
    ["C02", "C09"],
    inputs=dict(self=_AA_GEOBOX(), k=Int(ge=0)),
    ensures=[("one label per pixel per axis: label k is the world coordinate of the centre of pixel k (ghost k); resolution = signed pixel size", _coordinates_post)],
    note="numpy.arange through its arithmetic-progression model; k is a ghost index, universally quantified",
    inline=True,
)


# ---- GCP-based GeoBoxes: every view composes the control-point mapping with the pixel-space map ------------------------------------------
#
# The polynomial fit (p2w / w2p) is a pair of UNINTERPRETED functions of the mapping (its quality -- "up to
# the fit error of the control points" -- is numpy.linalg's, bounded under C20).  What is proved is that a
# GCPGeoBox is (shape, the SAME mapping object, pixel affine) and that every view operation changes the
# pixel affine exactly as for linear GeoBoxes, so   new.pix2wld(i, j) == old.pix2wld(phi(i, j)).

GCPM = "odc.geo.gcp"


class GhostMapping:
    """stand-in GCPMapping: .crs, p2w / w2p as uninterpreted functions, control points as ghost geometries"""

    def __init__(self, n_pts=2):
        self.crs = crs_obj("EPSG:4326")
        self._n = n_pts
        if symbolic():
            import z3

            R = z3.RealSort()
            self._f = {k: z3.Function(f"gcp_{k}", R, R, R) for k in ("p2w_x", "p2w_y", "w2p_x", "w2p_y")}

    def _ap(self, k, x, y):
        if not symbolic():
            c = {"p2w_x": (1.5, 0.25, 0.01), "p2w_y": (-0.5, 2.0, -0.02), "w2p_x": (0.75, -0.125, 0.03), "w2p_y": (0.25, 1.25, 0.015)}[k]
            return c[0] * x + c[1] * y + c[2] * x * y
        import z3

        from pyvc.sym import SymReal, term_of

        tx, ty = term_of(x)[0], term_of(y)[0]
        tx = z3.ToReal(tx) if z3.is_int(tx) else tx
        ty = z3.ToReal(ty) if z3.is_int(ty) else ty
        return SymReal(self._f[k](tx, ty))

    def p2w(self, x, y):
        return self._ap("p2w_x", x, y), self._ap("p2w_y", x, y)

    def w2p(self, x, y):
        return self._ap("w2p_x", x, y), self._ap("w2p_y", x, y)


def _gcp_box(shape, A, M):
    return repo(GCPM).GCPGeoBox(shape, M, A)


def _lemma_gcp_views(ny, nx, A, x, y, padx, pady, r0, r1, c0, c1, alignx):
    M = GhostMapping()
    g = _gcp_box((ny, nx), A, M)
    wx, wy = g.pix2wld(x, y)
    ax, ay = A * (x, y)
    ex, ey = M.p2w(ax, ay)
    claim(And(wx == ex, wy == ey), "pix2wld = control-point fit after the pixel affine")
    qx, qy = g.wld2pix(x, y)
    bx, by = M.w2p(x, y)
    ix, iy = (~A) * (bx, by)
    claim(And(approx_eq(qx, ix), approx_eq(qy, iy)), "wld2pix = inverse pixel affine after the inverse fit")
    claim(g.crs is M.crs and g.linear is False and g.axis_aligned is False, "CRS of the control points; not linear")

    def same_fit(h, Mphi, shape_yx, what):
        claim(h._mapping is M, f"{what}: the SAME control-point mapping (no refit)")
        claim(aff_eq(h._affine, A * Mphi), f"{what}: pixel (i, j) of the result is pixel phi(i, j) of the original")
        claim(And(h.shape.y == shape_yx[0], h.shape.x == shape_yx[1]), f"{what}: prescribed shape")
        claim(h.crs is M.crs, f"{what}: same CRS")

    same_fit(g.pad(padx, pady), T_(-padx, -(padx if pady is None else pady)), (ny + 2 * (padx if pady is None else pady), nx + 2 * padx), "pad")
    h = g[r0:r1, c0:c1]
    same_fit(h, T_(c0, r0), (r1 - r0, c1 - c0), "crop")
    w = g.pad_wh(alignx)
    claim(w._mapping is M and aff_eq(w._affine, A) and And(w.shape.x % alignx == 0, w.shape.x >= nx, w.shape.x - nx < alignx, w.shape.y % alignx == 0, w.shape.y >= ny, w.shape.y - ny < alignx), "pad_wh: same origin, sides rounded up to the alignment")


lemma(
    "gcp.views_compose_with_the_fit",
    ["C02"],
    inputs=dict(ny=Int(ge=1), nx=Int(ge=1), A=AFFINE(), x=Real(), y=Real(), padx=Int(ge=0), pady=OneOf(None, Int(ge=0)), r0=Int(ge=0), r1=Int(), c0=Int(ge=0), c1=Int(), alignx=Int(ge=1)),
    requires=[lambda A: A.a * A.e - A.b * A.d != 0, lambda ny, nx, r0, r1, c0, c1: And(r0 < r1, r1 <= ny, c0 < c1, c1 <= nx)],
    body=_lemma_gcp_views,
    unstub=[f"{GBX}:GeoBoxBase.compute_crop"],
    ghost_args={},
    note="p2w / w2p are uninterpreted functions of the (shared) mapping object: the identities hold for ANY fit; fit quality is numpy.linalg's (bounded, C20)",
)


def _lemma_gcp_zoom(ny, nx, A, factor, zy, zx):
    M = GhostMapping()
    g = _gcp_box((ny, nx), A, M)
    z = g.zoom_out(factor)
    claim(z._mapping is M and aff_eq(z._affine, A * S_(factor, factor)) and z.crs is M.crs, "zoom_out(f): pixel (i, j) is original pixel (i f, j f), same mapping")
    claim(And(*[And(n >= 1, n * factor >= N, Or(n == 1, (n - 1) * factor < N)) for n, N in zip(z.shape.yx, (ny, nx))]), "zoom_out(f): smallest shape covering the original")
    t = g.zoom_to((zy, zx))
    claim(t._mapping is M and And(t.shape.y == zy, t.shape.x == zx), "zoom_to(shape): exactly that shape, same mapping")
    claim(aff_eq(t._affine, A * S_(div(nx, zx), div(ny, zy))), "zoom_to(shape): pixel (i, j) is original pixel (i nx/zx, j ny/zy)")


lemma(
    "gcp.zoom_composes_with_the_fit",
    ["C02"],
    inputs=dict(ny=Int(ge=1), nx=Int(ge=1), A=AFFINE(), factor=Real(gt=0), zy=Int(ge=1), zx=Int(ge=1)),
    requires=[lambda A: A.a * A.e - A.b * A.d != 0],
    body=_lemma_gcp_zoom,
    unstub=[f"{GBX}:GeoBoxBase.compute_zoom_out", f"{GBX}:GeoBoxBase.compute_zoom_to"],
    ghost_args={},
)


class _GhostPt:
    def __init__(self, x, y):
        self.coords = [(x, y)]


class _GhostMP:
    def __init__(self, pts):
        self.geoms = [_GhostPt(*p) for p in pts]


def _lemma_gcp_gcps(ny, nx, A, p0x, p0y, p1x, p1y, w0x, w0y, w1x, w1y):
    """gcps(): control point k is reported at the pixel of THIS box that lands on its mapping-plane position"""
    M = GhostMapping()
    M.points = lambda: (_GhostMP([(p0x, p0y), (p1x, p1y)]), _GhostMP([(w0x, w0y), (w1x, w1y)]))
    g = _gcp_box((ny, nx), A, M)
    out = g.gcps()
    claim(len(out) == 2, "one ground control point per control point, in order")
    for k, (gp, (px, py), (wx, wy)) in enumerate(zip(out, [(p0x, p0y), (p1x, p1y)], [(w0x, w0y), (w1x, w1y)])):
        bx, by = A * (gp.col, gp.row)
        claim(And(approx_eq(bx, px), approx_eq(by, py)), f"point {k}: the pixel affine maps its (col, row) back onto the control point's pixel-plane position")
        claim(And(gp.x == wx, gp.y == wy), f"point {k}: world coordinates unchanged")
        claim(gp.id == k, f"point {k}: numbered in order")


lemma(
    "gcp.gcps_in_own_pixel_plane",
    ["C02", "C09"],
    inputs=dict(ny=Int(ge=1), nx=Int(ge=1), A=AFFINE(), p0x=Real(), p0y=Real(), p1x=Real(), p1y=Real(), w0x=Real(), w0y=Real(), w1x=Real(), w1y=Real()),
    requires=[lambda A: A.a * A.e - A.b * A.d != 0],
    body=_lemma_gcp_gcps,
    note="what xr_coords stores for a GCP GeoBox (cropped / padded / zoomed boxes included): shapely multipoints are ghost lists of points; rasterio's GroundControlPoint is a plain record",
)


# ---- union / intersection: commutative and associative (machine-checked over the contracts) -----------------------------------------


def _same_gbox(p, q):
    return And(aff_eq(p.affine, q.affine), p.shape.x == q.shape.x, p.shape.y == q.shape.y, _same_crs(p.crs, q.crs))


def _neg(t):
    return (-t[0], -t[1])


def _lemma_gbox_commute(ref, t1, s1):
    a, b = ref, _shifted(ref, t1, s1)
    m = repo(GBX)
    U, I = m.geobox_union_conservative, m.geobox_intersection_conservative
    claim(_same_gbox(U([a, b]), U([b, a])), "a | b == b | a (same grid, same placement, same shape)")
    iab, iba = I([a, b]), I([b, a])
    claim(And(iab.shape.x == iba.shape.x, iab.shape.y == iba.shape.y), "a & b and b & a have the same shape")
    claim(Implies(And(iab.shape.x > 0, iab.shape.y > 0), _same_gbox(iab, iba)), "a & b == b & a whenever they share a pixel (an empty result is placed relative to its first operand)")


def _commute_binder(call_index, ref, t1, s1):
    sa = tuple(ref.shape.yx)
    if call_index == 0:
        return dict(ref=ref, t1=t1, s1=s1)
    return dict(ref=_shifted(ref, t1, s1), t1=_neg(t1), s1=sa)


lemma(
    "geobox.union_intersection_commute",
    ["C16"],
    inputs=dict(ref=GEOBOX(min_side=0), t1=Tup(Int(), Int()), s1=Tup(Int(ge=0), Int(ge=0))),
    requires=[lambda ref: _nondegenerate(ref)],
    body=_lemma_gbox_commute,
    ghost_args={f"{GBX}:geobox_union_conservative": _commute_binder, f"{GBX}:geobox_intersection_conservative": _commute_binder},
    note="over the contracts of union / intersection: the second call is the same family described from the other member's grid (reference b, a shifted by -t); the stub checks that description against the actual operands",
)


def _lemma_gbox_assoc(ref, t1, s1, t2, s2):
    a, b, c = ref, _shifted(ref, t1, s1), _shifted(ref, t2, s2)
    m = repo(GBX)
    U = m.geobox_union_conservative
    ab = U([a, b])
    ab_c = U([ab, c])
    bc = U([b, c])
    a_bc = U([a, bc])
    abc = U([a, b, c])
    claim(_same_gbox(ab_c, abc), "(a | b) | c == union of all three")
    claim(_same_gbox(a_bc, abc), "a | (b | c) == union of all three")


def _assoc_binder(call_index, ref, t1, s1, t2, s2):
    nx, ny = ref.shape.x, ref.shape.y
    r = lambda t, s: (t[0], t[1], t[0] + s[1], t[1] + s[0])
    ra, rb, rc = (0, 0, nx, ny), r(t1, s1), r(t2, s2)
    hull = lambda p, q: (Min(p[0], q[0]), Min(p[1], q[1]), Max(p[2], q[2]), Max(p[3], q[3]))
    fam = lambda first, others: dict(ref=_shifted(ref, (first[0], first[1]), (first[3] - first[1], first[2] - first[0])), **{k: v for i, o in enumerate(others, 1) for k, v in ((f"t{i}", (o[0] - first[0], o[1] - first[1])), (f"s{i}", (o[3] - o[1], o[2] - o[0])))})
    if call_index == 0:
        return dict(ref=ref, t1=t1, s1=s1)
    if call_index == 1:
        return fam(hull(ra, rb), [rc])
    if call_index == 2:
        return fam(rb, [rc])
    if call_index == 3:
        return dict(ref=ref, t1=(hull(rb, rc)[0], hull(rb, rc)[1]), s1=(hull(rb, rc)[3] - hull(rb, rc)[1], hull(rb, rc)[2] - hull(rb, rc)[0]))
    return dict(ref=ref, t1=t1, s1=s1, t2=t2, s2=s2)


lemma(
    "geobox.union_associative",
    ["C16"],
    inputs=dict(ref=GEOBOX(min_side=0), t1=Tup(Int(), Int()), s1=Tup(Int(ge=0), Int(ge=0)), t2=Tup(Int(), Int()), s2=Tup(Int(ge=0), Int(ge=0))),
    requires=[lambda ref: _nondegenerate(ref)],
    body=_lemma_gbox_assoc,
    ghost_args={f"{GBX}:geobox_union_conservative": _assoc_binder},
    note="over the contract of union: every intermediate result is re-described as a family on its own first member's grid and that description is checked by the stub",
)


def _lemma_gcp_resolution(ny, nx, pa, pe, pc, pf, a, e, c, f):
    """resolution of a GCP GeoBox VIEW: pixel size of the best linear fit COMPOSED with the view's pixel affine"""
    aff = repo("affine").Affine
    M = GhostMapping()
    M.approx = aff(pa, 0, pc, 0, pe, pf)
    M.resolution = repo(TYPES).Resolution(pa, pe)  # what the un-derived mapping alone would report
    A = aff(a, 0, c, 0, e, f)
    g = _gcp_box((ny, nx), A, M)
    ap = g.approx
    claim(aff_eq(ap.affine, M.approx * A) and And(ap.shape.x == nx, ap.shape.y == ny) and ap.crs is M.crs, "approx: the linear fit of the control points composed with the view's pixel affine, same shape and CRS")
    r = g.resolution
    claim(And(r.x == pa * a, r.y == pe * e), "resolution follows the view: zooming out by f multiplies the pixel size by f (it is NOT the un-zoomed mapping's)")


lemma(
    "gcp.resolution_follows_the_view",
    ["C02"],
    inputs=dict(ny=Int(ge=1), nx=Int(ge=1), pa=Real(gt=0), pe=Real(lt=0), pc=Real(), pf=Real(), a=Real(gt=0), e=Real(gt=0), c=Real(), f=Real()),
    body=_lemma_gcp_resolution,
    ghost_args={},
    note="axis-aligned fit and view (the rotated case goes through decompose_rws: bounded, C20)",
)


# ---- derived GeoBoxes never inherit the receiver's lazily cached footprint ------------------------------------------------------------


class _CachedFootprint:
    """sentinel standing for a footprint polygon the receiver computed earlier (GeoBox.extent caches it in _extent)"""


_VIEW_OPS = {
    "zoom_out(2)": lambda g: g.zoom_out(2),
    "zoom_out(1.5)": lambda g: g.zoom_out(1.5),
    "zoom_to(shape)": lambda g: g.zoom_to((3, 5)),
    "zoom_to(int)": lambda g: g.zoom_to(7),
    "[1:, :-1]": lambda g: g[1:, :-1],
    "[:, :]": lambda g: g[:, :],
    "pad(2)": lambda g: g.pad(2),
    "pad_wh(4)": lambda g: g.pad_wh(4),
    "flipx": lambda g: g.flipx(),
    "flipy": lambda g: g.flipy(),
    "translate_pix": lambda g: g.translate_pix(3, -2),
    "left": lambda g: g.left,
    "bottom": lambda g: g.bottom,
    "rotate": lambda g: g.rotate(30),
    "center_pixel": lambda g: g.center_pixel,
    "g * A": lambda g: g * repo("affine").Affine.translation(1, 2),
    "A * g": lambda g: repo("affine").Affine.translation(1, 2) * g,
    "scaled_down_geobox": lambda g: repo(GBX).scaled_down_geobox(g, 2),
    "crop": lambda g: g.crop((2, 2)),
}


def _lemma_views_fresh_cache(g, op):
    stale = _CachedFootprint()
    g._extent = stale  # the receiver's footprint was looked at before
    out = _VIEW_OPS[op](g)
    claim(type(out).__name__ == "GeoBox", "a GeoBox comes back")
    claim(out is g or out._extent is not stale, "the derived GeoBox does not carry the receiver's cached footprint (its own footprint is computed from its own shape and affine)")
    claim(g._extent is stale, "the receiver keeps its own cache")


lemma(
    "geobox.views_do_not_inherit_cached_footprint",
    ["C02"],
    inputs=dict(g=GEOBOX(min_side=4), op=OneOf(*_VIEW_OPS)),
    body=_lemma_views_fresh_cache,
    unstub=[f"{GBX}:GeoBox.zoom_out", f"{GBX}:GeoBox.zoom_to", f"{GBX}:GeoBox.__getitem__", f"{GBX}:GeoBox.pad", f"{GBX}:GeoBox.pad_wh", f"{GBX}:GeoBox.flipx", f"{GBX}:GeoBox.flipy", f"{GBX}:GeoBox.translate_pix", f"{GBX}:GeoBox.__mul__", f"{GBX}:GeoBox.__rmul__", f"{GBX}:scaled_down_geobox", f"{GBX}:GeoBox.crop", f"{GBX}:GeoBox.left", f"{GBX}:GeoBox.right", f"{GBX}:GeoBox.top", f"{GBX}:GeoBox.bottom"],
    note="every view-changing operation on a receiver whose footprint is already cached (symbolic grid): state / history independence of the derived object's footprint",
)


# ---- cropping by a region (geometry or BoundingBox in any CRS): the crop covers the part of the region that lies in the image ----------


def _lemma_crop_by_region(g, px0, py0, px1, py1, form):
    region = (_mk_region if form == "geometry" else _mk_bbox_region)(g, px0, py0, px1, py1)
    shape, A = g.compute_crop(region)
    W, H = g.shape.x, g.shape.y
    nx, ny = shape.x, shape.y
    # the smallest whole-pixel rectangle around the region's pixel image, clipped to the image
    tx, ty = Max(floor(px0), 0), Max(floor(py0), 0)
    rx, ry = Min(ceil(px1), W), Min(ceil(py1), H)
    overlaps = And(px1 > 0, px0 < W, py1 > 0, py0 < H, px0 < px1, py0 < py1)
    claim(Implies(overlaps, aff_eq(A, g.affine * T_(tx, ty))), "origin: the pixel containing the region's top-left corner (clipped to the image) -- for a BoundingBox region too: its POLYGON is what gets projected")
    claim(Implies(overlaps, And(nx == rx - tx, ny == ry - ty)), "size: up to the pixel containing the region's bottom-right corner (clipped to the image)")
    claim(And(nx >= 1, ny >= 1), "at least one pixel")


def _crop_region_oracle(args):
    """native: the real compute_crop against the pixel image of the region's POLYGON computed with the affine package"""
    import math

    import shapely

    g, form = args["g"], args["form"]
    region = (_mk_region if form == "geometry" else _mk_bbox_region)(g, args["px0"], args["py0"], args["px1"], args["py1"])
    poly = region if hasattr(region, "geom") else region.polygon
    pts = [(~g.affine) * (x, y) for x, y in shapely.get_coordinates(poly.geom).tolist()]
    px0, px1 = min(p[0] for p in pts), max(p[0] for p in pts)
    py0, py1 = min(p[1] for p in pts), max(p[1] for p in pts)
    W, H = g.shape.x, g.shape.y
    try:
        shape, A = g.compute_crop(region)
    except Exception as e:  # pylint: disable=broad-except
        return [f"no-exception:{type(e).__name__}"]
    t = (~g.affine) * A
    tx, ty, nx, ny = t.c, t.f, shape.x, shape.y
    eps = 1e-6
    if not (px1 > 0 and px0 < W and py1 > 0 and py0 < H and px0 < px1 and py0 < py1):
        return []
    fails = []
    if not (tx <= max(px0, 0) + eps and tx + nx >= min(px1, W) - eps and ty <= max(py0, 0) + eps and ty + ny >= min(py1, H) - eps):
        fails.append(f"claim:the crop covers the part of the region's image inside the image (region px [{px0:.2f},{px1:.2f}]x[{py0:.2f},{py1:.2f}], crop origin ({tx:.2f},{ty:.2f}) {nx}x{ny})")
    if not (max(px0, 0) - tx < 1 + eps and tx + nx - min(px1, W) < 1 + eps and max(py0, 0) - ty < 1 + eps and ty + ny - min(py1, H) < 1 + eps):
        fails.append("claim:... and exceeds it by less than a pixel per side")
    return fails


lemma(
    "geobox.crop_by_region",
    ["C02"],
    native_oracle=_crop_region_oracle,
    inputs=dict(g=GEOBOX(), px0=Real(), py0=Real(), px1=Real(), py1=Real(), form=OneOf("geometry", "bbox")),
    requires=[lambda g, px0, py0, px1, py1: And(px0 <= px1, py0 <= py1, _nondegenerate(g))],
    body=_lemma_crop_by_region,
    unstub=[f"{GBX}:GeoBoxBase.compute_crop"],
    note="gbox[region] for a geometry / BoundingBox region in any CRS, over the same stand-in regions as GeoBox.enclosing (the projection itself assumed)",
)
