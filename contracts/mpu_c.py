"""
Contracts for odc/geo/cog/_mpu.py -- multi-part assembly.   Property: C06 (and the stream half of C05).

Model
-----
* bytes are *stream segments* [lo, hi) of one ghost global byte stream G (pyvc.seq.SymBytes): every
  byte operation in the module (len, slicing, +, +=, bytearray(), truthiness) is parametric in the
  content, so a proof over positions is a proof for all contents.  `a + b` of two non-empty segments
  generates the obligation a.hi == b.lo ("concatenated in stream order").
* the PartsWriter is the ghost object GhostWriter: writing part p with data d returns the receipt
  (p, d.lo, d.hi) -- so a chunk's `parts` list *is* the list of the parts written on its behalf --
  and states the obligation min_part <= p <= max_part at the moment of the write.
* a chunk c together with its ghost record g = (lo, hi, id_lo, id_hi, klo, khi) satisfies the
  representation invariant wf(c, pw, g):
      view(c) = left_data ++ bytes(parts) ++ data  is exactly the stream segment [lo, hi),
      parts are adjacent in the stream and carry strictly increasing ids inside [id_lo, nextPartId),
      nextPartId + write_credits == id_hi (the chunk's id window), ... (see `wf`)
  and `observed` is the ordered list of the (size, id) of the data chunks number klo .. khi-1.
* merge(l, r) requires wf(l), wf(r) and adjacency (l.hi == r.lo, l.id_hi == r.id_lo, l.khi == r.klo),
  ensures wf(result) over the union.  Because this holds for ARBITRARY well-formed adjacent operands,
  and concatenation is associative, it holds for every binary merge tree, i.e. every dask
  fold/collate shape and execution order -- without enumerating any.
"""
from pyvc.api import *  # noqa: F401,F403

MPU = "odc.geo.cog._mpu"

# ---- ghost writer -----------------------------------------------------------------------------------


class GhostWriter:
    def __init__(self, min_write_sz, max_write_sz, min_part, max_part):
        self.min_write_sz = min_write_sz
        self.max_write_sz = max_write_sz
        self.min_part = min_part
        self.max_part = max_part
        self.n_writes = 0
        self.last = (0, 0, 0)
        self.finalised = None

    def __call__(self, part, data):
        claim(And(self.min_part <= part, part <= self.max_part), "part number handed to the writer lies within the writer's range")
        self.n_writes = self.n_writes + 1
        self.last = (part, blo(data), bhi(data))
        return self.last

    def finalise(self, parts):
        self.finalised = parts
        return "finalised"

    def __bool__(self):
        return True

    def __vc_src__(self, model, c):
        from pyvc.engine import to_src

        return f"R('contracts.mpu_c:NativeWriter')({to_src(self.min_write_sz, model, c)}, {to_src(self.max_write_sz, model, c)}, {to_src(self.min_part, model, c)}, {to_src(self.max_part, model, c)})"


class NativeWriter:
    """replay counterpart of GhostWriter: records real bytes"""

    def __init__(self, min_write_sz, max_write_sz, min_part, max_part):
        self.min_write_sz, self.max_write_sz, self.min_part, self.max_part = min_write_sz, max_write_sz, min_part, max_part
        self.log = []
        self.finalised = None
        self.bad_ids = []

    def __call__(self, part, data):
        if not self.min_part <= part <= self.max_part:
            self.bad_ids.append(part)
        self.log.append((part, bytes(data)))
        return (part, len(data), bytes(data))

    def finalise(self, parts):
        self.finalised = list(parts)
        return "finalised"


def WRITER():
    return Custom(
        lambda nm: GhostWriter(Int(ge=1).make(nm + ".min_write_sz"), Int().make(nm + ".max_write_sz"), Int(ge=1).make(nm + ".min_part"), Int().make(nm + ".max_part")),
        "parts writer (any limits)",
    )


# ---- segment helpers ------------------------------------------------------------------------------------


def blen(b):
    if symbolic():
        return b.__symlen__() if hasattr(b, "__symlen__") else len(b)
    return len(b)


def blo(b):
    from pyvc.seq import SymBytes
    from pyvc.sym import SymInt

    if isinstance(b, SymBytes):
        return SymInt(b.lo)
    return 0


def bhi(b):
    from pyvc.seq import SymBytes
    from pyvc.sym import SymInt

    if isinstance(b, SymBytes):
        return SymInt(b.hi)
    return len(b)


def slen(s):
    return s.__symlen__() if hasattr(s, "__symlen__") else len(s)


def sget(s, i):
    """element i of a SymSeq or of a concrete python list (symbolic index allowed; out-of-range
    positions of a concrete list read as a dummy: every use is guarded by a range condition)"""
    if hasattr(s, "get") and not isinstance(s, dict):
        return s.get(i)
    from pyvc.sym import SymBase

    def norm(e):
        return tuple(NONE_ID if x is None else x for x in e)

    if isinstance(i, SymBase):
        acc = (0,) * (len(s[0]) if len(s) else 3)
        for k in range(len(s) - 1, -1, -1):
            acc = tuple(Ite(i == k, a, b) for a, b in zip(norm(s[k]), acc))
        return acc
    if 0 <= i < len(s):
        return norm(s[i]) if symbolic() else s[i]
    return (0, 0, 0)


NONE_ID = -(2**61) - 7  # how `None` (chunk id of header/footer) is stored in the ghost observed list

PART = Tup(Int(), Int(), Int())  # receipt: (part number, lo, hi)
OBS = Tup(Int(), Int())  # (size, chunk id)

# global ordered list of data chunks (uninterpreted): chunk number k has size SZ(k) and id CID(k)
_FN = {}


def _fn(name):
    import z3

    if name not in _FN:
        _FN[name] = z3.Function(name, z3.IntSort(), z3.IntSort())
    return _FN[name]


def SZ(k):
    from pyvc.sym import SymInt, term_of

    return SymInt(_fn("chunk_size")(term_of(k)[0]))


def CID(k):
    from pyvc.sym import SymInt, term_of

    return SymInt(_fn("chunk_id")(term_of(k)[0]))


def CHUNK(is_final=None, started=None):
    return Obj(
        f"{MPU}:MPUChunk",
        nextPartId=Int(),
        write_credits=Int(),
        data=BytesSeg(True),
        left_data=BytesSeg(True),
        parts=SeqOf(PART, "list"),
        observed=SeqOf(OBS, "list"),
        is_final=OneOf(False, True) if is_final is None else is_final,
        lhs_keep=Int(ge=0),
    )


GHOST = Tup(Int(), Int(), Int(), Int(), Int(), Int())  # lo, hi, id_lo, id_hi, klo, khi


def started(c):
    return slen(c.parts) > 0


def wf(c, pw, g, flushed=False, hdr=False):
    """representation invariant of a chunk (see module docstring).

    flushed=True is the state of a chunk whose trailing data has just been written out
    (flush_rhs): nothing is kept back any more and, if the chunk is final, its last part may be
    short."""
    lo, hi, id_lo, id_hi, klo, khi = g
    La, Ld, n = blen(c.left_data), blen(c.data), slen(c.parts)
    P = c.parts
    O = c.observed
    a, b = lo + La, hi - Ld
    return And(
        lo >= 0,
        a <= b,
        # the three pieces sit at their places in the stream
        Implies(La > 0, And(blo(c.left_data) == lo, bhi(c.left_data) == a)),
        Implies(Ld > 0, And(blo(c.data) == b, bhi(c.data) == hi)),
        Ite(n == 0, And(Or(flushed, La == 0), a == b, c.nextPartId == id_lo), And(sget(P, 0)[1] == a, sget(P, n - 1)[2] == b)),
        # parts: adjacent in the stream, strictly increasing ids inside the id window
        forall(0, n - 1, lambda i: And(sget(P, i)[2] == sget(P, i + 1)[1], sget(P, i)[0] < sget(P, i + 1)[0])),
        forall(0, n, lambda i: And(id_lo <= sget(P, i)[0], sget(P, i)[0] < c.nextPartId)),
        # every part is at least the writer's minimum size (after the closing flush: all but the last)
        forall(0, n, lambda i: Or(sget(P, i)[2] - sget(P, i)[1] >= pw.min_write_sz, And(flushed, c.is_final, i == n - 1, sget(P, i)[2] - sget(P, i)[1] >= 1))),
        # id window, inside the writer's range
        pw.min_part <= id_lo,
        id_hi <= pw.max_part + 1,
        c.nextPartId >= id_lo,
        c.write_credits >= 0,
        c.nextPartId + c.write_credits == id_hi,
        # hdr=True: the header chunk MPUChunk(id, 1) (and what it is merged into) keeps nothing on its left
        c.lhs_keep == (0 if hdr else pw.min_write_sz),
        # enough is kept back to always be able to finish
        (Ld == 0) if flushed else And(Implies(n > 0, c.write_credits >= 1), Implies(And(n > 0, Not(c.is_final)), Ld >= pw.min_write_sz)),
        Implies(n > 0, La >= pw.min_write_sz),
        # observed = ordered (size, id) of data chunks klo .. khi-1
        klo <= khi,
        slen(O) == khi - klo,
        forall(0, khi - klo, lambda j: And(sget(O, j)[0] == SZ(klo + j), sget(O, j)[1] == CID(klo + j))),
    )


def snapshot(c):
    """copy of the mutable fields, for `old`"""
    if not symbolic():
        import copy

        return dict(nextPartId=c.nextPartId, write_credits=c.write_credits, data=bytes(c.data), left_data=bytes(c.left_data), parts=list(c.parts), observed=list(c.observed), is_final=c.is_final)
    return dict(nextPartId=c.nextPartId, write_credits=c.write_credits, data=c.data.copy(), left_data=c.left_data.copy(), parts=c.parts.copy(), observed=c.observed.copy(), is_final=c.is_final)


def parts_extended_by(new, old, extra):
    """new == old ++ extra   (extra: python list of receipts)"""
    n0 = slen(old)
    return And(
        slen(new) == n0 + len(extra),
        forall(0, n0, lambda i: And(*[sget(new, i)[t] == sget(old, i)[t] for t in range(3)])),
        *[And(*[sget(new, n0 + k)[t] == e[t] for t in range(3)]) for k, e in enumerate(extra)],
    )


def seq_same(new, old, arity):
    return And(slen(new) == slen(old), forall(0, slen(old), lambda i: And(*[sget(new, i)[t] == sget(old, i)[t] for t in range(arity)])))


def frame(self, old, *changed):
    """fields not listed in `changed` are untouched"""
    cl = []
    if "nextPartId" not in changed:
        cl.append(self.nextPartId == old["nextPartId"])
    if "write_credits" not in changed:
        cl.append(self.write_credits == old["write_credits"])
    if "is_final" not in changed:
        cl.append(Iff(self.is_final, old["is_final"]))
    if "parts" not in changed:
        cl.append(seq_same(self.parts, old["parts"], 3))
    if "observed" not in changed:
        cl.append(seq_same(self.observed, old["observed"], 2))
    return And(*cl)


# ---- native oracle used by replay ------------------------------------------------------------------------


def _nview(c):
    from pyvc.replay import seg_bytes

    out = bytes(c.left_data)
    for p in c.parts:
        out += p[2] if isinstance(p[2], (bytes, bytearray)) else seg_bytes(p[1], p[2])
    return out + bytes(c.data)


def _chunks_of(args):
    out = []
    for k in ("self", "lhs", "rhs", "data_substream"):
        if k in args:
            out.append(args[k])
    for c in args.get("mpus", []) or []:
        out.append(c)
    for c in args.get("substreams", []) or []:
        out.append(c)
    return out


def mpu_oracle(args, run):
    """Native, content-based oracle for the MPU operations (replay): the bytes held by the chunks
    involved plus the bytes written must, in stream order, be the same before and after the call;
    no exception; every part written is at least the minimum size unless it is the closing part;
    part numbers written lie in the writer's range and increase."""
    fails = []
    chunks = _chunks_of(args)
    before = b"".join(_nview(c) for c in chunks)
    for k in ("data", "extra_data"):
        if isinstance(args.get(k), (bytes, bytearray)):
            before += bytes(args[k])
    for ch in args.get("chunks", []) or []:
        before += bytes(ch[0])
    hdr = bytes(args["hdr_seg"]) if args.get("hdr_seg") is not None else b""
    ftr = bytes(args["ftr_seg"]) if args.get("ftr_seg") is not None else b""
    before = hdr + before + ftr
    w = args.get("write")
    old_ids = [p[0] for c in chunks for p in c.parts]
    kind, val = run()
    if kind == "raise":
        label = "internal-assert" if isinstance(val, AssertionError) else type(val).__name__
        return [f"no-exception:{label}: {val}"]
    res = val
    after_chunks = []
    if hasattr(res, "observed"):
        after_chunks = [res]
    elif isinstance(res, list) and res and hasattr(res[0], "observed"):
        after_chunks = res
    elif "self" in args:
        after_chunks = [args["self"]]
    elif "data_substream" in args and w is not None and w.finalised is not None:
        after_chunks = []
    after = b"".join(_nview(c) for c in after_chunks)
    if w is not None and w.finalised is not None:
        after = b"".join(p[2] if isinstance(p[2], (bytes, bytearray)) else __import__("pyvc.replay", fromlist=["seg_bytes"]).seg_bytes(p[1], p[2]) for p in w.finalised)
        ids = [p[0] for p in w.finalised]
        if ids != sorted(set(ids)):
            fails.append(f"post: part numbers passed to finalise are not unique and increasing: {ids}")
        sizes = [len(p[2]) if isinstance(p[2], (bytes, bytearray)) else p[2] - p[1] for p in w.finalised]
        if any(sz < w.min_write_sz for sz in sizes[:-1]):
            fails.append(f"post: a part other than the last is below the minimum size {w.min_write_sz}: {sizes}")
    if after != before:
        fails.append(f"post: byte stream changed: {len(before)} bytes before, {len(after)} after (lost, duplicated or reordered bytes)")
    if w is not None:
        if w.bad_ids:
            fails.append(f"claim: part numbers outside the writer's range [{w.min_part}, {w.max_part}]: {w.bad_ids}")
        new_ids = [p for p, _ in w.log]
        if w.finalised is None:
            final_call = any(getattr(c, "is_final", False) for c in after_chunks) and args.get("extra_data") is None and "spill_sz" not in args
            for (pid, data) in w.log:
                if len(data) < w.min_write_sz and not final_call:
                    fails.append(f"post: wrote part {pid} of {len(data)} bytes, below the minimum {w.min_write_sz}")
    return fails


# ---- MPUChunk.append -----------------------------------------------------------------------------------------

contract(
    f"{MPU}:MPUChunk.append",
    ["C06"],
    native_oracle=mpu_oracle,
    inputs=dict(self=CHUNK(), data=BytesSeg(False), chunk_id=OneOf(Int(), None), pw=WRITER(), g=GHOST, hdr=OneOf(False, True)),
    requires=[
        lambda self, pw, g, hdr: wf(self, pw, g, hdr=hdr),
        # the appended data is the next piece of the stream and is data chunk number khi
        lambda self, data, chunk_id, g: And(Or(blen(data) == 0, blo(data) == g[1]), blen(data) == SZ(g[5]), (CID(g[5]) == NONE_ID) if chunk_id is None else (chunk_id == CID(g[5]))),
    ],
    old=lambda self: snapshot(self),
    ensures=[
        ("wf over the extended segment: view(c) = old view ++ data, observed extended by (size, id)", lambda self, data, pw, g, hdr: wf(self, pw, (g[0], g[1] + blen(data), g[2], g[3], g[4], g[5] + 1), hdr=hdr)),
        ("frame", lambda self, old: And(frame(self, old, "observed"), blen(self.left_data) == blen(old["left_data"]))),
    ],
    modifies=lambda self: [(self, "data"), (self, "observed", SeqOf(OBS, "list"))],
    returns=lambda self: None,
)

# ---- MPUChunk.maybe_write ---------------------------------------------------------------------------------------


def wsnap(self, write):
    d = snapshot(self)
    d.update(n_writes=write.n_writes)
    return d


contract(
    f"{MPU}:MPUChunk.maybe_write",
    ["C06"],
    native_oracle=mpu_oracle,
    inputs=dict(self=CHUNK(), write=WRITER(), spill_sz=Int(ge=1), g=GHOST),
    requires=[lambda self, write, g: wf(self, write, g)],
    old=wsnap,
    ensures=[
        ("wf preserved over the same stream segment (no byte lost, duplicated or reordered; every part >= minimum size)", lambda self, write, g: wf(self, write, g)),
        ("returns the number of bytes written; at most one part", lambda self, write, old, result: And(result >= 0, Ite(result > 0, write.n_writes == old["n_writes"] + 1, write.n_writes == old["n_writes"]))),
        (
            "a written part is appended to parts, carries the next id and is at least spill_sz",
            lambda self, write, spill_sz, old, result: Ite(
                result > 0,
                And(parts_extended_by(self.parts, old["parts"], [write.last]), write.last[2] - write.last[1] == result, result >= spill_sz, write.last[0] == old["nextPartId"]),
                seq_same(self.parts, old["parts"], 3),
            ),
        ),
        ("frame: observed / is_final untouched", lambda self, old: frame(self, old, "parts", "nextPartId", "write_credits")),
    ],
    modifies=lambda self, write: [(self, "data"), (self, "left_data"), (self, "parts", SeqOf(PART, "list")), (self, "nextPartId"), (self, "write_credits"), (write, "n_writes"), (write, "last")],
    returns=lambda self: Int(ge=0),
    note="spill_sz >= 1: callers only spill when spill_sz > 0",
)

# ---- MPUChunk.flush_rhs -----------------------------------------------------------------------------------------------


def _extra_len(extra_data):
    return 0 if extra_data is None else blen(extra_data)


contract(
    f"{MPU}:MPUChunk.flush_rhs",
    ["C06"],
    native_oracle=mpu_oracle,
    inputs=[
        dict(self=CHUNK(), write=OneOf(None, WRITER()), extra_data=OneOf(None, BytesSeg(True)), pw=WRITER(), g=GHOST, hdr=False),
        dict(self=CHUNK(), write=OneOf(None, WRITER()), extra_data=OneOf(None, BytesSeg(True)), pw=WRITER(), g=GHOST, hdr=True),
    ],
    requires=[
        lambda self, write, pw, g, hdr: wf(self, write if write is not None else pw, g, hdr=hdr),
        # a header-form chunk that has not started is only ever flushed without a writer (merge of the header)
        lambda self, write, hdr: Implies(And(hdr, Not(started(self))), write is None),
        # a started chunk can only be flushed through a writer
        lambda self, write: Implies(started(self), write is not None),
        # extra data (the right neighbour's left_data) continues the stream
        lambda extra_data, g: True if extra_data is None else Or(blen(extra_data) == 0, blo(extra_data) == g[1]),
        # merge never flushes a final chunk into a right neighbour
        lambda self, extra_data: Implies(self.is_final, extra_data is None),
        # the closing flush of a final chunk has something to write
        lambda self, extra_data: Implies(self.is_final, And(started(self), blen(self.data) > 0)),
    ],
    old=lambda self, write, pw: wsnap(self, write if write is not None else pw),
    ensures=[
        (
            "chunk now covers its segment plus the extra data, nothing kept in .data (flushed form of wf)",
            lambda self, write, extra_data, pw, g, hdr: wf(self, write if write is not None else pw, (g[0], g[1] + _extra_len(extra_data), g[2], g[3], g[4], g[5]), flushed=True, hdr=hdr),
        ),
        ("frame: observed / is_final untouched", lambda self, old: frame(self, old, "parts", "nextPartId", "write_credits")),
        (
            "when nothing is written everything (old left_data ++ data ++ extra) is kept in left_data",
            lambda self, extra_data, old, result: Implies(result == 0, blen(self.left_data) == blen(old["left_data"]) + blen(old["data"]) + _extra_len(extra_data)),
        ),
        (
            "parts: unchanged or extended by exactly the part just written",
            lambda self, write, pw, old, result: Ite(
                result > 0,
                And(parts_extended_by(self.parts, old["parts"], [(write if write is not None else pw).last]), (write if write is not None else pw).n_writes == old["n_writes"] + 1),
                And(seq_same(self.parts, old["parts"], 3), (write if write is not None else pw).n_writes == old["n_writes"]),
            ),
        ),
    ],
    modifies=lambda self, write, extra_data: [(self, "data"), (self, "left_data"), (self, "parts", SeqOf(PART, "list")), (self, "nextPartId"), (self, "write_credits")] + ([(write, "n_writes"), (write, "last")] if write is not None else []),
    returns=lambda self: Int(ge=0),
    note="pw is a ghost writer that only supplies the limits when write is None",
)

# ---- MPUChunk.merge ---------------------------------------------------------------------------------------------------------


def _gjoin(gl, gr):
    return (gl[0], gr[1], gl[2], gr[3], gl[4], gr[5])


contract(
    f"{MPU}:MPUChunk.merge",
    ["C06"],
    native_oracle=mpu_oracle,
    inputs=[
        dict(lhs=CHUNK(is_final=False), rhs=CHUNK(), write=OneOf(None, WRITER()), pw=WRITER(), gl=GHOST, gr=GHOST, hdr=False),
        # the header chunk (lhs_keep == 0, nothing written) is merged in front of the stream without a writer
        dict(lhs=CHUNK(is_final=False), rhs=CHUNK(), write=None, pw=WRITER(), gl=GHOST, gr=GHOST, hdr=True),
    ],
    requires=[
        lambda lhs, rhs, write, pw, gl, gr, hdr: And(wf(lhs, write if write is not None else pw, gl, hdr=hdr), wf(rhs, write if write is not None else pw, gr)),
        lambda lhs, hdr: Implies(hdr, Not(started(lhs))),
        # adjacent partial results: stream, id windows and chunk numbering continue
        lambda gl, gr: And(gl[1] == gr[0], gl[3] == gr[2], gl[5] == gr[4]),
        lambda lhs, rhs, write: Implies(And(started(lhs), started(rhs)), write is not None),
        # every partial result has seen at least one data chunk (>= 1 chunk per partition)
        lambda gl, gr: And(gl[5] > gl[4], gr[5] > gr[4]),
    ],
    ghost_args={f"{MPU}:MPUChunk.flush_rhs": lambda pw, gl, hdr: dict(pw=pw, g=gl, hdr=hdr)},
    ensures=[
        ("wf(result) over the union: view(result) = view(lhs) ++ view(rhs), parts/observed concatenated in order", lambda result, write, pw, gl, gr, hdr: wf(result, write if write is not None else pw, _gjoin(gl, gr), hdr=hdr)),
        ("finality is that of the right operand", lambda rhs, result: Iff(result.is_final, rhs.is_final)),
        (
            "without a writer nothing is written: parts(result) = parts(lhs) ++ parts(rhs)",
            lambda rhs, write, old, result: True
            if write is not None
            else And(
                slen(result.parts) == slen(old["lparts"]) + slen(rhs.parts),
                forall(0, slen(old["lparts"]), lambda i: And(*[sget(result.parts, i)[t] == sget(old["lparts"], i)[t] for t in range(3)])),
                forall(0, slen(rhs.parts), lambda i: And(*[sget(result.parts, slen(old["lparts"]) + i)[t] == sget(rhs.parts, i)[t] for t in range(3)])),
            ),
        ),
    ],
    old=lambda lhs: dict(lparts=lhs.parts.copy() if hasattr(lhs.parts, "copy") else list(lhs.parts)),
    returns=lambda rhs: CHUNK(is_final=rhs.is_final),
    modifies=lambda lhs, write: [(lhs, "data"), (lhs, "left_data"), (lhs, "parts", SeqOf(PART, "list")), (lhs, "nextPartId"), (lhs, "write_credits")] + ([(write, "n_writes"), (write, "last")] if write is not None else []),
    note="proved for arbitrary well-formed adjacent operands => holds for every merge tree (associativity of concatenation)",
)


# ---- MPUChunk.flush (closing flush of the root chunk) ---------------------------------------------------------------------


def _covered(P, lo, hi, pw, left_id, g):
    """after the closing flush: parts, in list order, are the whole stream [lo, hi)"""
    n = slen(P)
    return And(
        n >= 1,
        sget(P, 0)[1] == lo,
        sget(P, n - 1)[2] == hi,
        # adjacent in the stream and strictly increasing part numbers => concatenating the parts in
        # increasing part number gives exactly the stream, and part numbers are unique
        forall(0, n - 1, lambda i: And(sget(P, i)[2] == sget(P, i + 1)[1], sget(P, i)[0] < sget(P, i + 1)[0])),
        # every part except the last is at least the writer's minimum size
        forall(0, n - 1, lambda i: sget(P, i)[2] - sget(P, i)[1] >= pw.min_write_sz),
        # part numbers lie within the writer's range
        forall(0, n, lambda i: And(pw.min_part <= sget(P, i)[0], sget(P, i)[0] <= pw.max_part)),
    )


def _left_id(leftPartId):
    return 1 if leftPartId is None else leftPartId


contract(
    f"{MPU}:MPUChunk.flush",
    ["C06"],
    native_oracle=mpu_oracle,
    inputs=dict(self=CHUNK(), write=WRITER(), leftPartId=OneOf(None, Int()), finalise=OneOf(True, False), g=GHOST, hdr=OneOf(False, True)),
    requires=[
        lambda self, write, g, hdr: wf(self, write, g, hdr=hdr),
        lambda g: g[1] > g[0],  # a non-empty stream
        # the id used for the left / only part lies in the writer's range, below the data parts' ids
        lambda self, write, leftPartId, g: Ite(
            started(self),
            And(write.min_part <= _left_id(leftPartId), _left_id(leftPartId) < sget(self.parts, 0)[0]),
            And(write.min_part <= (self.nextPartId if leftPartId is None else leftPartId), (self.nextPartId if leftPartId is None else leftPartId) <= write.max_part),
        ),
    ],
    old=wsnap,
    ensures=[
        ("nothing is left in the chunk", lambda self: And(blen(self.data) == 0, blen(self.left_data) == 0)),
        ("the parts, in order, are exactly the stream; ids unique/increasing/in range; all but the last >= minimum size", lambda self, write, leftPartId, g: _covered(self.parts, g[0], g[1], write, _left_id(leftPartId), g)),
        ("finalise receives exactly the list of written parts, in order", lambda self, write, finalise: (write.finalised is self.parts) if finalise else (write.finalised is None)),
        ("bytes written are reported", lambda result: result[0] >= 0),
        ("frame: observed untouched", lambda self, old: seq_same(self.observed, old["observed"], 2)),
    ],
    modifies=lambda self, write: [(self, "data"), (self, "left_data"), (self, "parts", SeqOf(PART, "list")), (self, "nextPartId"), (self, "write_credits"), (write, "n_writes"), (write, "last")],
    returns=lambda self: Tup(Int(ge=0), "finalised"),
    ghost_args={f"{MPU}:MPUChunk.flush_rhs": lambda write, g, hdr: dict(pw=write, g=g, hdr=hdr)},
)


# ---- graph operators ---------------------------------------------------------------------------------------------------------

CHUNKS = SeqOf(Tup(BytesSeg(False), Int()), "list")  # the (data, chunk id) pairs of one partition


def _hi_after(chunks, k, hi0):
    """stream position after the first k chunks of the partition"""
    return Ite(k == 0, hi0, bhi(sget(chunks, Max(k - 1, 0))[0]))


def _chunks_ok(chunks, g):
    """the partition's chunks continue the stream after g.hi, one after another, and are the data
    chunks number g.khi, g.khi+1, ... of the global order"""
    n = slen(chunks)
    return And(
        forall(0, n, lambda j: And(blo(sget(chunks, j)[0]) == _hi_after(chunks, j, g[1]), bhi(sget(chunks, j)[0]) >= blo(sget(chunks, j)[0]))),
        forall(0, n, lambda j: And(bhi(sget(chunks, j)[0]) - blo(sget(chunks, j)[0]) == SZ(g[5] + j), sget(chunks, j)[1] == CID(g[5] + j))),
    )


def _g_after(g, chunks, k):
    return (g[0], _hi_after(chunks, k, g[1]), g[2], g[3], g[4], g[5] + k)


contract(
    f"{MPU}:_mpu_append_chunks_op",
    ["C06"],
    native_oracle=mpu_oracle,
    inputs=dict(mpus=Tup(CHUNK(), as_list=True), chunks=CHUNKS, write=OneOf(None, WRITER()), spill_sz=OneOf(0, Int(ge=1)), pw=WRITER(), g=GHOST),
    requires=[
        lambda mpus, write, pw, g: wf(mpus[0], write if write is not None else pw, g),
        lambda chunks, g: _chunks_ok(chunks, g),
    ],
    ensures=[
        ("returns the same single chunk", lambda mpus, result: len(result) == 1 and result[0] is mpus[0]),
        ("wf over the segment extended by all the partition's chunks, in order", lambda mpus, chunks, write, pw, g: wf(mpus[0], write if write is not None else pw, _g_after(g, chunks, slen(chunks)))),
    ],
    loops={
        0: LoopSpec(
            invariant=lambda mpu, chunks, write, pw, g, _k: wf(mpu, write if write is not None else pw, _g_after(g, chunks, _k)),
            modifies=lambda mpu, write: [(mpu, "data"), (mpu, "left_data"), (mpu, "parts", SeqOf(PART, "list")), (mpu, "observed", SeqOf(OBS, "list")), (mpu, "nextPartId"), (mpu, "write_credits")] + ([(write, "n_writes"), (write, "last")] if write is not None else []),
        )
    },
    ghost_args={
        f"{MPU}:MPUChunk.append": lambda write, pw, g, chunks, callee_args: dict(pw=write if write is not None else pw, g=_g_from_state(callee_args["self"], g, chunks, callee_args["data"]), hdr=False),
        f"{MPU}:MPUChunk.maybe_write": lambda g, chunks, callee_args: dict(g=_g_from_obs(callee_args["self"], g, chunks)),
    },
    returns=lambda mpus: Value([mpus[0]]),
    modifies=lambda mpus, write: [(mpus[0], "data"), (mpus[0], "left_data"), (mpus[0], "parts", SeqOf(PART, "list")), (mpus[0], "observed", SeqOf(OBS, "list")), (mpus[0], "nextPartId"), (mpus[0], "write_credits")] + ([(write, "n_writes"), (write, "last")] if write is not None else []),
)


def _g_from_obs(c, g, chunks):
    """ghost record of the chunk while the partition is being appended: k = number of observed
    chunks of this partition so far"""
    k = slen(c.observed) - (g[5] - g[4])
    return _g_after(g, chunks, k)


def _g_from_state(c, g, chunks, data):
    return _g_from_obs(c, g, chunks)


contract(
    f"{MPU}:_merge_and_spill_op",
    ["C06"],
    native_oracle=mpu_oracle,
    inputs=dict(lhs=CHUNK(is_final=False), rhs=CHUNK(), write=OneOf(None, WRITER()), spill_sz=OneOf(0, Int(ge=1)), pw=WRITER(), gl=GHOST, gr=GHOST),
    requires=[
        lambda lhs, rhs, write, pw, gl, gr: And(wf(lhs, write if write is not None else pw, gl), wf(rhs, write if write is not None else pw, gr)),
        lambda gl, gr: And(gl[1] == gr[0], gl[3] == gr[2], gl[5] == gr[4]),
        lambda lhs, rhs, write: Implies(And(started(lhs), started(rhs)), write is not None),
        lambda gl, gr: And(gl[5] > gl[4], gr[5] > gr[4]),
    ],
    ensures=[
        ("the fold operator returns a well-formed chunk over the union of two adjacent partial results", lambda result, write, pw, gl, gr: wf(result, write if write is not None else pw, _gjoin(gl, gr))),
        ("finality is that of the right operand", lambda rhs, result: Iff(result.is_final, rhs.is_final)),
    ],
    ghost_args={
        f"{MPU}:MPUChunk.merge": lambda pw, gl, gr: dict(pw=pw, gl=gl, gr=gr, hdr=False),
        f"{MPU}:MPUChunk.maybe_write": lambda gl, gr: dict(g=_gjoin(gl, gr)),
    },
    returns=lambda rhs: CHUNK(is_final=rhs.is_final),
)


# ---- _mpu_collate_op: left fold of merge over the sub-streams ---------------------------------------------------------------------


def _collate_inputs(n):
    d = dict(substreams=Tup(*([CHUNK(is_final=False)] * (n - 1) + [CHUNK()]), as_list=True), write=OneOf(None, WRITER()), spill_sz=OneOf(0, Int(ge=1)), pw=WRITER())
    d["gs"] = Tup(*[GHOST] * n)
    return d


def _collate_pre(substreams, write, pw, gs):
    w = write if write is not None else pw
    cl = [wf(c, w, g) for c, g in zip(substreams, gs)]
    for a, b in zip(gs, gs[1:]):
        cl.append(And(a[1] == b[0], a[3] == b[2], a[5] == b[4]))
    for g in gs:
        cl.append(g[5] > g[4])
    return And(*cl)


contract(
    f"{MPU}:_mpu_collate_op",
    ["C06"],
    native_oracle=mpu_oracle,
    inputs=[_collate_inputs(n) for n in (1, 2, 3)],
    requires=[
        _collate_pre,
        lambda substreams, write: Implies(Or(*[started(c) for c in substreams]), write is not None),
    ],
    ensures=[
        ("well-formed chunk over the union of all sub-streams, in order", lambda result, write, pw, gs: wf(result, write if write is not None else pw, (gs[0][0], gs[-1][1], gs[0][2], gs[-1][3], gs[0][4], gs[-1][5]))),
    ],
    ghost_args={
        f"{MPU}:MPUChunk.merge": lambda pw, gs, call_index: dict(pw=pw, gl=(gs[0][0], gs[call_index][1], gs[0][2], gs[call_index][3], gs[0][4], gs[call_index][5]), gr=gs[call_index + 1], hdr=False),
        f"{MPU}:MPUChunk.maybe_write": lambda gs, call_index: dict(g=(gs[0][0], gs[call_index + 1][1], gs[0][2], gs[call_index + 1][3], gs[0][4], gs[call_index + 1][5])),
    },
    note="the list of sub-streams is unrolled for 1, 2 and 3 sub-streams (one per input bag); each step is one use of the merge contract, "
    "whose precondition is adjacency of the accumulated result and the next sub-stream -- the argument for longer lists is the same step repeated and is not machine-checked",
    returns=lambda substreams: CHUNK(is_final=substreams[-1].is_final),
)

# ---- gen_bunch: id windows of the partitions ---------------------------------------------------------------------------------


contract(
    f"{MPU}:MPUChunk.gen_bunch",
    ["C06", "C05"],
    inputs=[dict(partId=Int(), n=n, writes_per_chunk=Int(ge=1), mark_final=OneOf(False, True), lhs_keep=Int(ge=0)) for n in (0, 1, 2, 4)],
    ensures=[
        ("one empty chunk per partition", lambda n, result: len(result) == n),
        (
            "partition i owns the id window [partId + i*w, partId + (i+1)*w): windows are adjacent and disjoint; only the last chunk may be final",
            lambda partId, n, writes_per_chunk, mark_final, lhs_keep, result: And(
                *[
                    And(c.nextPartId == partId + i * writes_per_chunk, c.write_credits == writes_per_chunk, c.lhs_keep == lhs_keep, c.is_final == (mark_final and i == n - 1), len(c.parts) == 0, len(c.observed) == 0, blen(c.data) == 0, blen(c.left_data) == 0)
                    for i, c in enumerate(result)
                ]
            ),
        ),
    ],
    note="generator over range(n): executed for n = 0, 1, 2, 4 partitions with symbolic partId / writes_per_chunk (body is a pure function of the index)",
)

# ---- _finalizer_dask_op ----------------------------------------------------------------------------------------------------------------


class GhostCallback:
    """mk_header / mk_footer: observes the ordered (size, id) list, returns its bytes (a segment placed
    before / after the data in the stream)"""

    def __init__(self, seg, g):
        self.seg, self.g = seg, g
        self.calls = 0

    def __vc_src__(self, model, c):
        from pyvc.engine import to_src

        return f"R('contracts.mpu_c:NativeCallback')({to_src(self.seg, model, c)})"

    def __call__(self, observed, **kw):
        g = self.g
        self.calls += 1
        claim(
            And(slen(observed) == g[5] - g[4], forall(0, g[5] - g[4], lambda j: And(sget(observed, j)[0] == SZ(g[4] + j), sget(observed, j)[1] == CID(g[4] + j)))),
            "header/footer callback observes the complete ordered list of (size, chunk id)",
        )
        return self.seg


class NativeCallback:
    def __init__(self, data):
        self.data = data
        self.seen = None

    def __call__(self, observed, **kw):
        self.seen = list(observed)
        return self.data


def _fin_case(has_hdr, has_ftr, has_write):
    def mk(name):
        return None

    d = dict(
        data_substream=CHUNK(),
        write=WRITER() if has_write else None,
        pw=WRITER(),
        g=GHOST,
        hdr_seg=BytesSeg(False) if has_hdr else None,
        ftr_seg=BytesSeg(False) if has_ftr else None,
    )
    d["mk_header"] = Derived(lambda hdr_seg, g: None if hdr_seg is None else GhostCallback(hdr_seg, g), "header callback")
    d["mk_footer"] = Derived(lambda ftr_seg, g: None if ftr_seg is None else GhostCallback(ftr_seg, g), "footer callback")
    d["user_kw"] = None
    return d


def _hlen(hdr_seg):
    return blen(hdr_seg) if hdr_seg is not None else 0


def _flen(ftr_seg):
    return blen(ftr_seg) if ftr_seg is not None else 0


def _g_with_footer(g, ftr_seg):
    fl = _flen(ftr_seg)
    return (g[0], g[1] + fl, g[2], g[3], g[4], g[5] + Ite(fl > 0, 1, 0))


def _g_all(g, hdr_seg, ftr_seg, w):
    hl = _hlen(hdr_seg)
    gf = _g_with_footer(g, ftr_seg)
    return (g[0] - hl, gf[1], Ite(hl > 0, w.min_part, g[2]), g[3], Ite(hl > 0, -1, g[4]), gf[5])


def _fin_pre(data_substream, write, pw, g, hdr_seg, ftr_seg):
    w = write if write is not None else pw
    cl = [wf(data_substream, w, g), g[5] > g[4], g[4] == 0]
    # the data parts' ids start right after the id reserved for the header / left part
    cl.append(g[2] == w.min_part + 1)
    if hdr_seg is not None:
        cl.append(Or(blen(hdr_seg) == 0, bhi(hdr_seg) == g[0]))
        cl.append(blo(hdr_seg) >= 0)
        cl.append(And(blen(hdr_seg) == SZ(-1), CID(-1) == NONE_ID))
    if ftr_seg is not None:
        cl.append(Or(blen(ftr_seg) == 0, blo(ftr_seg) == g[1]))
        # with a footer no data chunk is marked final
        cl.append(Not(data_substream.is_final))
        cl.append(And(blen(ftr_seg) == SZ(g[5]), CID(g[5]) == NONE_ID))
    else:
        cl.append(data_substream.is_final)
    # a writer is needed as soon as something was spilled
    cl.append(Implies(started(data_substream), write is not None))
    if write is None:
        cl.append(pw.min_part == 1)  # ghost limits when there is no writer: the module uses part id 1
    return And(*cl)


def _fin_post(result, data_substream, write, g, hdr_seg, ftr_seg):
    if write is None:
        return True
    lo = g[0] - _hlen(hdr_seg)
    hi = g[1] + _flen(ftr_seg)
    P = write.finalised
    if P is None:
        return False
    return _covered(P, lo, hi, write, write.min_part, g)


def _fin_append_ghost(callee_args, write, pw, g, hdr_seg, ftr_seg):
    w = write if write is not None else pw
    c = callee_args["self"]
    if isinstance(c.lhs_keep, int):  # the fresh header chunk MPUChunk(id, 1): concrete default lhs_keep == 0
        hl = _hlen(hdr_seg)
        return dict(pw=w, g=(g[0] - hl, g[0] - hl, w.min_part, w.min_part + 1, -1, -1), hdr=True)
    return dict(pw=w, g=g, hdr=False)


contract(
    f"{MPU}:_finalizer_dask_op",
    ["C06"],
    native_oracle=mpu_oracle,
    inputs=[_fin_case(h, f, w) for h in (False, True) for f in (False, True) for w in (False, True)],
    requires=[_fin_pre, lambda g: g[1] > g[0]],
    ensures=[
        (
            "the parts passed to finalise, in order, are exactly header ++ data ++ footer: adjacent, ids unique/increasing/in the writer's range, all but the last >= minimum size",
            _fin_post,
        ),
        ("without a writer the assembled chunk is returned", lambda result, write: True if write is not None else hasattr(result, "observed")),
    ],
    ghost_args={
        f"{MPU}:MPUChunk.append": _fin_append_ghost,
        f"{MPU}:MPUChunk.merge": lambda write, pw, g, hdr_seg, ftr_seg: dict(
            pw=write if write is not None else pw,
            gl=(g[0] - _hlen(hdr_seg), g[0], (write if write is not None else pw).min_part, (write if write is not None else pw).min_part + 1, -1, 0),
            gr=_g_with_footer(g, ftr_seg),
            hdr=True,
        ),
        f"{MPU}:MPUChunk.flush": lambda write, g, hdr_seg, ftr_seg: dict(g=_g_all(g, hdr_seg, ftr_seg, write), hdr=bool(_hlen(hdr_seg) > 0)),
    },
)


# ---- mpu_write / from_dask_bag: how the graph is put together (dask is a recording ghost) ------------------------------------------------


def _lemma_mpu_write_flow(n_bags, np0, np1, np2, wpc, has_write, min_part, min_sz, has_header, has_footer, spill_sz):
    import sys

    import dask.bag
    import dask.base
    import dask.delayed  # noqa: F401  (the attribute dask.delayed is the function; the module is in sys.modules)

    dmod = sys.modules["dask.delayed"]
    m = repo(MPU)
    log = []
    nps = [np0, np1, np2][:n_bags]

    class Bag:
        def __init__(self, name, npartitions):
            self.name, self.npartitions = name, npartitions

        def fold(self, binop, split_every=None):
            log.append(("fold", self.name, binop, split_every))
            return ("folded", self.name)

    class W:
        pass

    write = None
    if has_write:
        write = W()
        write.min_part, write.min_write_sz = min_part, min_sz
    hdr = (lambda *a, **k: b"H") if has_header else None
    ftr = (lambda *a, **k: b"F") if has_footer else None
    bags = [Bag(f"bag{i}", n) for i, n in enumerate(nps)]
    saved = (dask.bag.from_sequence, dask.bag.map_partitions, dask.bag.Item.from_delayed, dask.base.tokenize, dmod.delayed, m.MPUChunk.__dict__["gen_bunch"])
    import dask as _dask

    saved_top = _dask.delayed
    try:
        m.MPUChunk.gen_bunch = staticmethod(lambda partId, n, **kw: (log.append(("gen_bunch", partId, n, kw)), ("bunch", partId))[1])
        dask.bag.from_sequence = lambda seq, npartitions=None, **k: (log.append(("from_sequence", seq, npartitions)), Bag(("mpus", seq), npartitions))[1]
        dask.bag.map_partitions = lambda fn, *a, **k: (log.append(("map_partitions", fn, tuple(x.name for x in a), k)), Bag(("appended", a[1].name), a[1].npartitions))[1]
        dask.bag.Item.from_delayed = staticmethod(lambda d: ("item", d))

        def delayed(fn, **dk):
            def call(*a, **k):
                log.append(("delayed-call", fn, dk, a, k))
                return ("delayed", getattr(fn, "__name__", fn))

            return call

        dmod.delayed = delayed
        _dask.delayed = delayed
        dask.base.tokenize = lambda *a, **k: "TK"
        out = m.mpu_write(bags if n_bags > 1 else bags[0], write, mk_header=hdr, mk_footer=ftr, user_kw={"k": 1}, writes_per_chunk=wpc, spill_sz=spill_sz)
    finally:
        dask.bag.from_sequence, dask.bag.map_partitions, dask.bag.Item.from_delayed, dask.base.tokenize, dmod.delayed = saved[:5]
        m.MPUChunk.gen_bunch = saved[5]
        _dask.delayed = saved_top
    gens = [e for e in log if e[0] == "gen_bunch"]
    claim(len(gens) == n_bags, "one bunch of empty chunks per input bag")
    first_id = (min_part if has_write else 1) + 1
    want_keep = min_sz if has_write else 0
    acc = first_id
    for i, (g, n) in enumerate(zip(gens, nps)):
        claim(g[1] == acc and g[2] == n, f"bag {i}: its partitions get the part-number windows that follow those of the earlier bags (the writer's first number is reserved for the header / left-over part)")
        claim(g[3]["writes_per_chunk"] is wpc, f"bag {i}: window width = writes per chunk")
        claim(g[3]["lhs_keep"] == want_keep, f"bag {i}: every chunk keeps the writer's minimum part size back on its left -- with or without a header -- so that a small leading piece can always be completed by its neighbour")
        claim(g[3]["mark_final"] is ((not has_footer) and i == n_bags - 1), f"bag {i}: only the last partition of the last bag may be final, and only when no footer follows")
        acc = acc + n * wpc
    maps = [e for e in log if e[0] == "map_partitions"]
    claim(len(maps) == n_bags and all(e[1] is m._mpu_append_chunks_op and e[2][1] == f"bag{i}" and e[3].get("write") is write and e[3].get("spill_sz") is spill_sz for i, e in enumerate(maps)), "chunks are appended partition by partition to the matching empty chunk, with the writer and spill size")
    folds = [e for e in log if e[0] == "fold"]
    claim(len(folds) == n_bags and all(getattr(e[2], "func", None) is m._merge_and_spill_op and e[2].keywords == {"write": write, "spill_sz": spill_sz} for e in folds), "partitions are folded with merge-and-spill (adjacent, in order: dask's fold, assumed)")
    calls = [e for e in log if e[0] == "delayed-call"]
    fin = [e for e in calls if e[1] is m._finalizer_dask_op]
    col = [e for e in calls if e[1] is m._mpu_collate_op]
    if n_bags == 1:
        claim(col == [] and fin[0][3][0] == ("folded", ("appended", "bag0")), "a single bag: its folded stream goes to the finaliser directly")
    else:
        claim(len(col) == 1 and list(col[0][3][0]) == [("folded", ("appended", f"bag{i}")) for i in range(n_bags)] and col[0][4] == {"pure": False, "write": write, "spill_sz": spill_sz}, "several bags: their folded streams are collated in order")
        claim(fin[0][3][0] == ("item", ("delayed", "_mpu_collate_op")), "... and the collated stream goes to the finaliser")
    claim(len(fin) == 1 and fin[0][4]["write"] is write and fin[0][4]["mk_header"] is hdr and fin[0][4]["mk_footer"] is ftr and fin[0][4]["user_kw"] == {"k": 1}, "the finaliser gets the writer, header / footer makers and user arguments")
    claim(out == ("delayed", "_finalizer_dask_op"), "one delayed finaliser is returned")


lemma(
    "mpu.write_graph_flow",
    ["C06", "C05"],
    inputs=dict(n_bags=OneOf(1, 2, 3), np0=Int(ge=1), np1=Int(ge=1), np2=Int(ge=1), wpc=Int(ge=1), has_write=Bool(), min_part=Int(ge=1), min_sz=Int(ge=1), has_header=Bool(), has_footer=Bool(), spill_sz=Int(ge=0)),
    body=_lemma_mpu_write_flow,
    unstub=[f"{MPU}:MPUChunk.gen_bunch"],
    note="data flow of the real mpu_write / from_dask_bag with dask's bag and delayed constructors recorded: part-number windows across bags (symbolic partition counts), lhs_keep, finality, fold / collate / finalise wiring; dask's fold semantics are assumed",
)
