"""
Contracts for the value types.   Property: C19 (equality, hashing, tokens, caches are coherent).

Record level: each type is a record of fields; ==, __hash__ and __dask_tokenize__ are executed from
their source on records with symbolic fields.  `hash` of a tuple is an uninterpreted function of the
element values (Python's contract); dask's tokenize is assumed injective on tuples of
numbers/strings, so "tokens equal" is tuple equality of the __dask_tokenize__() results.
CRS objects inside records are concrete (EPSG:3857 / EPSG:4326 / none).
"""
from pyvc.api import *  # noqa: F401,F403

from .geobox_c import BBOX, GEOBOX, CRSShape
from .tiles_c import TILES, VTILES, wf_tiles, wf_vtiles

TYPES = "odc.geo.types"


def _eq(a, b):
    return a.__eq__(b)


def _laws(a, b, c, hashable=True):
    claim(bool(_eq(a, a)), "reflexive")
    ab, ba = bool(_eq(a, b)), bool(_eq(b, a))
    claim(ab == ba, "symmetric")
    if ab and bool(_eq(b, c)):
        claim(bool(_eq(a, c)), "transitive")
    if hashable and ab:
        claim(a.__hash__() == b.__hash__(), "equal objects have equal hashes")


def _tok_law(a, b):
    ta, tb = a.__dask_tokenize__(), b.__dask_tokenize__()
    same = len(ta) == len(tb) and all(bool(x == y) for x, y in zip(ta, tb))
    if same:
        claim(bool(_eq(a, b)), "objects that share a dask token are equal (unequal objects never share a token)")
    if bool(_eq(a, b)) and all(isinstance(x, (int, float, str)) or hasattr(x, "t") for x in ta):
        claim(same, "equal objects (a value and its copy) share their token")


XYS = lambda: Build(f"{TYPES}:XY", Real(), Real())  # noqa: E731
lemma("values.XY_laws", ["C19"], inputs=dict(a=XYS(), b=XYS(), c=XYS()), body=lambda a, b, c: _laws(a, b, c), note="XY family: == compares the (x, y) tuple, hash hashes the same tuple")
lemma("values.XY_vs_other", ["C19"], inputs=dict(a=XYS(), o=OneOf(None, 3, Tup(Real(), Real()))), body=lambda a, o: claim(_eq(a, o) is False, "XY is never equal to a non-XY"))

SH = lambda: Build(f"{TYPES}:Shape2d", x=Int(ge=0), y=Int(ge=0))  # noqa: E731
lemma("values.Shape2d_laws", ["C19"], inputs=dict(a=SH(), b=SH(), c=SH()), body=lambda a, b, c: _laws(a, b, c, hashable=False), note="Shape2d overrides __eq__ without __hash__: it is not hashable, so the hash clause does not apply")
lemma("values.Shape2d_vs_tuple", ["C19"], inputs=dict(a=SH(), t=Tup(Int(), Int())), body=lambda a, t: claim(Iff(bool(_eq(a, t)), And(a.y == t[0], a.x == t[1])), "a Shape2d equals the (y, x) tuple form"))

for _crss, _tag in ((("EPSG:3857",) * 3, "same_crs"), (("EPSG:3857", None, "EPSG:4326"), "mixed_crs")):
    lemma(f"values.BoundingBox_laws_{_tag}", ["C19"], inputs=dict(a=BBOX(_crss[0]), b=BBOX(_crss[1]), c=BBOX(_crss[2])), body=lambda a, b, c: _laws(a, b, c))
    lemma(f"values.GeoBox_laws_{_tag}", ["C19"], inputs=dict(a=GEOBOX(_crss[0], 0), b=GEOBOX(_crss[1], 0), c=GEOBOX(_crss[2], 0)), body=lambda a, b, c: _laws(a, b, c))
    lemma(f"values.GeoBox_token_{_tag}", ["C19"], inputs=dict(a=GEOBOX(_crss[0], 0), b=GEOBOX(_crss[1], 0)), body=_tok_law)



class _GhostMapping:
    """stand-in for a GCPMapping: GCPGeoBox equality / hash only use its identity"""

    def __init__(self, tag):
        self.tag = tag

    def __vc_src__(self, model, c):
        return f"R('contracts.values_c:_native_mapping')({self.tag!r})"


_MAPPINGS = {}


def _native_mapping(tag):
    return _MAPPINGS.setdefault(tag, _GhostMapping(tag))


def _gcpbox(mapping_tag, crs="EPSG:4326"):
    from .math_c import AFFINE

    return Obj("odc.geo.gcp:GCPGeoBox", _shape=Build(f"{TYPES}:Shape2d", x=Int(ge=1), y=Int(ge=1)), _affine=AFFINE(), _crs=CRSShape(crs), _mapping=Value(_native_mapping(mapping_tag)))


for _tags in (("M", "M", "M"), ("M", "N", "M"), ("M", "M", "N")):
    lemma(
        "values.GCPGeoBox_laws_" + "".join(_tags),
        ["C19"],
        inputs=dict(a=_gcpbox(_tags[0]), b=_gcpbox(_tags[1]), c=_gcpbox(_tags[2])),
        body=lambda a, b, c: _laws(a, b, c),
        note="GCP GeoBoxes over shared / different control-point mappings (compared by identity: known finding), symbolic shape and pixel-plane affine: == is an equivalence and equal boxes hash alike",
    )

lemma("values.Tiles_laws", ["C19"], inputs=dict(a=TILES(), b=TILES(), c=TILES()), requires=[lambda a, b, c: And(wf_tiles(a), wf_tiles(b), wf_tiles(c))], body=lambda a, b, c: _laws(a, b, c, hashable=False))
lemma("values.Tiles_token", ["C19"], inputs=dict(a=TILES(), b=TILES()), requires=[lambda a, b: And(wf_tiles(a), wf_tiles(b))], body=_tok_law, note="near-identical family: tilings differing in one field (base shape, tile shape)")


def _gbt(crs="EPSG:3857"):
    return Obj("odc.geo.geobox:GeoboxTiles", _gbox=GEOBOX(crs, 0), _tiles=TILES())


lemma("values.GeoboxTiles_token", ["C19"], inputs=dict(a=_gbt(), b=_gbt()), requires=[lambda a, b: And(wf_tiles(a._tiles), wf_tiles(b._tiles))], body=_tok_law)
lemma("values.GeoboxTiles_laws", ["C19"], inputs=dict(a=_gbt(), b=_gbt(), c=_gbt()), requires=[lambda a, b, c: And(wf_tiles(a._tiles), wf_tiles(b._tiles), wf_tiles(c._tiles))], body=lambda a, b, c: _laws(a, b, c, hashable=False))

# ---- CRS: cache lifetime invariant (structural obligations on the source) --------------------------------------------------


def _crs_source():
    import inspect

    mod = repo("odc.geo.crs")
    if symbolic():
        from pyvc import shadow

        return mod, shadow.LOADED_SOURCES["odc.geo.crs"]
    return mod, inspect.getsource(mod)


def _crs_cache_body():
    """transformer_to_crs(a, b) is cached under (id(a._crs), id(b._crs), always_xy).  That key is sound
    iff the pyproj objects are never freed while a CRS can exist, i.e. iff every CRS._crs is held
    forever by _crs_cache.  Checked on the source / module objects:"""
    import ast

    mod, src = _crs_source()
    tree = ast.parse(src)
    claim(type(mod._crs_cache) is dict, "_crs_cache is a plain dict (never evicts): ids of cached pyproj objects are never recycled")
    bad = []
    for n in ast.walk(tree):
        if isinstance(n, ast.Call) and isinstance(n.func, ast.Attribute) and isinstance(n.func.value, ast.Name) and n.func.value.id == "_crs_cache" and n.func.attr in ("pop", "popitem", "clear", "__delitem__"):
            bad.append(n.lineno)
        if isinstance(n, ast.Delete) and any(isinstance(t, ast.Subscript) and isinstance(t.value, ast.Name) and t.value.id == "_crs_cache" for t in n.targets):
            bad.append(n.lineno)
        if isinstance(n, (ast.Assign, ast.AugAssign)) and any(isinstance(t, ast.Name) and t.id == "_crs_cache" for t in (n.targets if isinstance(n, ast.Assign) else [n.target])) and getattr(n, "lineno", 0) and not (isinstance(n, ast.Assign) and isinstance(n.value, ast.Dict) and not n.value.keys):
            bad.append(n.lineno)
    claim(not bad, f"nothing ever removes an entry from _crs_cache or rebinds it (offending lines: {bad})")
    # _make_crs is memoised in _crs_cache with _make_crs_key
    mk = [n for n in tree.body if isinstance(n, ast.FunctionDef) and n.name == "_make_crs"]
    dec = ast.unparse(mk[0].decorator_list[0]) if mk and mk[0].decorator_list else ""
    claim(dec.replace(" ", "") == "cachetools.cached(_crs_cache,key=_make_crs_key)", "_make_crs is memoised in _crs_cache under _make_crs_key")
    # every assignment to self._crs in CRS comes from _make_crs(...) or from another CRS object
    cls = [n for n in tree.body if isinstance(n, ast.ClassDef) and n.name == "CRS"][0]
    srcs = []
    for n in ast.walk(cls):
        if isinstance(n, ast.Assign):
            for t in n.targets:
                tt = t.elts[0] if isinstance(t, ast.Tuple) else t
                if isinstance(tt, ast.Attribute) and tt.attr == "_crs" and isinstance(tt.value, ast.Name) and tt.value.id == "self":
                    srcs.append(ast.unparse(n.value))
    ok = all(s.startswith("_make_crs(") or s == "crs_spec._crs" for s in srcs) and len(srcs) >= 3
    claim(ok, f"CRS._crs is always a value held by _crs_cache (assigned from: {srcs})")
    tk = [n for n in tree.body if isinstance(n, ast.FunctionDef) and n.name == "_make_crs_transform_key"]
    claim(bool(tk) and ast.unparse(tk[0].body[-1]).replace(" ", "") == "return(id(from_crs),id(to_crs),always_xy)", "the transformer cache key is (id(from), id(to), always_xy)")
    tr = [n for n in ast.walk(cls) if isinstance(n, ast.FunctionDef) and n.name == "transformer_to_crs"][0]
    claim("_make_crs_transform(self._crs, other._crs, always_xy=always_xy)" in ast.unparse(tr), "transformer_to_crs asks for exactly (self._crs, other._crs)")


lemma("crs.cache_lifetime_invariant", ["C19", "C07", "C03", "C11"], inputs=dict(), body=_crs_cache_body, note="structural obligations checked on the AST and module objects of the tree under verification (no solver needed)")


def _crs_eq_body():
    import ast

    mod, src = _crs_source()
    cls = [n for n in ast.parse(src).body if isinstance(n, ast.ClassDef) and n.name == "CRS"][0]
    ne = [n for n in cls.body if isinstance(n, ast.FunctionDef) and n.name == "__ne__"][0]
    claim(ast.unparse(ne.body[-1]) == "return not self == other", "__ne__ is the negation of __eq__")
    c = mod.CRS("EPSG:3857")
    claim(c == c and not (c != c), "reflexive (identical pyproj object short-cut)")
    claim((c == None) is False and (c != None) is True, "a CRS never equals None (what makes `crs != None` mismatch checks work)")  # noqa: E711


lemma("crs.eq_ne_consistent", ["C19", "C01"], inputs=dict(), body=_crs_eq_body)

# ---- CRS: bounded catalogue of construction routes (pyproj objects are concrete: not a proof) ---------------------------------

_BASES = (4326, 3857, 3577, 32633)
_ROUTES = ("int", "EPSG", "epsg", "wkt2", "projjson", "pyproj", "crs_of_crs", "pickle")


def _build_crs(base, route):
    import pickle

    from pyproj import CRS as P

    from odc.geo.crs import CRS

    if route == "int":
        return CRS(base)
    if route == "EPSG":
        return CRS(f"EPSG:{base}")
    if route == "epsg":
        return CRS(f"epsg:{base}")
    if route == "wkt2":
        return CRS(P.from_epsg(base).to_wkt(version="WKT2_2019"))
    if route == "projjson":
        return CRS(P.from_epsg(base).to_json_dict())
    if route == "pyproj":
        return CRS(P.from_epsg(base))
    if route == "crs_of_crs":
        return CRS(CRS(base))
    return pickle.loads(pickle.dumps(CRS(f"EPSG:{base}")))


def _crs_samples():
    import itertools

    def gen():
        for b1, b2 in itertools.product(_BASES, repeat=2):
            for r1, r2 in itertools.product(_ROUTES, repeat=2):
                if b1 == b2 or (r1, r2) in (("EPSG", "wkt2"), ("wkt2", "pyproj"), ("int", "int")):
                    yield dict(b1=b1, r1=r1, b2=b2, r2=r2)

    return f"{len(_BASES)} CRSs x {len(_ROUTES)} construction routes: all route pairs of the same CRS, 3 route pairs across different CRSs", gen()


def _crs_pair_body(b1, r1, b2, r2):
    from dask.base import tokenize

    a, b = _build_crs(b1, r1), _build_crs(b2, r2)
    if b1 == b2:
        claim(a == b and b == a and not (a != b), "lossless equivalent specifications give equal CRS objects")
        claim(hash(a) == hash(b), "equal CRS objects have equal hashes")
        claim(tokenize(a) == tokenize(b), "equal CRS objects share their dask token")
    else:
        claim(a != b and not (a == b), "different CRSs compare unequal")
        claim(tokenize(a) != tokenize(b), "unequal CRS objects never share a token")


lemma(
    "crs.construction_routes_bounded",
    ["C19"],
    inputs=dict(b1=4326, r1="int", b2=4326, r2="int"),
    body=_crs_pair_body,
    verify=False,
    trusted_reason="pyproj objects are concrete: BOUNDED native catalogue, not a proof",
    native_samples=_crs_samples,
)


def _hist_samples():
    def gen():
        for base in (3577, 4326):
            for spec in ("wkt2", "pyproj", "EPSG", "projjson"):
                for hist in ((), ("pyproj",), ("wkt2",), ("EPSG", "int"), ("pyproj", "wkt2", "projjson")):
                    yield dict(base=base, spec=spec, hist=hist)

    return "2 CRSs x 4 specifications x 5 construction histories, each in a fresh interpreter", gen()


def _observe(base, spec, hist):
    """str/hash/token of CRS(spec) after building the CRSs of `hist` first -- in a fresh process"""
    import json
    import subprocess
    import sys

    code = (
        "import json,sys; sys.path.insert(0, %r); from contracts.values_c import _build_crs; from dask.base import tokenize\n"
        "for r in %r: _build_crs(%r, r)\n"
        "c=_build_crs(%r, %r); print(json.dumps([str(c), tokenize(c), c.epsg]))" % (__import__("os").path.dirname(__import__("os").path.dirname(__file__)), list(hist), base, base, spec)
    )
    r = subprocess.run([sys.executable, "-W", "ignore", "-c", code], capture_output=True, text=True, timeout=120)
    return json.loads(r.stdout.strip().splitlines()[-1])


def _hist_body(base, spec, hist):
    ref = _observe(base, spec, ())
    got = _observe(base, spec, hist)
    claim(got[0] == ref[0], "str(CRS(spec)) does not depend on which CRS objects were created before")
    claim(got[1] == ref[1], "the dask token of CRS(spec) does not depend on which CRS objects were created before")
    claim(got[2] == ref[2], "the EPSG code does not depend on history")


lemma(
    "crs.history_independence_bounded",
    ["C19"],
    inputs=dict(base=3577, spec="wkt2", hist=()),
    body=_hist_body,
    verify=False,
    trusted_reason="process-wide cache + pyproj: BOUNDED native check in fresh interpreters, not a proof",
    native_samples=_hist_samples,
)


# =====================================================================================================
# BOUNDED native catalogue of the value-type laws on real objects (incl. the types whose equality rests on
# shapely / numpy / pickle, which no record-level proof reaches): Geometry, GCPGeoBox, GridSpec,
# VariableSizedTiles -- and, as a cross-check of the proofs, the record types
# =====================================================================================================


def _value_families():
    import numpy as np
    from affine import Affine

    from odc.geo import geom, xy_, yx_
    from odc.geo.gcp import GCPGeoBox, GCPMapping
    from odc.geo.geobox import GeoBox, GeoboxTiles
    from odc.geo.gridspec import GridSpec
    from odc.geo.roi import Tiles, VariableSizedTiles
    from odc.geo.types import Resolution, Shape2d

    A = Affine(10.0, 0, 500_000.0, 0, -10.0, 6_000_000.0)
    fam = {}
    fam["Geometry"] = [
        lambda: geom.point(1.0, 2.0, "EPSG:4326"),
        lambda: geom.point(1.0, 2.0, "EPSG:3857"),
        lambda: geom.point(1.0, 2.0, None),
        lambda: geom.point(1.0, 2.5, "EPSG:4326"),
        lambda: geom.box(0, 0, 2, 3, "EPSG:4326"),
        lambda: geom.box(0, 0, 2, 3.000001, "EPSG:4326"),
        lambda: geom.polygon([(0, 0), (2, 0), (2, 3), (0, 3), (0, 0)], "EPSG:4326"),
        lambda: geom.line([(0, 0), (2, 3)], "EPSG:4326"),
        lambda: geom.multipoint([(0, 0), (2, 3)], "EPSG:4326"),
        # every geometry kind the wrapper can hold: rings (a shapely type of their own), holes, multi-part, collections, empty, 3-D
        lambda: geom.polygon([(0, 0), (9, 0), (9, 9), (0, 9), (0, 0)], "EPSG:4326", [(2, 2), (4, 2), (4, 4), (2, 2)]),
        lambda: geom.polygon([(0, 0), (9, 0), (9, 9), (0, 9), (0, 0)], "EPSG:4326", [(2, 2), (4, 2), (4, 4), (2, 2)]).exterior,
        lambda: geom.polygon([(0, 0), (9, 0), (9, 9), (0, 9), (0, 0)], "EPSG:4326", [(2, 2), (4, 2), (4, 4), (2, 2)]).interiors[0],
        lambda: geom.polygon([(0, 0), (9, 0), (9, 9), (0, 9), (0, 0)], None).exterior,
        lambda: geom.line([(0, 0), (9, 0), (9, 9), (0, 9), (0, 0)], "EPSG:4326"),
        lambda: geom.multiline([[(0, 0), (2, 3)], [(5, 5), (6, 7), (8, 8)]], "EPSG:4326"),
        lambda: geom.multipolygon([[[(0, 0), (2, 0), (2, 3), (0, 0)]], [[(10, 10), (12, 10), (12, 13), (10, 10)]]], "EPSG:4326"),
        lambda: geom.multigeom([geom.point(1.0, 2.0, "EPSG:4326"), geom.point(4.0, 5.0, "EPSG:4326")]),
        lambda: geom.Geometry(__import__("shapely.geometry").geometry.GeometryCollection([geom.point(1.0, 2.0, None).geom, geom.line([(0, 0), (2, 3)], None).geom]), "EPSG:4326"),
        lambda: geom.box(0, 0, 2, 3, "EPSG:4326") & geom.box(10, 10, 12, 13, "EPSG:4326"),
        lambda: geom.Geometry(__import__("shapely.geometry").geometry.Point(1.0, 2.0, 30.0), "EPSG:4326"),
        lambda: geom.Geometry({"type": "Point", "coordinates": [0.1 + 0.2, 1e-320]}, "EPSG:4326"),
    ]
    def _crs_used(spec, route):
        """a CRS built from another spelling of an EPSG code, AFTER the library itself has looked at it (.epsg is read by
        xr_coords / GeoTIFF export and caches its answer on the object)"""
        from odc.geo.crs import CRS

        base = CRS(spec)
        c = {"wkt": lambda: CRS(base.to_wkt()), "pyproj": lambda: CRS(base.proj), "epsg": lambda: CRS(spec), "json": lambda: CRS(base.proj.to_json())}[route]()
        _ = c.epsg
        _ = c.units
        return c

    fam["CRS"] = [
        lambda: _crs_used("EPSG:32633", "wkt"),
        lambda: _crs_used("EPSG:3857", "json"),
        lambda: _crs_used("EPSG:4326", "epsg"),
        lambda: _crs_used("EPSG:3577", "wkt"),
        lambda: _crs_used("EPSG:6933", "pyproj"),
    ]
    fam["BoundingBox"] = [lambda: geom.BoundingBox(0, 1, 2, 3, "EPSG:4326"), lambda: geom.BoundingBox(0, 1, 2, 3, None), lambda: geom.BoundingBox(0, 1, 2, 3.5, "EPSG:4326"), lambda: geom.BoundingBox(0, 1, 2, 3, "EPSG:3857")]
    fam["GeoBox"] = [lambda: GeoBox((7, 9), A, "EPSG:32633"), lambda: GeoBox((7, 8), A, "EPSG:32633"), lambda: GeoBox((7, 9), A * Affine.translation(1, 0), "EPSG:32633"), lambda: GeoBox((7, 9), A, "EPSG:32634"), lambda: GeoBox((7, 9), A * Affine.translation(1e-7, 0), "EPSG:32633")]
    pix = np.asarray([(x, y) for y in (0.0, 10.0, 20.0) for x in (0.0, 15.0, 30.0)])
    wld = np.asarray([(100 + 2.0 * x + 0.01 * x * y, 50 - 1.5 * y + 0.02 * x) for x, y in pix])
    fam["GCPGeoBox"] = [
        lambda: GCPGeoBox((20, 30), GCPMapping(pix.copy(), wld.copy(), "EPSG:4326")),
        lambda: GCPGeoBox((20, 31), GCPMapping(pix.copy(), wld.copy(), "EPSG:4326")),
        lambda: GCPGeoBox((20, 30), GCPMapping(pix.copy(), wld.copy() + 0.5, "EPSG:4326")),
        lambda: GCPGeoBox((20, 30), GCPMapping(pix.copy(), wld.copy(), "EPSG:4326"), Affine.translation(1, 2)),
    ]
    fam["Tiles"] = [lambda: Tiles((10, 10), (4, 4)), lambda: Tiles((11, 10), (4, 4)), lambda: Tiles((10, 10), (4, 5)), lambda: Tiles((12, 12), (4, 4))]
    fam["VariableSizedTiles"] = [lambda: VariableSizedTiles(((2, 3), (4,))), lambda: VariableSizedTiles(((2, 3), (3, 1))), lambda: VariableSizedTiles(((3, 2), (4,))), lambda: VariableSizedTiles(((2, 3, 0), (4,)))]
    fam["GeoboxTiles"] = [lambda: GeoboxTiles(GeoBox((7, 9), A, "EPSG:32633"), (4, 4)), lambda: GeoboxTiles(GeoBox((7, 9), A, "EPSG:32633"), (4, 5)), lambda: GeoboxTiles(GeoBox((8, 9), A, "EPSG:32633"), (4, 4)), lambda: GeoboxTiles(GeoBox((7, 9), A, "EPSG:32633"), ((3, 4), (9,)))]
    fam["GridSpec"] = [
        lambda: GridSpec("EPSG:3857", (100, 100), Resolution(10, -10)),
        lambda: GridSpec("EPSG:3857", (100, 101), Resolution(10, -10)),
        lambda: GridSpec("EPSG:3857", (100, 100), Resolution(10, -10), origin=xy_(5.0, 0.0)),
        lambda: GridSpec("EPSG:3857", (100, 100), Resolution(10, -10), flipy=True),
        lambda: GridSpec("EPSG:32633", (100, 100), Resolution(10, -10)),
    ]
    fam["XY"] = [lambda: xy_(1.0, 2.0), lambda: xy_(1.0, 2.5), lambda: yx_(1.0, 2.0), lambda: xy_(1, 2)]
    fam["Shape2d"] = [lambda: Shape2d(x=3, y=4), lambda: Shape2d(x=4, y=3), lambda: Shape2d(x=3, y=5)]
    return fam


def _value_samples():
    def gen():
        for name in _value_families():
            yield dict(type_name=name)

    return "11 value types (incl. CRS objects from other spellings after their EPSG code was looked up) x families of 3-21 near-identical objects (Geometry: every shapely kind incl. rings, holes, multi-part, collection, empty, 3-D, awkward floats) (differing in one field), each built twice, copied and pickled: all pairs and triples", gen()


def _value_oracle(args, run=None):
    import copy
    import itertools
    import pickle

    from dask.base import tokenize

    name = args["type_name"]
    makers = _value_families()[name]
    objs = [mk() for mk in makers]
    twins = [mk() for mk in makers]  # the same construction a second time
    fails = []

    def eq(a, b):
        return bool(a == b)

    def hashable(o):
        try:
            hash(o)
            return True
        except TypeError:
            return False

    # same construction twice / copy / pickle
    for i, (o, t) in enumerate(zip(objs, twins)):
        if name == "CRS":
            for how, c in {"pickled clone": pickle.loads(pickle.dumps(o)), "deep copy": copy.deepcopy(o)}.items():
                if str(c) != str(o):
                    fails.append(f"post:CRS: a {how} has the same string form as the original, also after the original was used (member {i})")
        if not eq(o, o):
            fails.append(f"post:{name}: == is reflexive (member {i})")
        clones = {"pickled clone": pickle.loads(pickle.dumps(o)), "deep copy": copy.deepcopy(o)}
        for how, c in clones.items():
            if not (eq(o, c) and eq(c, o)):
                fails.append(f"post:{name}: a {how} compares equal to the original (member {i})")
            elif hashable(o) and hash(o) != hash(c):
                fails.append(f"post:{name}: a {how} has the same hash (member {i})")
            if tokenize(o) != tokenize(c):
                fails.append(f"post:{name}: a {how} shares the dask token of the original (member {i})")
        if not (eq(o, t) and eq(t, o)):
            fails.append(f"post:{name}: the same construction twice gives equal objects (member {i})")
        elif hashable(o) and hash(o) != hash(t):
            fails.append(f"post:{name}: equal objects have equal hashes (member {i}, built twice)")
    everything = objs + twins
    for a, b in itertools.combinations(range(len(everything)), 2):
        x, y = everything[a], everything[b]
        if eq(x, y) != eq(y, x):
            fails.append(f"post:{name}: == is symmetric (members {a}, {b})")
        if eq(x, y) and hashable(x) and hashable(y) and hash(x) != hash(y):
            fails.append(f"post:{name}: equal objects have equal hashes (members {a}, {b})")
        if (not eq(x, y)) and tokenize(x) == tokenize(y):
            fails.append(f"post:{name}: objects that compare unequal never share a dask token (members {a % len(objs)}, {b % len(objs)})")
        # (the property asks for a shared token only between a value and its copy / clone / identical
        #  construction -- checked above; xy_(1, 2) == xy_(1.0, 2.0) may tokenise differently)
    for a, b, c in itertools.permutations(range(len(everything)), 3):
        x, y, z = everything[a], everything[b], everything[c]
        if eq(x, y) and eq(y, z) and not eq(x, z):
            fails.append(f"post:{name}: == is transitive (members {a}, {b}, {c})")
            break
    import re

    return sorted({re.sub(r" \((member|members) [^)]*\)$", "", f) for f in fails})


contract(
    "odc.geo.geobox:GeoBox.__eq__@catalogue",
    ["C19"],
    kind="lemma",
    inputs=dict(),
    body=lambda: None,
    verify=False,
    trusted_reason="equality / hash / pickle / dask token of real objects, incl. types resting on shapely geometry equality, numpy arrays and pickle: BOUNDED native catalogue",
    native_samples=_value_samples,
    native_oracle=_value_oracle,
)
