"""
Contracts for densification / reprojection of geometries (geom.py).   Property: C07.

Decided here: densify() for one edge with ANY number of inserted points (inner while loop under an
invariant, unbounded) -- every consecutive pair of the output is at distance <= resolution, first and
last vertex kept, inserted vertices lie on the edge at multiples of the resolution; the branch that
skips an edge is taken only when the edge is short enough.  shapely's LineString.length / interpolate
are ASSUMED: length = |q - p|, interpolate(d) = p + d/|q-p| (q - p) for 0 <= d <= |q - p|.
Multi-edge polylines, ring/part structure (segmented) and to_crs dispatch: BOUNDED native checks.
Projection accuracy (pyproj numerics) is not decided.
"""
from pyvc.api import *  # noqa: F401,F403

GEOM = "odc.geo.geom"


class _Seg:
    """ASSUMED model of shapely LineString([p, q]): length = |q - p| and, for 0 <= d <= length,
    interpolate(d) = p + d * e with e = (q - p) / length the unit vector of the segment
    (stated with e so that every verification condition is polynomial: e.x^2 + e.y^2 = 1, e * length = q - p)"""

    def __init__(self, p, q):
        from pyvc import builtins_

        self.p, self.q = p, q
        dx, dy = q[0] - p[0], q[1] - p[1]
        L = builtins_.m_sqrt(dx * dx + dy * dy)
        self.length = L
        if symbolic():
            ex, ey = Real().make("seg.ex"), Real().make("seg.ey")
            assume(Implies(L > 0, And(ex * L == dx, ey * L == dy, ex * ex + ey * ey == 1)))
        else:
            ex, ey = (dx / L, dy / L) if L > 0 else (0.0, 0.0)
        self.ex, self.ey = ex, ey

    def interpolate(self, d):
        p, ex, ey = self.p, self.ex, self.ey

        class _Pt:
            coords = [(p[0] + d * ex, p[1] + d * ey)]

        return _Pt()


class _GeometryModel:
    @staticmethod
    def LineString(pts):
        p, q = pts
        return _Seg(p, q)


def d2(a, b):
    return (a[0] - b[0]) * (a[0] - b[0]) + (a[1] - b[1]) * (a[1] - b[1])


PT = Tup(Real(), Real())


# ---- two pure facts of plane geometry / real arithmetic, proved once (nlsat) and APPLIED in the loop invariants ------


def _collinear_statement(px, py, ex, ey, a, b, x1, y1, x2, y2):
    return Implies(
        And(ex * ex + ey * ey == 1, x1 == px + a * ex, y1 == py + a * ey, x2 == px + b * ex, y2 == py + b * ey),
        (x2 - x1) * (x2 - x1) + (y2 - y1) * (y2 - y1) == (b - a) * (b - a),
    )


stated_lemma(
    "plane.collinear_distance",
    ["C07"],
    inputs=dict(px=Real(), py=Real(), ex=Real(), ey=Real(), a=Real(), b=Real(), x1=Real(), y1=Real(), x2=Real(), y2=Real()),
    statement=_collinear_statement,
    note="two points at arc lengths a and b along a unit direction e from p are |b - a| apart",
)


def _sq_mono_statement(x, y):
    return Implies(And(0 <= x, x <= y), x * x <= y * y)


stated_lemma("reals.square_monotone", ["C07"], inputs=dict(x=Real(), y=Real()), statement=_sq_mono_statement)


def _inner_inv(new_coords, coords, p1, p2, d, resolution, segment_length, segment, _ks):
    """state of the inner loop: the last emitted point sits on the edge at arc length a = d - res from p1"""
    n = seq_len(new_coords)
    last = seq_get(new_coords, n - 1, default=(0, 0))
    L = segment_length
    a = d - resolution  # arc length of the last emitted point
    return And(
        n >= 1,
        n >= _ks[0] + 1,  # (no vertex is dropped: one output vertex per original vertex met so far)
        # the first vertex of the whole line stays first
        seq_get(new_coords, 0, default=(0, 0))[0] == coords[0][0],
        seq_get(new_coords, 0, default=(0, 0))[1] == coords[0][1],
        L == segment.length,
        L > 0,
        a >= 0,
        a < L,
        # last point = p1 + a e   (e the unit vector of the edge): on the edge, a multiple of the resolution along it
        last[0] == p1[0] + a * segment.ex,
        last[1] == p1[1] + a * segment.ey,
        # everything emitted so far is densely spaced
        forall(0, n - 1, lambda i: d2(seq_get(new_coords, i), seq_get(new_coords, i + 1)) <= resolution * resolution),
        # lemma applications (facts, not obligations): distance from the last point to the NEXT point p1 + d e ...
        use_lemma("plane.collinear_distance", px=p1[0], py=p1[1], ex=segment.ex, ey=segment.ey, a=a, b=d, x1=last[0], y1=last[1], x2=p1[0] + d * segment.ex, y2=p1[1] + d * segment.ey),
        # ... and to the END of the edge p2 = p1 + L e, with (L - a)^2 <= res^2 once L - a <= res
        use_lemma("plane.collinear_distance", px=p1[0], py=p1[1], ex=segment.ex, ey=segment.ey, a=a, b=L, x1=last[0], y1=last[1], x2=p2[0], y2=p2[1]),
        use_lemma("reals.square_monotone", x=L - a, y=resolution),
    )


from pyvc import shadow as _shadow  # noqa: E402

_shadow.LOOP_SPECS[f"{GEOM}:densify#1"] = LoopSpec(
    invariant=_inner_inv,
    havoc={"new_coords": SeqOf(PT, "list", min_len=1), "pt": PT},
    note="inner while loop of densify",
)


def _outer_inv(new_coords, coords, resolution, _k):
    """before edge _k is processed: the output ends at vertex _k, starts at vertex 0, and is densely spaced"""
    n = seq_len(new_coords)
    last = seq_get(new_coords, n - 1, default=(0, 0))
    first = seq_get(new_coords, 0, default=(0, 0))
    return And(
        n >= 1,
        n >= _k + 1,  # no vertex is dropped: at least one output vertex per original vertex met so far
        first[0] == coords[0][0],
        first[1] == coords[0][1],
        last[0] == seq_get(coords, _k, default=(0, 0))[0],
        last[1] == seq_get(coords, _k, default=(0, 0))[1],
        forall(0, n - 1, lambda i: d2(seq_get(new_coords, i), seq_get(new_coords, i + 1)) <= resolution * resolution),
    )


_shadow.LOOP_SPECS[f"{GEOM}:densify#0"] = LoopSpec(
    invariant=_outer_inv,
    havoc={"new_coords": SeqOf(PT, "list", min_len=1), "pt": PT},
    note="outer for loop of densify over the edges (zip of the vertex list with itself shifted by one)",
)


def _single_edge_body(p1, p2, resolution):
    m = repo(GEOM)
    saved = m.geometry
    try:
        m.geometry = _GeometryModel
        out = m.densify([p1, p2], resolution)
    finally:
        m.geometry = saved
    n = seq_len(out)
    claim(n >= 2, "at least the two input vertices")
    first, last = seq_get(out, 0), seq_get(out, n - 1)
    claim(And(first[0] == p1[0], first[1] == p1[1], last[0] == p2[0], last[1] == p2[1]), "first and last vertex are the original ones, in order")
    claim(forall(0, n - 1, lambda i: d2(seq_get(out, i), seq_get(out, i + 1)) <= resolution * resolution), "no edge of the densified line is longer than the resolution")


lemma(
    "densify.single_edge",
    ["C07"],
    inputs=dict(p1=PT, p2=PT, resolution=Real(gt=0)),
    body=_single_edge_body,
    unstub=[f"{GEOM}:densify"],
    note="one edge in any direction and position (near the axes or far from them), any resolution, unbounded number of inserted points (loop invariant). "
    "The invariant also states that each inserted point is p1 + a/L (p2 - p1) with a a multiple of the resolution in (0, L): it lies on the edge",
)


def _polyline_body(coords, resolution):
    m = repo(GEOM)
    saved = m.geometry
    try:
        m.geometry = _GeometryModel
        out = m.densify(coords, resolution)
    finally:
        m.geometry = saved
    n = seq_len(out)
    nc = seq_len(coords)
    first, last = seq_get(out, 0), seq_get(out, n - 1)
    claim(n >= nc, "no vertex is dropped: at least as many vertices as the input")
    claim(And(first[0] == coords[0][0], first[1] == coords[0][1]), "the first vertex is kept")
    claim(And(last[0] == seq_get(coords, nc - 1)[0], last[1] == seq_get(coords, nc - 1)[1]), "the last vertex is kept")
    claim(forall(0, n - 1, lambda i: d2(seq_get(out, i), seq_get(out, i + 1)) <= resolution * resolution), "no edge of the densified line is longer than the resolution")


lemma(
    "densify.polyline",
    ["C07"],
    inputs=dict(coords=SeqOf(PT, "list", min_len=2), resolution=Real(gt=0)),
    body=_polyline_body,
    unstub=[f"{GEOM}:densify"],
    note="a polyline with ANY number of vertices (outer loop invariant) and any number of inserted points per edge (inner loop invariant)",
)


# ---- bounded stand-ins: multi-edge lines, ring/part structure, to_crs dispatch ------------------------------------------------


def _geoms():
    from odc.geo import geom

    c = "EPSG:4326"
    return {
        "point": geom.point(10.5, -33.25, c),
        "line_axis": geom.line([(0, -50), (0, 50), (0.0, 50.5)], c),
        "line_diag": geom.line([(-120, -40), (-100, -35), (-100.0001, -35.0)], c),
        "ring": geom.polygon([(0, 0), (0, 10), (10, 10), (10, 0), (0, 0)], c).exterior,
        "polygon_hole": geom.polygon([(0, 0), (0, 40), (40, 40), (40, 0), (0, 0)], c, [(10, 10), (10, 20), (20, 20), (20, 10), (10, 10)]),
        "multipolygon": geom.multipolygon([[[(0, 0), (0, 20), (20, 20), (20, 0), (0, 0)]], [[(50, 50), (50, 60), (60, 60), (60, 50), (50, 50)]]], c),
        "multiline": geom.multiline([[(0, 0), (30, 0)], [(5, 5), (5, 45), (6, 45)]], c),
        "multipoint": geom.multipoint([(1, 1), (2, 50)], c),
        "far": geom.line([(1000, 1000), (1000, 1003.5), (1002, 1003.5)], None),
    }


def _seg_samples():
    def gen():
        for name, g in _geoms().items():
            for res in (0.3, 1.0, 7.0, 1e3):
                yield dict(self=g, resolution=res, name=name)

    return "9 geometries (point, lines on/near the axes and far from them, ring, polygon with hole, multi-*) x 4 resolutions", gen()


def _coords_of(g):
    import shapely

    return shapely.get_coordinates(g.geom).tolist()


def _seg_post(self, resolution, name, result):
    import math

    import shapely

    g, r = self.geom, result.geom
    ok = r.geom_type == g.geom_type and result.crs == self.crs
    ok = ok and shapely.get_num_geometries(r) == shapely.get_num_geometries(g)
    if g.geom_type in ("Polygon",):
        ok = ok and len(r.interiors) == len(g.interiors)
    ok = ok and abs(r.length - g.length) <= 1e-9 * max(1.0, g.length) and abs(r.area - g.area) <= 1e-9 * max(1.0, g.area)
    # every edge short enough
    parts = [r] if not hasattr(r, "geoms") else list(r.geoms)
    for p in parts:
        rings = [p] if p.geom_type in ("LineString", "LinearRing") else ([p.exterior] + list(p.interiors) if p.geom_type == "Polygon" else [])
        for ln in rings:
            cs = list(ln.coords)
            for a, b in zip(cs, cs[1:]):
                if math.dist(a, b) > resolution * (1 + 1e-9):
                    return False
    # original vertices retained, in order (subsequence)
    want, got = _coords_of(self), _coords_of(result)
    it = iter(got)
    ok = ok and all(any(abs(w[0] - x[0]) < 1e-12 and abs(w[1] - x[1]) < 1e-12 for x in it) for w in want)
    return ok


contract(
    f"{GEOM}:Geometry.segmented",
    ["C07"],
    ensures=[("same type and ring/part structure, area and length unchanged, no edge longer than the resolution, original vertices retained in order", _seg_post)],
    verify=False,
    trusted_reason="shapely geometry construction per kind: BOUNDED native check (the per-edge argument is proved: densify.single_edge)",
    native_samples=_seg_samples,
)


def _tocrs_samples():
    def gen():
        gs = _geoms()
        for name in ("point", "line_diag", "polygon_hole", "multipolygon", "multiline"):
            for crs in ("EPSG:4326", "EPSG:3857", "EPSG:3577", "epsg:4326"):
                for res in (None, 1.0):
                    yield dict(self=gs[name], crs=crs, resolution=res, name=name)
        yield dict(self=gs["far"], crs="EPSG:4326", resolution=None, name="far")

    return "5 geometries x 4 target CRSs (incl. the source CRS in another letter case) x with/without densification + a geometry without CRS", gen()


def _tocrs_post(self, crs, resolution, name, result):
    import shapely

    from odc.geo.crs import CRS

    if CRS(crs) == self.crs:
        return result is self
    tr = self.crs.transformer_to_crs(CRS(crs))
    src = self if resolution is None else self.segmented(resolution)
    want = [tr(x, y) for x, y in shapely.get_coordinates(src.geom).tolist()]
    got = shapely.get_coordinates(result.geom).tolist()
    same_pts = len(want) == len(got) and all(abs(a[0] - b[0]) <= 1e-9 * max(1, abs(a[0])) and abs(a[1] - b[1]) <= 1e-9 * max(1, abs(a[1])) for a, b in zip(want, got))
    back = result.to_crs(self.crs)
    rt = all(abs(a[0] - b[0]) <= 1e-6 and abs(a[1] - b[1]) <= 1e-6 for a, b in zip(shapely.get_coordinates(src.geom).tolist(), shapely.get_coordinates(back.geom).tolist()))
    return same_pts and rt and result.geom.geom_type == self.geom.geom_type and result.crs == CRS(crs) and shapely.get_num_geometries(result.geom) == shapely.get_num_geometries(self.geom)


contract(
    f"{GEOM}:Geometry.to_crs",
    ["C07"],
    raises=[(ValueError, lambda self: self.crs is None)],
    ensures=[("identity when already in the target CRS; otherwise every vertex mapped exactly as the projection library maps it, type/structure/order kept, there-and-back returns the original coordinates", _tocrs_post)],
    verify=False,
    trusted_reason="pyproj + shapely.ops.transform: BOUNDED native check",
    native_samples=_tocrs_samples,
)


def _densify_samples():
    import random

    rnd = random.Random(int(__import__("os").environ.get("PYVC_SEED", "0")))

    def gen():
        for n, scale, off in [(2, 1.0, 0.0), (5, 10.0, 0.0), (5, 10.0, 1e6), (12, 0.01, -3e5), (3, 1e4, 0.0)]:
            for res in (0.5, 3.0, 1e-2 * scale, 50.0 * scale):
                pts = [(off + rnd.uniform(-scale, scale), off + rnd.uniform(-scale, scale)) for _ in range(n)]
                pts[1] = (0.0 + (off if off else 0.0), pts[1][1])  # an edge end on the y axis
                pts[0] = (pts[1][0], pts[0][1])  # vertical first edge
                yield dict(coords=pts, resolution=res)

    return "20 random polylines (2-12 vertices, coordinate scales 0.01 .. 1e4, near the axes and 1e6 away, vertical first edge on the y axis) x 4 resolutions", gen()


def _densify_post(coords, resolution, result):
    import math

    ok = result[0] == coords[0] and result[-1] == coords[-1]
    mag = max(max(abs(x), abs(y)) for x, y in coords)
    slack = resolution * 1e-9 + 1e-12 * mag  # float rounding of the coordinates themselves (A1)
    ok = ok and all(math.dist(a, b) <= resolution + slack for a, b in zip(result, result[1:]))
    it = iter(result)
    ok = ok and all(any(tuple(w) == tuple(x) for x in it) for w in coords)
    # inserted vertices lie on the original edges
    j = 0
    for p in result:
        if tuple(p) == tuple(coords[min(j + 1, len(coords) - 1)]) and j + 1 < len(coords):
            j += 1
            continue
        a, b = coords[j], coords[min(j + 1, len(coords) - 1)]
        cross = (b[0] - a[0]) * (p[1] - a[1]) - (b[1] - a[1]) * (p[0] - a[0])
        if abs(cross) > 1e-6 * max(1.0, math.dist(a, b)) * max(1.0, math.dist(a, p)):
            ok = False
    return ok


contract(
    f"{GEOM}:densify",
    ["C07"],
    ensures=[("every consecutive pair within the resolution; all original vertices retained in order; added vertices on the original edges", _densify_post)],
    verify=False,
    trusted_reason="multi-edge polylines (outer for-loop over a python list with shapely in the body): BOUNDED native check; the single-edge case is proved for any number of inserted points",
    native_samples=_densify_samples,
)


# ---- to_crs: what gets projected is the densified geometry (data-flow proof on the real method) ---------------------------------
#
# The real, shadow-loaded Geometry.to_crs runs on a stand-in receiver.  Every collaborator (segmented,
# _to_crs, chop_along_antimeridian, clip_lon180, _auto_resolution, the CRS) is a ghost that records what
# it was applied to, so the result carries its provenance as a term:
#     clip(fix?(proj(chop(seg(self, r)))))   /   fix?(proj(seg(self, r)))   /   self
# The lemma states which term must come out for every combination of the arguments.


class _Prov:
    """ghost geometry: `tag` is the operation that produced it, `args` what it was applied to"""

    def __init__(self, tag, args=(), crs=None, valid=True):
        self.tag, self.args, self.crs, self._valid = tag, args, crs, valid

    def segmented(self, resolution):
        return _Prov("seg", (self, resolution), self.crs, valid=self._valid)

    def _to_crs(self, crs):
        return _Prov("proj", (self, crs), crs, valid=self._valid)

    @property
    def is_valid(self):
        return self._valid

    def dropna(self):
        return _Prov("dropna", (self,), self.crs, valid=self._valid)

    def buffer(self, d):
        return _Prov("buffer", (self, d), self.crs)

    @property
    def geom_type(self):
        return "Polygon"

    # size of the geometry (symbolic: a shortcut that depends on the geometry's extent is followed both ways)
    SPAN = [None, None]

    @property
    def boundingbox(self):
        sx, sy = _Prov.SPAN
        return _SpanBox(sx, sy)

    @property
    def is_empty(self):
        return False


class _SpanBox:
    def __init__(self, sx, sy):
        self.span_x, self.span_y = sx, sy
        self.left, self.bottom, self.right, self.top = 0.0, 0.0, sx, sy
        self.bbox = (0.0, 0.0, sx, sy)

    def __iter__(self):
        return iter(self.bbox)


class _GhostCRS:
    __hash__ = None

    def __init__(self, cls, geographic):
        self.cls, self.geographic = cls, geographic

    def __eq__(self, o):
        if o is None:
            return False
        return self.cls == o.cls

    def __ne__(self, o):
        return Not(self == o)


def _chain(g):
    """provenance as a tuple of tags, outermost first"""
    out = []
    while isinstance(g, _Prov) and g.tag != "input":
        out.append(g.tag)
        g = g.args[0]
    return tuple(out), g


def _find(g, tag):
    while isinstance(g, _Prov) and g.tag != "input":
        if g.tag == tag:
            return g
        g = g.args[0]
    return None


def _lemma_to_crs_flow(src_cls, dst_cls, geographic, resolution, wrapdateline, check_and_fix, valid, span_x=1.0, span_y=1.0):
    m = repo(GEOM)
    _Prov.SPAN[:] = [span_x, span_y]
    me = _Prov("input", (), _GhostCRS(src_cls, False), valid=valid)
    dst = _GhostCRS(dst_cls, geographic)
    saved = (m.norm_crs_or_error, m.chop_along_antimeridian, m.clip_lon180, m._auto_resolution)
    AUTO = Real(gt=0).make("auto_resolution") if symbolic() else 0.123
    try:
        m.norm_crs_or_error = lambda crs, ctx=None: crs
        m.chop_along_antimeridian = lambda g, precision=0.1: _Prov("chop", (g, precision), g.crs, valid=getattr(g, "_valid", True))
        m.clip_lon180 = lambda g, tol=1e-6: _Prov("clip", (g, tol), g.crs)
        m._auto_resolution = lambda g: (claim(g is me, "auto resolution is derived from the geometry being projected"), AUTO)[1]
        out = m.Geometry.to_crs(me, dst, resolution, wrapdateline, check_and_fix=check_and_fix)
    finally:
        m.norm_crs_or_error, m.chop_along_antimeridian, m.clip_lon180, m._auto_resolution = saved
    if bool(src_cls == dst_cls):
        claim(out is me, "already in the target CRS: returned as is")
        return
    tags, root = _chain(out)
    claim(root is me, "the result derives from the receiver")
    claim(tags.count("proj") == 1 and _find(out, "proj").args[1] is dst, "projected exactly once, to the requested CRS")
    import math as _m

    densify = resolution is not None and not (isinstance(resolution, float) and not _m.isfinite(resolution))
    seg = _find(out, "seg")
    if densify:
        want = AUTO if isinstance(resolution, str) else resolution
        claim(seg is not None and seg.args[0] is me and seg.args[1] is want, "a resolution was requested: what is projected is segmented(resolution) of the receiver, on every branch")
        claim("seg" in tags and "proj" in tags and tags.index("seg") == len(tags) - 1 and tags.index("proj") < tags.index("seg"), "densified in the source CRS, before projecting")
    else:
        claim(seg is None, "no resolution: no vertices are added")
    if wrapdateline and geographic:
        claim(tags[0] == "clip" and "chop" in tags and tags.index("chop") > tags.index("proj"), "date-line handling: chopped before projecting, clipped after")
    else:
        claim("chop" not in tags and "clip" not in tags, "no date-line handling unless requested for a geographic target")
    fixed = "buffer" in tags or "dropna" in tags
    claim(fixed == (check_and_fix and not valid), "repair only when asked for and the projected geometry is invalid")


lemma(
    "to_crs.densify_then_project",
    ["C07"],
    inputs=dict(src_cls=Int(), dst_cls=Int(), geographic=Bool(), resolution=OneOf(None, "auto", Real(gt=0), float("inf")), wrapdateline=Bool(), check_and_fix=Bool(), valid=Bool(), span_x=Real(ge=0), span_y=Real(ge=0)),
    body=_lemma_to_crs_flow,
    unstub=[f"{GEOM}:Geometry.to_crs"],
    note="data-flow of the real Geometry.to_crs over ghost collaborators: the argument of the projection (and of the date-line chopping) is the densified geometry",
)


# ---- Geometry.segmented: EVERY ring / line of EVERY part goes through densify(resolution), whatever the size of the geometry -----------


def _lemma_segmented_flow(kind, resolution, x0, y0, w, h):
    m = repo(GEOM)
    log = []

    class G:
        is_empty = False

        @property
        def bounds(self):
            return (x0, y0, x0 + w, y0 + h)

    class Point(G):
        geom_type = "Point"

        def __init__(self, tag):
            self.tag = tag

    class MultiPoint(G):
        geom_type = "MultiPoint"

        def __init__(self, tag):
            self.tag = tag

    class LineString(G):
        geom_type = "LineString"

        def __init__(self, coords):
            self.coords = coords

    class LinearRing(LineString):
        geom_type = "LinearRing"

    class Polygon(G):
        geom_type = "Polygon"

        def __init__(self, exterior, interiors=()):
            self.exterior = exterior if isinstance(exterior, LinearRing) else LinearRing(exterior)
            self.interiors = [i if isinstance(i, LinearRing) else LinearRing(i) for i in interiors]

    class _Multi(G):
        def __init__(self, parts):
            self.geoms = list(parts)

    class MultiPolygon(_Multi):
        geom_type = "MultiPolygon"

    class MultiLineString(_Multi):
        geom_type = "MultiLineString"

    class GeometryCollection(_Multi):
        geom_type = "GeometryCollection"

    class GhostShapely:
        pass

    GhostShapely.Polygon = Polygon

    def g_densify(coords, res):
        log.append((tuple(coords), res))
        return ["densified", tuple(coords), res]

    def g_clone(g):
        return ("clone", g)

    ring = lambda t: [t + ".a", t + ".b", t + ".c", t + ".a"]
    poly = lambda t, holes=0: Polygon(ring(t + ".ext"), [ring(f"{t}.hole{k}") for k in range(holes)])
    shapes = {
        "point": lambda: Point("p"),
        "multipoint": lambda: MultiPoint("mp"),
        "line": lambda: LineString(["l.a", "l.b", "l.c"]),
        "ring": lambda: LinearRing(ring("r")),
        "polygon": lambda: poly("P"),
        "polygon+2holes": lambda: poly("P", 2),
        "multiline": lambda: MultiLineString([LineString(["l1.a", "l1.b"]), LineString(["l2.a", "l2.b", "l2.c"])]),
        "multipolygon": lambda: MultiPolygon([poly("P1", 1), poly("P2")]),
        "collection": lambda: GeometryCollection([Point("p"), LineString(["l.a", "l.b"]), MultiPolygon([poly("Q", 1)]), poly("P")]),
    }
    geom = shapes[kind]()
    me = object.__new__(m.Geometry)
    me.geom, me.crs = geom, "CRS-TAG"
    saved = (m.Geometry, m.densify, m._clone_shapely_geom, m.geometry)
    real_cls = m.Geometry
    try:
        m.Geometry = lambda g, crs=None: ("Geometry", g, crs)
        m.densify, m._clone_shapely_geom, m.geometry = g_densify, g_clone, GhostShapely
        out = real_cls.segmented(me, resolution)
    finally:
        m.Geometry, m.densify, m._clone_shapely_geom, m.geometry = saved

    def lines_of(g):
        if isinstance(g, (Point, MultiPoint)):
            return []
        if isinstance(g, Polygon):
            return [tuple(g.exterior.coords)] + [tuple(i.coords) for i in g.interiors]
        if isinstance(g, LineString):
            return [tuple(g.coords)]
        return [c for p in g.geoms for c in lines_of(p)]

    def same_structure(a, b):
        """b is a with every coordinate list replaced by its densification"""
        if isinstance(a, (Point, MultiPoint)):
            return b == ("clone", a)
        if type(a) is not type(b):
            return False
        if isinstance(a, Polygon):
            return same_structure(a.exterior, b.exterior) and len(a.interiors) == len(b.interiors) and all(same_structure(x, y) for x, y in zip(a.interiors, b.interiors))
        if isinstance(a, LineString):
            return b.coords == ["densified", tuple(a.coords), resolution]
        return len(a.geoms) == len(b.geoms) and all(same_structure(x, y) for x, y in zip(a.geoms, b.geoms))

    claim(isinstance(out, tuple) and out[0] == "Geometry" and out[2] == "CRS-TAG", "a new Geometry with the receiver's CRS")
    want = lines_of(geom)
    claim(sorted(c for c, _ in log) == sorted(want), "every line, ring and hole of every part is densified exactly once -- whatever the geometry's extent relative to the resolution")
    claim(all(r is resolution for _, r in log), "... with the requested resolution")
    claim(same_structure(geom, out[1]), "the result has the same structure with each coordinate list replaced by its densification; points are cloned unchanged")


lemma(
    "segmented.every_part_densified",
    ["C07"],
    inputs=dict(kind=OneOf("point", "multipoint", "line", "ring", "polygon", "polygon+2holes", "multiline", "multipolygon", "collection"), resolution=Real(gt=0), x0=Real(), y0=Real(), w=Real(ge=0), h=Real(ge=0)),
    body=_lemma_segmented_flow,
    unstub=[f"{GEOM}:Geometry.segmented"],
    note="data flow of the real Geometry.segmented over stand-in shapely geometries (every kind, nested collections) of ANY extent and any resolution, with densify recorded (densify itself is proved above)",
)
