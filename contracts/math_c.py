"""
Contracts for odc/geo/math.py -- numeric helpers.   Properties: C20 (primary), C08, C14, C16, C10.

All floats are reals here (assumption A1); +-inf and nan are separate concrete input cases.
"""
from pyvc.api import *  # noqa: F401,F403

MATH = "odc.geo.math"
INF = float("inf")
NAN = float("nan")

# ---- spec helpers -------------------------------------------------------------------------------


def dist_to_int(x):
    """distance from x to the nearest integer"""
    f = floor(x)
    return Min(x - f, f + 1 - x)


def nearest_is(x, k):
    """k is an integer nearest to x"""
    return And(Abs(k - x) == dist_to_int(x))


def finite_or(x, symbolic_fn, otherwise):
    return symbolic_fn(x) if _finite(x) else otherwise


def _finite(x):
    if isinstance(x, float):
        import math

        return math.isfinite(x)
    return True


def AFFINE(**kw):
    return Build("affine:Affine", Real(), Real(), Real(), Real(), Real(), Real())


def coeffs(A):
    return A.a, A.b, A.c, A.d, A.e, A.f


# ---- maybe_zero ----------------------------------------------------------------------------------

contract(
    f"{MATH}:maybe_zero",
    ["C20", "C16"],
    inputs=dict(x=Real(), tol=Real(ge=0)),
    ensures=[("zero-iff-within-tol", lambda x, tol, result: Ite(Abs(x) < tol, result == 0, result == x))],
    returns=lambda x, tol: Real(),
)

# ---- split_float ---------------------------------------------------------------------------------

contract(
    f"{MATH}:split_float",
    ["C20", "C16"],
    inputs=dict(x=OneOf(Real(), INF, -INF, NAN)),
    ensures=[
        ("sum", lambda x, result: (result[0] + result[1] == x) if _finite(x) else (result[0] is x and result[1] == 0)),
        ("whole-is-integer", lambda x, result: is_int_valued(result[0]) if _finite(x) else True),
        ("fraction-in-[-1/2,1/2]", lambda x, result: And(result[1] >= -0.5, result[1] <= 0.5)),
        ("ties keep the sign of x (strongest postcondition): +1/2 only for x > 0, -1/2 only for x < 0", lambda x, result: And(Implies(result[1] == 0.5, x > 0), Implies(result[1] == -0.5, x < 0)) if _finite(x) else True),
    ],
    returns=lambda x: Tup(Real(), Real()) if _finite(x) else Value((x, 0)),
)

# ---- is_almost_int / maybe_int ------------------------------------------------------------------

contract(
    f"{MATH}:is_almost_int",
    ["C20", "C16", "C10"],
    inputs=dict(x=OneOf(Real(), INF, -INF, NAN), tol=Real(ge=0)),
    ensures=[("iff-distance-to-nearest-integer-below-tol", lambda x, tol, result: Iff(result, dist_to_int(x) < tol) if _finite(x) else (result is False))],
    returns=lambda x, tol: SymBoolShape() if _finite(x) else Value(False),
)


def _maybe_int_returns(x, tol):
    if not _finite(x):
        return Value(x)
    if bool(dist_to_int(x) < tol):
        return Int()
    return Value(x)


contract(
    f"{MATH}:maybe_int",
    ["C20", "C08", "C16", "C10"],
    inputs=dict(x=OneOf(Real(), INF, -INF, NAN), tol=Real(ge=0)),
    ensures=[
        (
            "int-iff-almost-int (agrees with is_almost_int)",
            lambda x, tol, result: ((dist_to_int(x) < tol) if is_int_obj(result) else Not(dist_to_int(x) < tol)) if _finite(x) else (result is x),
        ),
        ("int-result-is-the-nearest-integer", lambda x, tol, result: (Abs(result - x) == dist_to_int(x)) if is_int_obj(result) else True),
        ("otherwise-unchanged (same object)", lambda x, tol, result: True if is_int_obj(result) else result is x),
    ],
    returns=_maybe_int_returns,
)

# ---- snap_scale -------------------------------------------------------------------------------------


def _snap_scale_exact(s, tol, result):
    """exact characterisation (docstring): integer if within tol, else 1/<int> if 1/s within tol"""
    big = Abs(s) >= 1 - tol
    tiny = Abs(s) < tol
    return Ite(
        big,
        Ite(dist_to_int(s) < tol, And(is_int_valued(result), Abs(result - s) == dist_to_int(s)), result == s),
        Ite(
            tiny,
            result == s,
            Ite(dist_to_int(div(1, s)) < tol, And(result != 0, is_int_valued(div(1, result)), Abs(div(1, result) - div(1, s)) == dist_to_int(div(1, s))), result == s),
        ),
    )


def _inv_int(name):
    n = Int().make(name + ".n")
    assume(n != 0)
    return div(1, n)


def _snap_scale_returns(s, tol):
    """result built structurally (an int, 1/<int>, or s itself), so callers' VCs stay simple"""
    if bool(Abs(s) >= 1 - tol):
        return Int() if bool(dist_to_int(s) < tol) else Value(s)
    if bool(Abs(s) < tol):
        return Value(s)
    if bool(dist_to_int(div(1, s)) < tol):
        return Custom(_inv_int, "1/<int>")
    return Value(s)


contract(
    f"{MATH}:snap_scale",
    ["C20", "C10"],
    inputs=dict(s=Real(), tol=Real(gt=0, le=0.25)),
    ensures=[
        (
            "changes the value only within tolerance (of s, or of 1/s for fractions)",
            lambda s, tol, result: Or(result == s, Abs(result - s) < tol, And(s != 0, result != 0, Abs(div(1, result) - div(1, s)) < tol)),
        ),
        ("exact", _snap_scale_exact),
        ("unchanged means same object", lambda s, tol, result: Implies(And(Not(is_int_obj(result)), result == s, Abs(s) >= 1 - tol), result is s) if not symbolic() else True),
    ],
    returns=_snap_scale_returns,
    note="tol <= 1/4 (default 1e-6): for larger tolerances 'nearest integer' stops being meaningful",
)


def _lemma_snap_scale_idempotent(s, tol):
    m = repo(MATH)
    r1 = m.snap_scale(s, tol)
    r2 = m.snap_scale(r1, tol)
    claim(r2 == r1, "snap_scale(snap_scale(s)) == snap_scale(s)")


lemma("math.snap_scale_idempotent", ["C20"], inputs=dict(s=Real(), tol=Real(gt=0, le=0.25)), body=_lemma_snap_scale_idempotent, note="over the exact contract of snap_scale")

# ---- align_* ---------------------------------------------------------------------------------------

contract(
    f"{MATH}:align_down",
    ["C20", "C17"],
    inputs=dict(x=Int(), align=Int(ge=1)),
    ensures=[
        ("multiple", lambda x, align, result: result % align == 0),
        ("below", lambda x, align, result: result <= x),
        ("nearest", lambda x, align, result: x - result < align),
    ],
    returns=lambda x, align: Int(),
)

contract(
    f"{MATH}:align_up",
    ["C20", "C17", "C05"],
    inputs=dict(x=Int(), align=Int(ge=1)),
    ensures=[
        ("multiple", lambda x, align, result: result % align == 0),
        ("above", lambda x, align, result: result >= x),
        ("nearest", lambda x, align, result: result - x < align),
    ],
    returns=lambda x, align: Int(),
)


def is_pow2(y):
    return exists(0, None, lambda n: y == pow2(n))


contract(
    f"{MATH}:align_up_pow2",
    ["C20"],
    inputs=dict(x=Int()),
    ensures=[
        ("power-of-two", lambda x, result: is_pow2(result)),
        ("at-least-x", lambda x, result: result >= x),
        ("smallest", lambda x, result: Or(result == 1, result < 2 * x)),
    ],
    returns=lambda x: Int(ge=1),
    note="through the log2 axiom (2**(n-1) < x <= 2**n for n = ceil(log2 x)); the float log2 itself is covered by the bounded check B-pow2",
)

contract(
    f"{MATH}:align_down_pow2",
    ["C20", "C05"],
    inputs=dict(x=Int(ge=1)),
    ensures=[
        ("power-of-two", lambda x, result: is_pow2(result)),
        ("at-most-x", lambda x, result: result <= x),
        ("largest", lambda x, result: x < 2 * result),
    ],
    returns=lambda x: Int(ge=1),
)

contract(
    f"{MATH}:clamp",
    ["C20", "C12"],
    inputs=[dict(x=Real(), lo=Real(), up=Real()), dict(x=Int(), lo=Int(), up=Int())],
    requires=[lambda lo, up: lo <= up],
    ensures=[("clamped", lambda x, lo, up, result: And(result == Max(lo, Min(x, up)), lo <= result, result <= up))],
    returns=lambda x: Int() if is_int_obj(x) else Real(),
)

# ---- grid snapping -------------------------------------------------------------------------------------
#
# The three functions are stated in *pixel units*: x0 = q0*|res|, x1 = q1*|res| with q0 <= q1 any
# reals and res any non-zero real (this ranges over all x0 <= x1), and the returned origin is read as
# tx/|res|.  That keeps every verification condition in linear mixed integer/real arithmetic.

TOL = Real(ge=0, le=0.25)


def _edge_post_px(q0, q1, tol, lo, nx):
    """in pixels: the span [lo, lo + nx) against the interval [q0, q1]"""
    hi = lo + nx
    return And(
        nx >= 1,
        # covers the interval except at most tol of a pixel per side
        lo <= q0 + tol,
        hi >= q1 - tol,
        # minimal: less than one pixel (plus tol) larger than necessary on either side
        lo > q0 - 1,
        hi <= q1 + 1 + tol,
        Implies(nx > 1, hi < q1 + 1),
    )


contract(
    f"{MATH}:_snap_edge_pos",
    ["C20", "C08"],
    inputs=dict(q0=Real(), q1=Real(), res=Real(gt=0), tol=TOL, x0=Derived(lambda q0, res: q0 * res), x1=Derived(lambda q1, res: q1 * res)),
    requires=[lambda q0, q1: q1 >= q0],
    ensures=[
        ("pixel count is an int", lambda result: is_int_obj(result[1])),
        ("covers up to tol / minimal", lambda q0, q1, res, tol, result: _edge_post_px(q0, q1, tol, div(result[0], res), result[1])),
        ("aligned: origin is a whole number of pixels from 0", lambda res, result: is_int_valued(div(result[0], res))),
    ],
    returns=lambda res: Tup(Scaled(res), Int()),
    ghost_args={},
)


def _snap_edge_lo(res, tx, nx):
    """low end of the span in pixels (pixel i spans tx + i*res .. tx + (i+1)*res)"""
    if bool(res > 0):
        return div(tx, res)
    return div(tx, -res) - nx


contract(
    f"{MATH}:_snap_edge",
    ["C20", "C08"],
    inputs=[
        dict(q0=Real(), q1=Real(), res=Real(gt=0), tol=TOL, x0=Derived(lambda q0, res: q0 * res), x1=Derived(lambda q1, res: q1 * res)),
        dict(q0=Real(), q1=Real(), res=Real(lt=0), tol=TOL, x0=Derived(lambda q0, res: q0 * -res), x1=Derived(lambda q1, res: q1 * -res)),
    ],
    requires=[lambda q0, q1: q1 >= q0],
    ensures=[
        ("pixel count is an int", lambda result: is_int_obj(result[1])),
        ("covers up to tol / minimal, for either sign of res", lambda q0, q1, res, tol, result: _edge_post_px(q0, q1, tol, _snap_edge_lo(res, result[0], result[1]), result[1])),
        ("aligned", lambda res, result: is_int_valued(div(result[0], res))),
    ],
    returns=lambda res: Tup(Scaled(res), Int()),
    ghost_args={f"{MATH}:_snap_edge_pos": lambda q0, q1: dict(q0=q0, q1=q1)},
)


def _snap_grid_post(q0, q1, res, off_pix, tol, result):
    tx, nx = result
    lo = _snap_edge_lo(res, tx, nx)
    if off_pix is None:
        # floating: the origin is not moved at all; the span grows away from it
        if bool(res > 0):
            return And(lo == q0, _edge_post_px(q0, q1, tol, lo, nx))
        # mirrored: pixel 0 ends exactly at x1
        return And(lo + nx == q1, _edge_post_px(-q1, -q0, tol, -(lo + nx), nx))
    return And(
        _edge_post_px(q0, q1, tol, lo, nx),
        # pixel edges are offset from 0 by exactly off_pix of a pixel
        is_int_valued(lo - off_pix),
    )


contract(
    f"{MATH}:snap_grid",
    ["C20", "C08"],
    inputs=[
        dict(q0=Real(), q1=Real(), res=Real(gt=0), off_pix=OneOf(None, Real(ge=0, lt=1), 0, 0.5), tol=TOL, x0=Derived(lambda q0, res: q0 * res), x1=Derived(lambda q1, res: q1 * res)),
        dict(q0=Real(), q1=Real(), res=Real(lt=0), off_pix=OneOf(None, Real(ge=0, lt=1), 0, 0.5), tol=TOL, x0=Derived(lambda q0, res: q0 * -res), x1=Derived(lambda q1, res: q1 * -res)),
    ],
    requires=[lambda q0, q1: q1 >= q0],
    ensures=[
        ("pixel count is an int", lambda result: is_int_obj(result[1])),
        ("covers up to tol / aligned to the requested pixel fraction / minimal", _snap_grid_post),
    ],
    returns=lambda res: Tup(Scaled(res), Int()),
    ghost_args={f"{MATH}:_snap_edge": lambda q0, q1, off_pix: dict(q0=q0 - off_pix, q1=q1 - off_pix)},
)

# ---- is_affine_st / snap_affine / split_translation / resolution_from_affine ----------------------

contract(
    f"{MATH}:is_affine_st",
    ["C20", "C02", "C16"],
    inputs=dict(A=AFFINE(), tol=Real(ge=0)),
    ensures=[("iff-no-rotation-or-shear-beyond-tol", lambda A, tol, result: Iff(result, And(Abs(A.b) < tol, Abs(A.d) < tol)))],
    returns=lambda A: SymBoolShape(),
)


def _snap_affine_post(A, ttol, stol, tol, result):
    a, b, c, d, e, f = coeffs(A)
    if result is A:
        return Or(Abs(b) > tol, Abs(d) > tol)
    ra, rb, rc, rd, re, rf = coeffs(result)
    return And(
        Abs(b) <= tol,
        Abs(d) <= tol,
        rb == 0,
        rd == 0,
        _snap_scale_exact(a, stol, ra),
        _snap_scale_exact(e, stol, re),
        Ite(dist_to_int(c) < ttol, And(is_int_valued(rc), Abs(rc - c) == dist_to_int(c)), rc == c),
        Ite(dist_to_int(f) < ttol, And(is_int_valued(rf), Abs(rf - f) == dist_to_int(f)), rf == f),
    )


contract(
    f"{MATH}:snap_affine",
    ["C20", "C10", "C03"],
    inputs=dict(A=AFFINE(), ttol=Real(ge=0, le=0.25), stol=Real(gt=0, le=0.25), tol=Real(ge=0)),
    ensures=[
        ("rotated input is returned untouched (same object); otherwise each part snapped within its tolerance", _snap_affine_post),
        (
            "components change only within tolerance",
            lambda A, ttol, stol, tol, result: True
            if result is A
            else And(Abs(result.c - A.c) <= ttol, Abs(result.f - A.f) <= ttol, Abs(result.b - A.b) <= tol, Abs(result.d - A.d) <= tol),
        ),
    ],
    returns=lambda A, ttol, stol, tol: Value(A) if bool(Or(Abs(A.b) > tol, Abs(A.d) > tol)) else Custom(lambda name: _snapped_affine(A, ttol, stol), "Affine of snapped parts"),
)


def _snapped_affine(A, ttol, stol):
    """result of the snap_affine stub, built from the (stubbed) component functions so that it is
    structurally an int / 1/<int> / unchanged value per component"""
    m = repo(MATH)
    aff = repo("affine").Affine
    return aff(m.snap_scale(A.a, stol), 0, m.maybe_int(A.c, ttol), 0, m.snap_scale(A.e, stol), m.maybe_int(A.f, ttol))



def _lemma_maybe_int_idempotent(x, tol):
    m = repo(MATH)
    r1 = m.maybe_int(x, tol)
    r2 = m.maybe_int(r1, tol)
    claim(r2 == r1, "maybe_int(maybe_int(x)) == maybe_int(x)")


lemma(
    "math.maybe_int_idempotent",
    ["C20"],
    inputs=dict(x=Real(), tol=Real(gt=0, le=0.25)),
    body=_lemma_maybe_int_idempotent,
    note="snap_affine acts component-wise through snap_scale (scales) and maybe_int (translations), proved by its own postcondition; "
    "its idempotency is the conjunction of this lemma and math.snap_scale_idempotent.  The composed lemma "
    "snap_affine(snap_affine(A)) == snap_affine(A) itself is NOT claimed: one path needs |1/s| > 1 + tol from |s| < 1 - tol "
    "through two stub layers and both solvers return unknown on it.",
)

XY_REAL = Build("odc.geo.types:XY", Real(), Real())

contract(
    f"{MATH}:split_translation",
    ["C20", "C16"],
    inputs=dict(t=XY_REAL),
    ensures=[
        (
            "whole + sub-pixel == t, sub-pixel in [-1/2, 1/2], whole integral",
            lambda t, result: And(
                result[0].x + result[1].x == t.x,
                result[0].y + result[1].y == t.y,
                is_int_valued(result[0].x),
                is_int_valued(result[0].y),
                result[1].x >= -0.5,
                result[1].x <= 0.5,
                result[1].y >= -0.5,
                result[1].y <= 0.5,
            ),
        ),
        (
            "ties keep the sign of the input (strongest postcondition)",
            lambda t, result: And(Implies(result[1].x == 0.5, t.x > 0), Implies(result[1].x == -0.5, t.x < 0), Implies(result[1].y == 0.5, t.y > 0), Implies(result[1].y == -0.5, t.y < 0)),
        ),
    ],
    returns=lambda t: Tup(XY_REAL, XY_REAL),
)

# ---- Bin1D -----------------------------------------------------------------------------------------------

BIN = Obj(f"{MATH}:Bin1D", sz=Real(gt=0), origin=Real(), direction=OneOf(1, -1))

contract(
    f"{MATH}:Bin1D.__init__",
    ["C20", "C14"],
    inputs=dict(self=Obj(f"{MATH}:Bin1D"), sz=Real(), origin=Real(), direction=OneOf(1, -1)),
    requires=[lambda sz: sz > 0],
    ensures=[("fields", lambda self, sz, origin, direction, result: And(self.sz == sz, self.origin == origin, self.direction == direction))],
    inline=True,
)

contract(
    f"{MATH}:Bin1D.__getitem__",
    ["C20", "C14"],
    inputs=dict(self=BIN, idx=Int()),
    ensures=[
        ("interval of bin idx", lambda self, idx, result: And(result[0] == self.origin + idx * self.direction * self.sz, result[1] == result[0] + self.sz)),
    ],
    returns=lambda self: Tup(Real(), Real()),
)

contract(
    f"{MATH}:Bin1D.bin",
    ["C20", "C14"],
    inputs=dict(self=BIN, x=Real()),
    ensures=[
        ("int", lambda result: is_int_obj(result)),
        (
            "x lies in the half-open interval of the returned bin",
            lambda self, x, result: And(
                self.origin + result * self.direction * self.sz <= x,
                x < self.origin + result * self.direction * self.sz + self.sz,
            ),
        ),
    ],
    returns=lambda self: Int(),
)


def _lemma_bin_neighbours(b, i):
    lo, hi = b[i]
    lo2, hi2 = b[i + b.direction]
    claim(hi == lo2, "bin i and its neighbour in index direction share their edge")
    claim(hi - lo == b.sz, "bin width is sz")


lemma("math.bin1d_neighbours", ["C20", "C14"], inputs=dict(b=BIN, i=Int()), body=_lemma_bin_neighbours)


def _lemma_bin_unique(b, x, j):
    i = b.bin(x)
    lo, hi = b[j]
    claim(Iff(And(lo <= x, x < hi), j == i), "x in bin j  <=>  j == bin(x)  (distinct bins are disjoint, lookup inverts)")


lemma("math.bin1d_lookup_inverse", ["C20", "C14"], inputs=dict(b=BIN, x=Real(), j=Int()), body=_lemma_bin_unique)

contract(
    f"{MATH}:Bin1D.from_sample_bin",
    ["C20", "C14"],
    inputs=dict(idx=Int(), bin=Tup(Real(), Real()), direction=OneOf(1, -1)),
    requires=[lambda bin: bin[0] < bin[1]],
    ensures=[
        ("reconstructed grid has the sample as bin idx", lambda idx, bin, direction, result: And(result.sz == bin[1] - bin[0], result.direction == direction, result.origin + idx * direction * result.sz == bin[0])),
    ],
    returns=lambda direction: Obj(f"{MATH}:Bin1D", sz=Real(gt=0), origin=Real(), direction=direction),
)


def _lemma_bin_roundtrip(b, i):
    m = repo(MATH)
    b2 = m.Bin1D.from_sample_bin(i, b[i], b.direction)
    claim(And(b2.sz == b.sz, b2.origin == b.origin, b2.direction == b.direction), "from_sample_bin(i, b[i], dir) reconstructs b")


lemma("math.bin1d_from_sample_roundtrip", ["C20", "C14"], inputs=dict(b=BIN, i=Int()), body=_lemma_bin_roundtrip)

contract(
    f"{MATH}:Bin1D.__eq__",
    ["C19", "C14"],
    inputs=[dict(self=BIN, other=BIN), dict(self=BIN, other=OneOf(None, 3))],
    ensures=[
        (
            "field-wise equality",
            lambda self, other, result: Iff(result, And(self.sz == other.sz, self.origin == other.origin, self.direction == other.direction)) if hasattr(other, "sz") else result is False,
        )
    ],
    returns=lambda self: SymBoolShape(),
)

# ---- axis labels -> affine ---------------------------------------------------------------------------------


class AxisLabels:
    """Ghost stand-in for a 1-d coordinate array holding the regularly spaced labels
    x[k] = first + k*step, k in [0, size): exposes exactly what the code uses (.size, [i], and
    elements that support .item())."""

    def __init__(self, size, first, step):
        self.size, self.first, self.step = size, first, step

    def __getitem__(self, i):
        return self.first + i * self.step

    def __vc_src__(self, model, c):
        from pyvc.engine import to_src

        return f"np.asarray([{to_src(self.first, model, c)} + k * {to_src(self.step, model, c)} for k in range({to_src(self.size, model, c)})], dtype='float64')"


def _axis(name, min_size=0):
    return Custom(lambda nm: AxisLabels(Int(ge=min_size).make(nm + ".size"), Real().make(nm + ".first"), Real().make(nm + ".step")), "regularly spaced labels first + k*step, k < size")


def _label(data, k):
    """label k of either the ghost stand-in or (in replay) a numpy array"""
    return data[k]


contract(
    f"{MATH}:data_resolution_and_offset",
    ["C20"],
    inputs=dict(data=_axis("data"), fallback_resolution=OneOf(None, Real()), k=Int(ge=0)),
    requires=[lambda data, k: Or(k < data.size, data.size == 0)],
    raises=[(ValueError, lambda data, fallback_resolution: Or(data.size < 1, And(data.size < 2, fallback_resolution is None)))],
    ensures=[
        (
            "pixel k+1/2 maps to label k, for every k (the recovered resolution/offset reproduce the labels)",
            lambda data, k, result: approx_eq(result[1] + (k + 0.5) * result[0], _label(data, k)),
        ),
        ("single label: the fallback resolution is used", lambda data, fallback_resolution, result: Implies(data.size == 1, result[0] == fallback_resolution) if fallback_resolution is not None else True),
    ],
    returns=lambda data: Tup(Real(), Real()),
    note="k is a ghost index, universally quantified",
)

contract(
    f"{MATH}:affine_from_axis",
    ["C20"],
    inputs=[
        dict(xx=_axis("xx", 2), yy=_axis("yy", 2), fallback_resolution=None, i=Int(ge=0), j=Int(ge=0)),
        dict(xx=_axis("xx", 1), yy=_axis("yy", 1), fallback_resolution=OneOf(Real(), Build("odc.geo.types:Resolution", Real(), Real())), i=Int(ge=0), j=Int(ge=0)),
    ],
    requires=[lambda xx, yy, i, j: And(i < xx.size, j < yy.size)],
    ensures=[
        (
            "the affine maps pixel centre (i+1/2, j+1/2) to the labels (xx[i], yy[j])",
            lambda xx, yy, i, j, result: And(
                approx_eq(result.a * (i + 0.5) + result.b * (j + 0.5) + result.c, _label(xx, i)),
                approx_eq(result.d * (i + 0.5) + result.e * (j + 0.5) + result.f, _label(yy, j)),
            ),
        ),
        ("axis aligned", lambda result: And(result.b == 0, result.d == 0)),
    ],
    ghost_args={f"{MATH}:data_resolution_and_offset": lambda call_index, i, j: dict(k=i if call_index == 0 else j)},
    returns=lambda xx: AFFINE(),
)
