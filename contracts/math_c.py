"""
Contracts for odc/geo/math.py -- numeric helpers.   Properties: C20 (primary), C08, C14, C16, C10.

All floats are reals here (assumption A1); +-inf and nan are separate concrete input cases.
"""
from pyvc.api import *  # noqa: F401,F403

MATH = "odc.geo.math"
INF = float("inf")
NAN = float("nan")

# ---- spec helpers -------------------------------------------------------------------------------


def dist_to_int(x):
    """distance from x to the nearest integer"""
    f = floor(x)
    return Min(x - f, f + 1 - x)


def nearest_is(x, k):
    """k is an integer nearest to x"""
    return And(Abs(k - x) == dist_to_int(x))


def finite_or(x, symbolic_fn, otherwise):
    return symbolic_fn(x) if _finite(x) else otherwise


def _finite(x):
    if isinstance(x, float):
        import math

        return math.isfinite(x)
    return True


def AFFINE(**kw):
    return Build("affine:Affine", Real(), Real(), Real(), Real(), Real(), Real())


def coeffs(A):
    return A.a, A.b, A.c, A.d, A.e, A.f


# ---- maybe_zero ----------------------------------------------------------------------------------

contract(
    f"{MATH}:maybe_zero",
    ["C20", "C16"],
    inputs=dict(x=Real(), tol=Real(ge=0)),
    ensures=[("zero-iff-within-tol", lambda x, tol, result: Ite(Abs(x) < tol, result == 0, result == x))],
    returns=lambda x, tol: Real(),
)

# ---- split_float ---------------------------------------------------------------------------------

contract(
    f"{MATH}:split_float",
    ["C20", "C16"],
    inputs=dict(x=OneOf(Real(), INF, -INF, NAN)),
    ensures=[
        ("sum", lambda x, result: (result[0] + result[1] == x) if _finite(x) else (result[0] is x and result[1] == 0)),
        ("whole-is-integer", lambda x, result: is_int_valued(result[0]) if _finite(x) else True),
        ("fraction-in-[-1/2,1/2]", lambda x, result: And(result[1] >= -0.5, result[1] <= 0.5)),
        ("ties keep the sign of x (strongest postcondition): +1/2 only for x > 0, -1/2 only for x < 0", lambda x, result: And(Implies(result[1] == 0.5, x > 0), Implies(result[1] == -0.5, x < 0)) if _finite(x) else True),
    ],
    returns=lambda x: Tup(Real(), Real()) if _finite(x) else Value((x, 0)),
)

# ---- is_almost_int / maybe_int ------------------------------------------------------------------

contract(
    f"{MATH}:is_almost_int",
    ["C20", "C16", "C10"],
    inputs=dict(x=OneOf(Real(), INF, -INF, NAN), tol=Real(ge=0)),
    ensures=[("iff-distance-to-nearest-integer-below-tol", lambda x, tol, result: Iff(result, dist_to_int(x) < tol) if _finite(x) else (result is False))],
    returns=lambda x, tol: SymBoolShape() if _finite(x) else Value(False),
)


def _maybe_int_returns(x, tol):
    if not _finite(x):
        return Value(x)
    if bool(dist_to_int(x) < tol):
        return Int()
    return Value(x)


contract(
    f"{MATH}:maybe_int",
    ["C20", "C08", "C16", "C10"],
    inputs=dict(x=OneOf(Real(), INF, -INF, NAN), tol=Real(ge=0)),
    ensures=[
        (
            "int-iff-almost-int (agrees with is_almost_int)",
            lambda x, tol, result: ((dist_to_int(x) < tol) if is_int_obj(result) else Not(dist_to_int(x) < tol)) if _finite(x) else (result is x),
        ),
        ("int-result-is-the-nearest-integer", lambda x, tol, result: (Abs(result - x) == dist_to_int(x)) if is_int_obj(result) else True),
        ("otherwise-unchanged (same object)", lambda x, tol, result: True if is_int_obj(result) else result is x),
    ],
    returns=_maybe_int_returns,
)

# ---- snap_scale -------------------------------------------------------------------------------------


def _snap_scale_exact(s, tol, result):
    """exact characterisation (docstring): integer if within tol, else 1/<int> if 1/s within tol"""
    big = Abs(s) >= 1 - tol
    tiny = Abs(s) < tol
    return Ite(
        big,
        Ite(dist_to_int(s) < tol, And(is_int_valued(result), Abs(result - s) == dist_to_int(s)), result == s),
        Ite(
            tiny,
            result == s,
            Ite(dist_to_int(div(1, s)) < tol, And(result != 0, is_int_valued(div(1, result)), Abs(div(1, result) - div(1, s)) == dist_to_int(div(1, s))), result == s),
        ),
    )


def _inv_int(name):
    n = Int().make(name + ".n")
    assume(n != 0)
    u = div(1, n)
    # consequences of u*n == 1 for a non-zero INTEGER n, handed to the solver as hints (they are
    # proved from the definition by lemma math.inv_int_facts below, so nothing is assumed)
    assume(_inv_int_facts(u, n))
    return u


def _inv_int_facts(u, n):
    return And(Abs(u) <= 1, Implies(Abs(u) > 0.5, And(Abs(n) == 1, u == n)))


def _lemma_inv_int_facts(n, u):
    claim(_inv_int_facts(u, n), "|1/n| <= 1, and |1/n| > 1/2 only for n = +-1 (where 1/n == n)")


lemma("math.inv_int_facts", ["C20", "C10", "C03"], inputs=dict(n=Int(), u=Real()), requires=[lambda n, u: And(n != 0, u * n == 1)], body=_lemma_inv_int_facts, note="justifies the hints attached to the structured 1/<int> result of snap_scale")


def _snap_scale_returns(s, tol):
    """result built structurally (an int, 1/<int>, or s itself), so callers' VCs stay simple"""
    if bool(Abs(s) >= 1 - tol):
        return Int() if bool(dist_to_int(s) < tol) else Value(s)
    if bool(Abs(s) < tol):
        return Value(s)
    if bool(dist_to_int(div(1, s)) < tol):
        return Custom(_inv_int, "1/<int>")
    return Value(s)


contract(
    f"{MATH}:snap_scale",
    ["C20", "C10"],
    inputs=dict(s=Real(), tol=Real(gt=0, le=0.25)),
    ensures=[
        (
            "changes the value only within tolerance (of s, or of 1/s for fractions)",
            lambda s, tol, result: Or(result == s, Abs(result - s) < tol, And(s != 0, result != 0, Abs(div(1, result) - div(1, s)) < tol)),
        ),
        ("exact", _snap_scale_exact),
        ("unchanged means same object", lambda s, tol, result: Implies(And(Not(is_int_obj(result)), result == s, Abs(s) >= 1 - tol), result is s) if not symbolic() else True),
    ],
    returns=_snap_scale_returns,
    note="tol <= 1/4 (default 1e-6): for larger tolerances 'nearest integer' stops being meaningful",
)


def _lemma_snap_scale_idempotent(s, tol):
    m = repo(MATH)
    r1 = m.snap_scale(s, tol)
    r2 = m.snap_scale(r1, tol)
    claim(r2 == r1, "snap_scale(snap_scale(s)) == snap_scale(s)")


lemma("math.snap_scale_idempotent", ["C20"], inputs=dict(s=Real(), tol=Real(gt=0, le=0.25)), body=_lemma_snap_scale_idempotent, note="over the exact contract of snap_scale")

# ---- align_* ---------------------------------------------------------------------------------------

contract(
    f"{MATH}:align_down",
    ["C20", "C17"],
    inputs=dict(x=Int(), align=Int(ge=1)),
    ensures=[
        ("multiple", lambda x, align, result: result % align == 0),
        ("below", lambda x, align, result: result <= x),
        ("nearest", lambda x, align, result: x - result < align),
    ],
    returns=lambda x, align: Int(),
)

contract(
    f"{MATH}:align_up",
    ["C20", "C17", "C05"],
    inputs=dict(x=Int(), align=Int(ge=1)),
    ensures=[
        ("multiple", lambda x, align, result: result % align == 0),
        ("above", lambda x, align, result: result >= x),
        ("nearest", lambda x, align, result: result - x < align),
    ],
    returns=lambda x, align: Int(),
)


def is_pow2(y):
    return exists(0, None, lambda n: y == pow2(n))


contract(
    f"{MATH}:align_up_pow2",
    ["C20"],
    inputs=dict(x=Int()),
    ensures=[
        ("power-of-two", lambda x, result: is_pow2(result)),
        ("at-least-x", lambda x, result: result >= x),
        ("smallest", lambda x, result: Or(result == 1, result < 2 * x)),
    ],
    returns=lambda x: Int(ge=1),
    note="through the log2 axiom (2**(n-1) < x <= 2**n for n = ceil(log2 x)); the float log2 itself is covered by the bounded check B-pow2",
)

contract(
    f"{MATH}:align_down_pow2",
    ["C20", "C05"],
    inputs=dict(x=Int(ge=1)),
    ensures=[
        ("power-of-two", lambda x, result: is_pow2(result)),
        ("at-most-x", lambda x, result: result <= x),
        ("largest", lambda x, result: x < 2 * result),
    ],
    returns=lambda x: Int(ge=1),
)

contract(
    f"{MATH}:clamp",
    ["C20", "C12"],
    inputs=[dict(x=Real(), lo=Real(), up=Real()), dict(x=Int(), lo=Int(), up=Int())],
    requires=[lambda lo, up: lo <= up],
    ensures=[("clamped", lambda x, lo, up, result: And(result == Max(lo, Min(x, up)), lo <= result, result <= up))],
    returns=lambda x: Int() if is_int_obj(x) else Real(),
)

# ---- grid snapping -------------------------------------------------------------------------------------
#
# The three functions are stated in *pixel units*: x0 = q0*|res|, x1 = q1*|res| with q0 <= q1 any
# reals and res any non-zero real (this ranges over all x0 <= x1), and the returned origin is read as
# tx/|res|.  That keeps every verification condition in linear mixed integer/real arithmetic.

TOL = Real(ge=0, le=0.25)


def _edge_post_px(q0, q1, tol, lo, nx):
    """in pixels: the span [lo, lo + nx) against the interval [q0, q1]"""
    hi = lo + nx
    return And(
        nx >= 1,
        # covers the interval except at most tol of a pixel per side
        lo <= q0 + tol,
        hi >= q1 - tol,
        # minimal: less than one pixel (plus tol) larger than necessary on either side
        lo > q0 - 1,
        hi <= q1 + 1 + tol,
        Implies(nx > 1, hi < q1 + 1),
    )


contract(
    f"{MATH}:_snap_edge_pos",
    ["C20", "C08"],
    inputs=dict(q0=Real(), q1=Real(), res=Real(gt=0), tol=TOL, x0=Derived(lambda q0, res: q0 * res), x1=Derived(lambda q1, res: q1 * res)),
    requires=[lambda q0, q1: q1 >= q0],
    ensures=[
        ("pixel count is an int", lambda result: is_int_obj(result[1])),
        ("covers up to tol / minimal", lambda q0, q1, res, tol, result: _edge_post_px(q0, q1, tol, div(result[0], res), result[1])),
        ("aligned: origin is a whole number of pixels from 0", lambda res, result: is_int_valued(div(result[0], res))),
    ],
    returns=lambda res: Tup(Scaled(res), Int()),
    ghost_args={},
)


def _snap_edge_lo(res, tx, nx):
    """low end of the span in pixels (pixel i spans tx + i*res .. tx + (i+1)*res)"""
    if bool(res > 0):
        return div(tx, res)
    return div(tx, -res) - nx


contract(
    f"{MATH}:_snap_edge",
    ["C20", "C08"],
    inputs=[
        dict(q0=Real(), q1=Real(), res=Real(gt=0), tol=TOL, x0=Derived(lambda q0, res: q0 * res), x1=Derived(lambda q1, res: q1 * res)),
        dict(q0=Real(), q1=Real(), res=Real(lt=0), tol=TOL, x0=Derived(lambda q0, res: q0 * -res), x1=Derived(lambda q1, res: q1 * -res)),
    ],
    requires=[lambda q0, q1: q1 >= q0],
    ensures=[
        ("pixel count is an int", lambda result: is_int_obj(result[1])),
        ("covers up to tol / minimal, for either sign of res", lambda q0, q1, res, tol, result: _edge_post_px(q0, q1, tol, _snap_edge_lo(res, result[0], result[1]), result[1])),
        ("aligned", lambda res, result: is_int_valued(div(result[0], res))),
    ],
    returns=lambda res: Tup(Scaled(res), Int()),
    ghost_args={f"{MATH}:_snap_edge_pos": lambda q0, q1: dict(q0=q0, q1=q1)},
)


def _snap_grid_post(q0, q1, res, off_pix, tol, result):
    tx, nx = result
    lo = _snap_edge_lo(res, tx, nx)
    if off_pix is None:
        # floating: the origin is not moved at all; the span grows away from it
        if bool(res > 0):
            return And(lo == q0, _edge_post_px(q0, q1, tol, lo, nx))
        # mirrored: pixel 0 ends exactly at x1
        return And(lo + nx == q1, _edge_post_px(-q1, -q0, tol, -(lo + nx), nx))
    return And(
        _edge_post_px(q0, q1, tol, lo, nx),
        # pixel edges are offset from 0 by exactly off_pix of a pixel
        is_int_valued(lo - off_pix),
    )


contract(
    f"{MATH}:snap_grid",
    ["C20", "C08"],
    inputs=[
        dict(q0=Real(), q1=Real(), res=Real(gt=0), off_pix=OneOf(None, Real(ge=0, lt=1), 0, 0.5), tol=TOL, x0=Derived(lambda q0, res: q0 * res), x1=Derived(lambda q1, res: q1 * res)),
        dict(q0=Real(), q1=Real(), res=Real(lt=0), off_pix=OneOf(None, Real(ge=0, lt=1), 0, 0.5), tol=TOL, x0=Derived(lambda q0, res: q0 * -res), x1=Derived(lambda q1, res: q1 * -res)),
    ],
    requires=[lambda q0, q1: q1 >= q0],
    ensures=[
        ("pixel count is an int", lambda result: is_int_obj(result[1])),
        ("covers up to tol / aligned to the requested pixel fraction / minimal", _snap_grid_post),
    ],
    returns=lambda res: Tup(Scaled(res), Int()),
    ghost_args={f"{MATH}:_snap_edge": lambda q0, q1, off_pix: dict(q0=q0 - off_pix, q1=q1 - off_pix)},
)

# ---- is_affine_st / snap_affine / split_translation / resolution_from_affine ----------------------

contract(
    f"{MATH}:is_affine_st",
    ["C20", "C02", "C16"],
    inputs=dict(A=AFFINE(), tol=Real(ge=0)),
    ensures=[("iff-no-rotation-or-shear-beyond-tol", lambda A, tol, result: Iff(result, And(Abs(A.b) < tol, Abs(A.d) < tol)))],
    returns=lambda A: SymBoolShape(),
)


def _snap_affine_post(A, ttol, stol, tol, result):
    a, b, c, d, e, f = coeffs(A)
    if result is A:
        return Or(Abs(b) > tol, Abs(d) > tol)
    ra, rb, rc, rd, re, rf = coeffs(result)
    return And(
        Abs(b) <= tol,
        Abs(d) <= tol,
        rb == 0,
        rd == 0,
        _snap_scale_exact(a, stol, ra),
        _snap_scale_exact(e, stol, re),
        Ite(dist_to_int(c) < ttol, And(is_int_valued(rc), Abs(rc - c) == dist_to_int(c)), rc == c),
        Ite(dist_to_int(f) < ttol, And(is_int_valued(rf), Abs(rf - f) == dist_to_int(f)), rf == f),
    )


contract(
    f"{MATH}:snap_affine",
    ["C20", "C10", "C03"],
    inputs=dict(A=AFFINE(), ttol=Real(ge=0, le=0.25), stol=Real(gt=0, le=0.25), tol=Real(ge=0)),
    ensures=[
        ("rotated input is returned untouched (same object); otherwise each part snapped within its tolerance", _snap_affine_post),
        (
            "components change only within tolerance",
            lambda A, ttol, stol, tol, result: True
            if result is A
            else And(Abs(result.c - A.c) <= ttol, Abs(result.f - A.f) <= ttol, Abs(result.b - A.b) <= tol, Abs(result.d - A.d) <= tol),
        ),
    ],
    returns=lambda A, ttol, stol, tol: Value(A) if bool(Or(Abs(A.b) > tol, Abs(A.d) > tol)) else Custom(lambda name: _snapped_affine(A, ttol, stol), "Affine of snapped parts"),
)


def _snapped_affine(A, ttol, stol):
    """result of the snap_affine stub, built from the (stubbed) component functions so that it is
    structurally an int / 1/<int> / unchanged value per component"""
    m = repo(MATH)
    aff = repo("affine").Affine
    return aff(m.snap_scale(A.a, stol), 0, m.maybe_int(A.c, ttol), 0, m.snap_scale(A.e, stol), m.maybe_int(A.f, ttol))



def _lemma_maybe_int_idempotent(x, tol):
    m = repo(MATH)
    r1 = m.maybe_int(x, tol)
    r2 = m.maybe_int(r1, tol)
    claim(r2 == r1, "maybe_int(maybe_int(x)) == maybe_int(x)")


lemma(
    "math.maybe_int_idempotent",
    ["C20"],
    inputs=dict(x=Real(), tol=Real(gt=0, le=0.25)),
    body=_lemma_maybe_int_idempotent,
    note="snap_affine acts component-wise through snap_scale (scales) and maybe_int (translations), proved by its own postcondition; "
    "its idempotency is the conjunction of this lemma and math.snap_scale_idempotent.  The composed lemma "
    "snap_affine(snap_affine(A)) == snap_affine(A) itself is NOT claimed: one path needs |1/s| > 1 + tol from |s| < 1 - tol "
    "through two stub layers and both solvers return unknown on it.",
)

XY_REAL = Build("odc.geo.types:XY", Real(), Real())

contract(
    f"{MATH}:split_translation",
    ["C20", "C16"],
    inputs=dict(t=XY_REAL),
    ensures=[
        (
            "whole + sub-pixel == t, sub-pixel in [-1/2, 1/2], whole integral",
            lambda t, result: And(
                result[0].x + result[1].x == t.x,
                result[0].y + result[1].y == t.y,
                is_int_valued(result[0].x),
                is_int_valued(result[0].y),
                result[1].x >= -0.5,
                result[1].x <= 0.5,
                result[1].y >= -0.5,
                result[1].y <= 0.5,
            ),
        ),
        (
            "ties keep the sign of the input (strongest postcondition)",
            lambda t, result: And(Implies(result[1].x == 0.5, t.x > 0), Implies(result[1].x == -0.5, t.x < 0), Implies(result[1].y == 0.5, t.y > 0), Implies(result[1].y == -0.5, t.y < 0)),
        ),
    ],
    returns=lambda t: Tup(XY_REAL, XY_REAL),
)

# ---- Bin1D -----------------------------------------------------------------------------------------------

BIN = Obj(f"{MATH}:Bin1D", sz=Real(gt=0), origin=Real(), direction=OneOf(1, -1))

contract(
    f"{MATH}:Bin1D.__init__",
    ["C20", "C14"],
    inputs=dict(self=Obj(f"{MATH}:Bin1D"), sz=Real(), origin=Real(), direction=OneOf(1, -1)),
    requires=[lambda sz: sz > 0],
    ensures=[("fields", lambda self, sz, origin, direction, result: And(self.sz == sz, self.origin == origin, self.direction == direction))],
    inline=True,
)

contract(
    f"{MATH}:Bin1D.__getitem__",
    ["C20", "C14"],
    inputs=dict(self=BIN, idx=Int()),
    ensures=[
        ("interval of bin idx", lambda self, idx, result: And(result[0] == self.origin + idx * self.direction * self.sz, result[1] == result[0] + self.sz)),
    ],
    returns=lambda self: Tup(Real(), Real()),
)

contract(
    f"{MATH}:Bin1D.bin",
    ["C20", "C14"],
    inputs=dict(self=BIN, x=Real()),
    ensures=[
        ("int", lambda result: is_int_obj(result)),
        (
            "x lies in the half-open interval of the returned bin",
            lambda self, x, result: And(
                self.origin + result * self.direction * self.sz <= x,
                x < self.origin + result * self.direction * self.sz + self.sz,
            ),
        ),
    ],
    returns=lambda self: Int(),
)


def _lemma_bin_neighbours(b, i):
    lo, hi = b[i]
    lo2, hi2 = b[i + b.direction]
    claim(hi == lo2, "bin i and its neighbour in index direction share their edge")
    claim(hi - lo == b.sz, "bin width is sz")


lemma("math.bin1d_neighbours", ["C20", "C14"], inputs=dict(b=BIN, i=Int()), body=_lemma_bin_neighbours)


def _lemma_bin_unique(b, x, j):
    i = b.bin(x)
    lo, hi = b[j]
    claim(Iff(And(lo <= x, x < hi), j == i), "x in bin j  <=>  j == bin(x)  (distinct bins are disjoint, lookup inverts)")


lemma("math.bin1d_lookup_inverse", ["C20", "C14"], inputs=dict(b=BIN, x=Real(), j=Int()), body=_lemma_bin_unique)

contract(
    f"{MATH}:Bin1D.from_sample_bin",
    ["C20", "C14"],
    inputs=dict(idx=Int(), bin=Tup(Real(), Real()), direction=OneOf(1, -1)),
    requires=[lambda bin: bin[0] < bin[1]],
    ensures=[
        ("reconstructed grid has the sample as bin idx", lambda idx, bin, direction, result: And(result.sz == bin[1] - bin[0], result.direction == direction, result.origin + idx * direction * result.sz == bin[0])),
    ],
    returns=lambda direction: Obj(f"{MATH}:Bin1D", sz=Real(gt=0), origin=Real(), direction=direction),
)


def _lemma_bin_roundtrip(b, i):
    m = repo(MATH)
    b2 = m.Bin1D.from_sample_bin(i, b[i], b.direction)
    claim(And(b2.sz == b.sz, b2.origin == b.origin, b2.direction == b.direction), "from_sample_bin(i, b[i], dir) reconstructs b")


lemma("math.bin1d_from_sample_roundtrip", ["C20", "C14"], inputs=dict(b=BIN, i=Int()), body=_lemma_bin_roundtrip)

contract(
    f"{MATH}:Bin1D.__eq__",
    ["C19", "C14"],
    inputs=[dict(self=BIN, other=BIN), dict(self=BIN, other=OneOf(None, 3))],
    ensures=[
        (
            "field-wise equality",
            lambda self, other, result: Iff(result, And(self.sz == other.sz, self.origin == other.origin, self.direction == other.direction)) if hasattr(other, "sz") else result is False,
        )
    ],
    returns=lambda self: SymBoolShape(),
)

# ---- axis labels -> affine ---------------------------------------------------------------------------------


class AxisLabels:
    """Ghost stand-in for a 1-d coordinate array holding the regularly spaced labels
    x[k] = first + k*step, k in [0, size): exposes exactly what the code uses (.size, [i], and
    elements that support .item())."""

    def __init__(self, size, first, step):
        self.size, self.first, self.step = size, first, step

    def __getitem__(self, i):
        return self.first + i * self.step

    def __vc_src__(self, model, c):
        from pyvc.engine import to_src

        return f"np.asarray([{to_src(self.first, model, c)} + k * {to_src(self.step, model, c)} for k in range({to_src(self.size, model, c)})], dtype='float64')"


def _axis(name, min_size=0):
    return Custom(lambda nm: AxisLabels(Int(ge=min_size).make(nm + ".size"), Real().make(nm + ".first"), Real().make(nm + ".step")), "regularly spaced labels first + k*step, k < size")


def _label(data, k):
    """label k of either the ghost stand-in or (in replay) a numpy array"""
    return data[k]


contract(
    f"{MATH}:data_resolution_and_offset",
    ["C20", "C09"],
    inputs=dict(data=_axis("data"), fallback_resolution=OneOf(None, Real()), k=Int(ge=0)),
    requires=[lambda data, k: Or(k < data.size, data.size == 0)],
    raises=[(ValueError, lambda data, fallback_resolution: Or(data.size < 1, And(data.size < 2, fallback_resolution is None)))],
    ensures=[
        (
            "pixel k+1/2 maps to label k, for every k (the recovered resolution/offset reproduce the labels)",
            lambda data, k, result: approx_eq(result[1] + (k + 0.5) * result[0], _label(data, k)),
        ),
        ("single label: the fallback resolution is used", lambda data, fallback_resolution, result: Implies(data.size == 1, result[0] == fallback_resolution) if fallback_resolution is not None else True),
    ],
    returns=lambda data: Tup(Real(), Real()),
    note="k is a ghost index, universally quantified",
)

contract(
    f"{MATH}:affine_from_axis",
    ["C20"],
    inputs=[
        dict(xx=_axis("xx", 2), yy=_axis("yy", 2), fallback_resolution=None, i=Int(ge=0), j=Int(ge=0)),
        dict(xx=_axis("xx", 1), yy=_axis("yy", 1), fallback_resolution=OneOf(Real(), Build("odc.geo.types:Resolution", Real(), Real())), i=Int(ge=0), j=Int(ge=0)),
    ],
    requires=[lambda xx, yy, i, j: And(i < xx.size, j < yy.size)],
    ensures=[
        (
            "the affine maps pixel centre (i+1/2, j+1/2) to the labels (xx[i], yy[j])",
            lambda xx, yy, i, j, result: And(
                approx_eq(result.a * (i + 0.5) + result.b * (j + 0.5) + result.c, _label(xx, i)),
                approx_eq(result.d * (i + 0.5) + result.e * (j + 0.5) + result.f, _label(yy, j)),
            ),
        ),
        ("axis aligned", lambda result: And(result.b == 0, result.d == 0)),
    ],
    ghost_args={f"{MATH}:data_resolution_and_offset": lambda call_index, i, j: dict(k=i if call_index == 0 else j)},
    returns=lambda xx: AFFINE(),
)


# ---- Poly2d: input normalisation and chaining (proved); fits (dispatch proved, numerics bounded) ------------------------------------


class _GhostCC:
    """stand-in coefficient array: only its .shape is inspected by the code under proof"""

    def __init__(self, shape):
        self.shape = shape


def _norm_spec(A, x, y):
    """what Poly2d applies on input: the affine A, with rotation/shear terms below 1e-6 dropped"""
    fast = And(Abs(A.b) < 1e-6, Abs(A.d) < 1e-6)
    return fast, (A.a * x + A.c, A.e * y + A.f), (A.a * x + A.b * y + A.c, A.d * x + A.e * y + A.f)


def _lemma_poly_norm(A, B, x, y):
    m = repo(MATH)
    cc = _GhostCC((2, 2, 2))
    p = m.Poly2d(cc, A)
    nx, ny = p._norm(x, y)
    fast, (fx, fy), (gx, gy) = _norm_spec(A, x, y)
    claim(Ite(fast, And(nx == fx, ny == fy), And(nx == gx, ny == gy)), "the input normalisation applies the affine it was built with: x with the x scale/offset, y with the y scale/offset (cross terms under 1e-6 dropped)")
    claim(Iff(fast, p._safe_to_grid is True) if symbolic() else True, "grid evaluation allowed exactly for axis-aligned normalisation")
    q = p.with_input_transform(B)
    claim(q._cc is cc, "chaining an input transform keeps the coefficients")
    qx, qy = q._norm(x, y)
    AB = A * B
    fast2, (fx2, fy2), (gx2, gy2) = _norm_spec(AB, x, y)
    claim(Ite(fast2, And(qx == fx2, qy == fy2), And(qx == gx2, qy == gy2)), "with_input_transform(B): the chained polynomial normalises with A*B, i.e. evaluates the original at B(x, y)")


lemma(
    "math.poly2d_input_transform",
    ["C20"],
    inputs=dict(A=AFFINE(), B=AFFINE(), x=Real(), y=Real()),
    body=_lemma_poly_norm,
    note="polynomial identities over the affine coefficients; numpy.polyval through its documented Horner form (model)",
)


def _lemma_poly_fit_dispatch(N):
    m = repo(MATH)
    P = m.Poly2d

    class Arr:
        def __init__(self, tag):
            self.tag, self.shape = tag, (N, 2)

    aa, bb = Arr("aa"), Arr("bb")
    calls = []
    saved = (m.norm_xy, P.__dict__["_fit9"], P.__dict__["_fit4"], P.__dict__["_fit3"])
    try:
        m.norm_xy = lambda pts, out=None: (("normed", pts.tag), ("A", pts.tag))
        for name in ("_fit9", "_fit4", "_fit3"):
            setattr(P, name, staticmethod((lambda nm: lambda a, Ain, b, Ab: calls.append((nm, a, Ain, b, Ab)) or ("poly", nm))(name)))
        try:
            out = ("return", P.fit(aa, bb))
        except ValueError as e:
            out = ("raise", e)
    finally:
        m.norm_xy = saved[0]
        P._fit9, P._fit4, P._fit3 = saved[1:]
    if bool(N < 3):
        claim(out[0] == "raise" and not calls, "fewer than 3 points: ValueError")
        return
    want = "_fit9" if bool(N >= 9) else "_fit4" if bool(N >= 4) else "_fit3"
    claim(len(calls) == 1 and calls[0][0] == want, "9 and more points: biquadratic; 4..8: bilinear; 3: affine -- the richest model the points determine")
    claim(calls[0][1:] == (("normed", "aa"), ("A", "aa"), ("normed", "bb"), ("A", "bb")) and out == ("return", ("poly", want)), "both point sets are normalised, each with its own transform")


lemma("math.poly2d_fit_dispatch", ["C20"], inputs=dict(N=Int(ge=0)), body=_lemma_poly_fit_dispatch, unstub=[f"{MATH}:Poly2d.fit"], note="which model is fitted for which number of points (symbolic N)")


# ---- decompose_rws: ASSUMED in its documented form (numpy.linalg is outside reach); validated by the bounded check below ----------


def _fresh_rws(name, A):
    """the documented shape of the result:  R = [c -s; s c] (carrying the translation),  W = [1 w; 0 1],  S = diag(sx, sy)"""
    Af = repo("affine").Affine
    c, s_, w, sx, sy = (Real().make(f"{name}.{k}") for k in ("cos", "sin", "w", "sx", "sy"))
    return (Af(c, -s_, A.c, s_, c, A.f), Af(1, w, 0, 0, 1, 0), Af(sx, 0, 0, 0, sy, 0))


contract(
    f"{MATH}:decompose_rws",
    ["C20", "C02"],
    inputs=dict(A=AFFINE()),
    requires=[lambda A: A.a * A.e - A.b * A.d != 0],
    ensures=[
        ("R is a proper rotation", lambda result: result[0].a * result[0].a + result[0].d * result[0].d == 1),
        ("S is diagonal with a positive X scale (the sign of the determinant goes to the Y scale)", lambda result: result[2].a > 0),
        (
            "R W S multiplies back to the linear part of the input",
            lambda A, result: (lambda c, s_, w, sx, sy: And(A.a == c * sx, A.d == s_ * sx, A.b == (c * w - s_) * sy, A.e == (s_ * w + c) * sy))(result[0].a, result[0].d, result[1].b, result[2].a, result[2].e),
        ),
    ],
    returns=lambda A: Custom(lambda name: _fresh_rws(name, A), "(R, W, S) in the documented form"),
    verify=False,
    trusted_reason="numpy.linalg.cholesky / inv / det: ASSUMED to deliver the documented decomposition; the BOUNDED native check of Poly2d.fit's contract validates exactly these clauses on sampled affines",
)

# ---- BOUNDED: the numerical linear algebra (numpy lstsq / cholesky): decompose_rws, affine_from_pts, Poly2d fits ----------------


def _linalg_samples():
    import math
    import random

    from affine import Affine

    rnd = random.Random(int(__import__("os").environ.get("PYVC_SEED", "0")))
    thorough = __import__("os").environ.get("PYVC_TIER", "quick") == "thorough"

    def gen():
        affs = []
        for ang in (0, 17, 45, 90, 133, 180, -60, 270):
            for sx, sy in ((1, 1), (2, -3), (-10, 0.5), (1e-3, -1e-3), (250, -250)):
                for w in (0, 0.3, -1.5):
                    affs.append(Affine.translation(rnd.uniform(-1e3, 1e3), rnd.uniform(-1e3, 1e3)) * Affine.rotation(ang) * Affine(1, w, 0, 0, 1, 0) * Affine.scale(sx, sy))
        for A in affs if thorough else affs[::3]:
            yield dict(kind="decompose", A=A)
        # exactly representable mappings: dyadic coefficients, small integer points
        for n in (3, 4, 5, 8, 9, 10, 16, 25):
            for model in ("affine", "bilinear", "biquadratic"):
                if (model == "bilinear" and n < 4) or (model == "biquadratic" and n < 9):
                    continue
                for rep in range(3 if thorough else 1):
                    side = max(3, math.ceil(math.sqrt(n)))
                    grid = [(float(i), float(j)) for i in range(side) for j in range(side)]
                    # points in general position: a lattice block plus an off-lattice jitter that stays dyadic
                    pts = [(x * 4 + (k % 3) * 0.25, y * 8 - (k % 2) * 0.5) for k, (x, y) in enumerate(grid[:n])]
                    cf = [rnd.randint(-8, 8) / 4 for _ in range(18)]
                    yield dict(kind="fit", n=n, model=model, pts=pts, coef=cf, rep=rep)
        # regular lattices (they contain their own centroid when the side is odd)
        for side, model in ((3, "affine"), (3, "bilinear"), (3, "biquadratic"), (5, "biquadratic"), (2, "bilinear")):
            pts = [(float(i) * 15.0, float(j) * 10.0) for j in range(side) for i in range(side)]
            yield dict(kind="fit", n=len(pts), model=model, pts=pts, coef=[rnd.randint(-8, 8) / 4 for _ in range(18)], rep=0)
        for A in affs[:: (2 if thorough else 7)]:
            pts = [(0.0, 0.0), (3.0, 1.0), (1.0, 5.0), (6.0, 4.0), (7.0, 9.0), (2.0, 8.0), (9.0, 2.0), (4.0, 4.5), (8.5, 6.0)]  # no three on a line
            yield dict(kind="affine_from_pts", A=A, pts=pts[: rnd.choice([3, 4, 9])])

    return "decompose_rws on 40 (120 thorough) affines (8 angles x 5 scale pairs incl. negative/unequal/tiny x 3 shears); Poly2d.fit of exactly representable affine / bilinear / biquadratic maps from 3,4,5,8,9,10,16,25 points incl. chaining an unequal-scale and a rotated input transform and grid evaluation; affine_from_pts from 3/4/9 points", gen()


def _apply_model(model, cf, x, y):
    a = cf
    if model == "affine":
        return (a[0] + a[1] * x + a[2] * y, a[3] + a[4] * x + a[5] * y)
    if model == "bilinear":
        return (a[0] + a[1] * x + a[2] * y + a[3] * x * y / 8, a[4] + a[5] * x + a[6] * y + a[7] * x * y / 8)
    return (
        a[0] + a[1] * x + a[2] * y + a[3] * x * y / 8 + a[4] * x * x / 16 + a[5] * y * y / 16 + a[6] * x * x * y / 64 + a[7] * x * y * y / 64 + a[8] * x * x * y * y / 512,
        a[9] + a[10] * x + a[11] * y + a[12] * x * y / 8 + a[13] * x * x / 16 + a[14] * y * y / 16 + a[15] * x * x * y / 64 + a[16] * x * y * y / 64 + a[17] * x * x * y * y / 512,
    )


def _linalg_oracle(args, run=None):
    import numpy as np
    from affine import Affine

    from odc.geo import math as M
    from odc.geo.types import xy_

    kind = args["kind"]
    fails = []
    if kind == "decompose":
        A = args["A"]
        R, W, S = M.decompose_rws(A)
        lin = lambda X: np.asarray([[X.a, X.b], [X.d, X.e]])
        r, w, s = lin(R), lin(W), lin(S)
        scale = max(1e-300, np.abs(lin(A)).max())
        if not np.allclose(r @ w @ s, lin(A), atol=1e-9 * scale, rtol=1e-9):
            fails.append("post:R W S multiplies back to the input (linear part)")
        if not (np.allclose(r.T @ r, np.eye(2), atol=1e-9) and abs(np.linalg.det(r) - 1) < 1e-9):
            fails.append("post:R is a proper rotation")
        if not (abs(w[0, 0] - 1) < 1e-9 and abs(w[1, 1] - 1) < 1e-9 and abs(w[1, 0]) < 1e-9):
            fails.append("post:W is a unit-diagonal shear")
        if not (abs(s[0, 1]) < 1e-12 * scale and abs(s[1, 0]) < 1e-12 * scale):
            fails.append("post:S is diagonal")
        if not (R.c == A.c and R.f == A.f):
            fails.append("post:translation carried by R")
        if not (S.a > 0 and (S.e > 0) == (np.linalg.det(lin(A)) > 0)):
            fails.append("post:the X scale is positive, the Y scale carries the sign of the determinant")
        # resolution_from_affine reads the pixel size off S (proved against the assumed decomposition): same on the real numbers
        res = M.resolution_from_affine(A)
        if not M.is_affine_st(A) and not (np.isclose(res.x, S.a, rtol=1e-12, atol=0) and np.isclose(res.y, S.e, rtol=1e-12, atol=0)):
            fails.append("post:resolution of a rotated / sheared transform is the diagonal of its scale factor")
        if not (np.isclose(res.x * res.x, A.a * A.a + A.d * A.d, rtol=1e-9) and np.isclose(res.x * res.y, A.a * A.e - A.b * A.d, rtol=1e-9)) and not M.is_affine_st(A):
            fails.append("post:resolution: rx^2 == a^2 + d^2 and rx*ry == det")
        return fails
    if kind == "affine_from_pts":
        A, pts = args["A"], args["pts"]
        X = [xy_(p) for p in pts]
        Y = [xy_(A * p) for p in pts]
        B = M.affine_from_pts(X, Y)
        scale = max(abs(v) for v in tuple(A)[:6])
        if not np.allclose(tuple(B)[:6], tuple(A)[:6], atol=1e-7 * scale, rtol=1e-7):
            fails.append(f"post:affine fit reproduces the mapping ({tuple(B)[:6]} vs {tuple(A)[:6]})")
        return fails
    # polynomial fits
    n, model, pts, cf = args["n"], args["model"], args["pts"], args["coef"]
    aa = np.asarray(pts, dtype="float64")
    bb = np.asarray([_apply_model(model, cf, x, y) for x, y in pts], dtype="float64")
    p = M.Poly2d.fit(aa.copy(), bb.copy())
    scale = max(1.0, np.abs(bb).max())
    got = p(aa)
    if not np.allclose(got, bb, atol=1e-6 * scale, rtol=1e-7):
        fails.append(f"post:the fit reproduces an exactly representable {model} mapping at the {n} given points (max err {np.abs(got - bb).max():.3g})")
    # held-out points (the model is determined by the points, so it must hold everywhere nearby)
    ho = np.asarray([(1.5, 2.25), (5.0, 3.0), (0.125, 7.5)])
    want = np.asarray([_apply_model(model, cf, x, y) for x, y in ho])
    if not np.allclose(p(ho), want, atol=1e-5 * max(scale, np.abs(want).max()), rtol=1e-6):
        fails.append(f"post:the fitted {model} polynomial agrees with the mapping away from the fit points")
    # chaining an input transform: q(x) == p(B x) -- unequal axis scales, then rotated
    for B in (Affine(2.0, 0, 3.0, 0, -0.5, 1.0), Affine.rotation(30) * Affine.scale(1.5, 0.75)):
        q = p.with_input_transform(B)
        xs = np.asarray([(0.0, 0.0), (1.0, 2.0), (-3.0, 0.5)])
        bx = np.asarray([B * tuple(v) for v in xs])
        if not np.allclose(q(xs), p(bx), atol=1e-7 * scale, rtol=1e-9):
            fails.append("post:with_input_transform composes correctly (q(x) == p(B x))")
    # grid evaluation agrees with point evaluation
    gx, gy = np.asarray([0.0, 1.0, 2.5]), np.asarray([-1.0, 4.0])
    G = p.grid2d(gx, gy)
    P_ = np.asarray([[p(np.asarray([[x, y]]))[0] for y in gy] for x in gx])  # (nx, ny, 2)
    Gx = np.moveaxis(np.asarray(G), 0, -1) if np.asarray(G).shape[0] == 2 else np.asarray(G)
    if Gx.shape == P_.shape and not np.allclose(Gx, P_, atol=1e-7 * scale, rtol=1e-9):
        fails.append("post:grid2d agrees with point-wise evaluation")
    return fails


contract(
    f"{MATH}:Poly2d.fit",
    ["C20"],
    ensures=[("rotation-shear-scale decomposition multiplies back; affine and polynomial fits reproduce exactly representable mappings and compose with an input transform", lambda result: True)],
    verify=False,
    trusted_reason="numpy.linalg (cholesky, inv, lstsq) and numpy.polynomial: BOUNDED native check of decompose_rws, affine_from_pts, Poly2d.fit/__call__/grid2d/with_input_transform",
    native_samples=_linalg_samples,
    native_oracle=_linalg_oracle,
)
