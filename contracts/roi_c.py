"""
Contracts for odc/geo/roi.py -- ROI (slice) helpers.   Properties: C17 (primary), C04, C03.

Oracle: `py_slice_bounds(start, stop, n)` is CPython's slice-index adjustment for step 1
(validated exhaustively against `slice.indices` at the start of every run).  "X[s] selects the
index set I(s, n) = [lo, hi)" for an array of length n.
"""
from pyvc.api import *  # noqa: F401,F403

ROI = "odc.geo.roi"

# ---- spec helpers -------------------------------------------------------------------------------


def bounds(s, n):
    """Index set [lo, hi) (hi >= lo) that X[s] selects on a length-n axis; s is an int or a slice."""
    if is_int_obj(s):
        i = idx_norm(s, n)
        return i, i + 1
    lo, hi = py_slice_bounds(s.start, s.stop, n)
    return lo, Max(hi, lo)


def same_set(a, b):
    (l1, h1), (l2, h2) = a, b
    return Or(And(h1 <= l1, h2 <= l2), And(l1 == l2, h1 == h2))


def inter(a, b):
    (l1, h1), (l2, h2) = a, b
    lo = Max(l1, l2)
    return lo, Max(Min(h1, h2), lo)


def compose(outer, inner, n):
    """Index set, in X coordinates, of X[outer][inner]."""
    lo_o, hi_o = bounds(outer, n)
    lo_i, hi_i = bounds(inner, hi_o - lo_o)
    return lo_o + lo_i, lo_o + hi_i


def _as_tuple(roi):
    return roi if isinstance(roi, tuple) else (roi,)


def is_norm(s):
    """slice with concrete int start/stop."""
    return isinstance(s, slice) and s.start is not None and s.stop is not None


def valid_index(s, n):
    """int index inside [-n, n) -- numpy raises IndexError outside, so it is a precondition."""
    if is_int_obj(s):
        return And(s >= -n, s < n)
    return True


def opt_ge0(x):
    return True if x is None else x >= 0


def norm_bound(x, default, n):
    """what normalisation makes of one slice bound: fill in the default, count negative values from
    the right and clamp them at 0 (as numpy does); values beyond n are kept as they are"""
    if x is None:
        return default
    return Ite(x >= 0, x, Max(0, n + x))


def opt_within(x, n):
    """x is None or -n <= x <= n (so CPython's clamping does not kick in)."""
    return True if x is None else And(x >= -n, x <= n)


def some_slice(nonneg=False):
    i = Int(ge=0) if nonneg else Int()
    return OneOf(Int(ge=0) if nonneg else Int(), Slice(Opt(i), Opt(i), None))


def nd_cases(names, nonneg=False, extra=None, lens=(1, 2, 3)):
    """Input cases for the N-d tuple wrappers: every element kind on 1 axis, the three main kinds
    on 2 axes, plain slices on 3 axes (the wrappers apply one per-axis function elementwise)."""
    i = Int(ge=0) if nonneg else Int()
    full = Slice(i, i, None)
    small = OneOf(i, full, Slice(None, i, None))
    out = []
    for k in lens:
        elem = some_slice(nonneg) if k == 1 else (small if k == 2 else full)
        d = {nm: Tup(*[elem] * k) for nm in names}
        for nm, mk in (extra or {}).items():
            d[nm] = mk(k)
        out.append(d)
    return out


def norm_slice_shape(ge=0):
    return Slice(Int(ge=ge), Int(ge=ge), None)


def tuples_of(elem, lens=(1, 2, 3)):
    return OneOf(*[Tup(*([elem] * k)) for k in lens])


# ---- _fill_if_none ------------------------------------------------------------------------------

contract(
    f"{ROI}:_fill_if_none",
    ["C17"],
    inputs=dict(x=Opt(Int()), val_if_none=Int()),
    ensures=[("is-x-or-default", lambda x, val_if_none, result: (result is val_if_none) if x is None else (result is x))],
    inline=True,
    note="3-token helper; callers execute its body (inline), it is also verified on its own",
)

# ---- _norm_slice --------------------------------------------------------------------------------

contract(
    f"{ROI}:_norm_slice",
    ["C17", "C04"],
    inputs=dict(s=some_slice(), n=Int(ge=0)),
    ensures=[
        ("concrete-bounds", lambda s, n, result: And(is_norm(result), is_int_obj(result.start), is_int_obj(result.stop))),
        ("same-elements (for every slice, and every int index that numpy accepts)", lambda s, n, result: Implies(valid_index(s, n), same_set(bounds(result, n), bounds(s, n)))),
        ("int index i becomes [i', i'+1) with i' counted from the left", lambda s, n, result: And(result.start == idx_norm(s, n), result.stop == result.start + 1, Implies(valid_index(s, n), And(result.start >= 0, result.stop <= n))) if is_int_obj(s) else True),
        (
            "in-range-slices-exact",
            lambda s, n, result: Implies(
                And(opt_within(s.start, n), opt_within(s.stop, n)),
                And(result.start == bounds(slice(s.start, None), n)[0], result.stop == py_slice_bounds(None, s.stop, n)[1], result.start >= 0, result.stop >= 0, result.start <= n, result.stop <= n),
            )
            if not is_int_obj(s)
            else True,
        ),
        ("step-kept", lambda s, n, result: True if is_int_obj(s) else result.step is s.step),
        ("exact bounds (strongest postcondition, for callers)", lambda s, n, result: True if is_int_obj(s) else And(result.start == norm_bound(s.start, 0, n), result.stop == norm_bound(s.stop, n, n))),
    ],
    returns=lambda s, n: Slice(Int(), Int(), None if is_int_obj(s) else s.step),
)

# ---- _norm_slice_or_error ----------------------------------------------------------------------


def _nse_bad(s):
    if is_int_obj(s):
        return s < 0
    if s.stop is None:
        return True
    return Or(s.stop < 0, False if s.start is None else s.start < 0)


contract(
    f"{ROI}:_norm_slice_or_error",
    ["C17", "C04"],
    inputs=dict(s=some_slice()),
    raises=[(ValueError, lambda s: _nse_bad(s))],
    ensures=[
        ("start", lambda s, result: result.start == (s if is_int_obj(s) else (0 if s.start is None else s.start))),
        ("stop", lambda s, result: result.stop == (s + 1 if is_int_obj(s) else s.stop)),
        ("nonneg", lambda s, result: And(result.start >= 0, result.stop >= 0)),
        ("step-kept", lambda s, result: result.step is (None if is_int_obj(s) else s.step)),
    ],
    returns=lambda s: Slice(Int(), Int(), None if is_int_obj(s) else s.step),
)

# ---- slice_intersect3 --------------------------------------------------------------------------


def _si3_post(a, b, result, n):
    a_, b_, ab_ = result
    A, B = bounds(a, n), bounds(b, n)
    common = inter(A, B)
    return And(
        same_set(compose(a, a_, n), common),
        same_set(compose(b, b_, n), common),
        same_set(bounds(ab_, n), common),
    )


contract(
    f"{ROI}:slice_intersect3",
    ["C17", "C04"],
    # n is a ghost input: the length of an arbitrary array X the slices are applied to
    inputs=dict(a=some_slice(), b=some_slice(), n=Int(ge=0)),
    requires=[lambda a, b, n: And(valid_index(a, n), valid_index(b, n))],
    raises=[(ValueError, lambda a, b: Or(_nse_bad(a), _nse_bad(b)))],
    ensures=[
        ("three-way-agreement: X[a][a'] == X[b][b'] == X[ab'] == common index set, on every array", _si3_post),
        (
            "rank-for-rank (same first element, same count) when the slices meet inside the array",
            lambda a, b, result, n: Implies(
                inter(bounds(a, n), bounds(b, n))[1] > inter(bounds(a, n), bounds(b, n))[0],
                And(
                    compose(a, result[0], n)[0] == compose(b, result[1], n)[0],
                    compose(a, result[0], n)[0] == bounds(result[2], n)[0],
                ),
            ),
        ),
        ("results-are-normalised-slices", lambda result: And(is_norm(result[0]), is_norm(result[1]), is_norm(result[2]), result[2].start >= 0, result[2].stop >= 0)),
    ],
    returns=lambda a, b: Tup(Slice(Int(), Int(), None), Slice(Int(), Int(), None), Slice(Int(), Int(), None)),
    note="a and b must hold on EVERY array: the ghost length n is universally quantified, so numpy's clamping of stop > n is covered",
)

# the stub of slice_intersect3 is used by roi_intersect3; its postcondition speaks about a ghost n,
# which a caller does not have: callers get the n-free consequences below (proved as a lemma from
# the body, see `slice_intersect3 exact form`)

contract(
    f"{ROI}:roi_intersect3",
    ["C17", "C04"],
    inputs=nd_cases(["a", "b"], nonneg=True, extra=dict(n=lambda k: Tup(*[Int(ge=0)] * k))),
    requires=[lambda a, b: And(*[Not(_nse_bad(x)) for x in list(a) + list(b)]), lambda a, b, n: And(*[And(valid_index(x, m), valid_index(y, m)) for x, y, m in zip(a, b, n)])],
    ensures=[
        ("arity", lambda a, result: len(result) == 3 and all(len(r) == len(a) for r in result)),
        ("per-axis three-way agreement", lambda a, b, n, result: And(*[_si3_post(a[i], b[i], (result[0][i], result[1][i], result[2][i]), n[i]) for i in range(len(a))])),
    ],
    ghost_args={f"{ROI}:slice_intersect3": lambda call_index, n: dict(n=n[call_index])},
    note="N-d wrapper: checked for 1, 2 and 3 axes (the body is one generator expression applying slice_intersect3 per axis); "
    "the ghost array length of axis i is passed to the i-th call of slice_intersect3",
)

# ---- roi_normalise -----------------------------------------------------------------------------

contract(
    f"{ROI}:roi_normalise",
    ["C17", "C04"],
    inputs=[dict(roi=some_slice(), shape=OneOf(Int(ge=0), Tup(Int(ge=0))))]
    + nd_cases(["roi"], extra=dict(shape=lambda k: Tup(*[Int(ge=0)] * k))),
    ensures=[
        (
            "same-elements-per-axis (every slice; every int index numpy accepts)",
            lambda roi, shape, result: And(*[And(is_norm(r), Implies(valid_index(s, n), same_set(bounds(r, n), bounds(s, n)))) for r, s, n in zip(_as_tuple(result), _as_tuple(roi), _as_tuple(shape))]),
        ),
        (
            "int index i becomes [i', i'+1)",
            lambda roi, shape, result: And(*[And(r.start == idx_norm(s, n), r.stop == r.start + 1) for r, s, n in zip(_as_tuple(result), _as_tuple(roi), _as_tuple(shape)) if is_int_obj(s)]),
        ),
        (
            "exact bounds per axis (strongest postcondition, for callers)",
            lambda roi, shape, result: And(*[And(r.start == norm_bound(s.start, 0, n), r.stop == norm_bound(s.stop, n, n)) for r, s, n in zip(_as_tuple(result), _as_tuple(roi), _as_tuple(shape)) if not is_int_obj(s)]),
        ),
        ("arity", lambda roi, result: len(result) == len(roi) if isinstance(roi, tuple) else isinstance(result, slice)),
        (
            "in-range-exact",
            lambda roi, shape, result: And(
                *[
                    Implies(
                        valid_index(s, n) if is_int_obj(s) else And(opt_within(s.start, n), opt_within(s.stop, n)),
                        And(r.start == bounds(s if is_int_obj(s) else slice(s.start, None), n)[0], r.stop == (bounds(s, n)[0] + 1 if is_int_obj(s) else py_slice_bounds(None, s.stop, n)[1])),
                    )
                    for r, s, n in (zip(result, roi, shape) if isinstance(roi, tuple) else [(result, roi, shape[0] if isinstance(shape, tuple) else shape)])
                ]
            ),
        ),
    ],
    returns=lambda roi, shape: Tup(*[Slice(Int(), Int(), None if is_int_obj(s) else s.step) for s in roi]) if isinstance(roi, tuple) else Slice(Int(), Int(), None if is_int_obj(roi) else roi.step),
)

# ---- roi_pad -------------------------------------------------------------------------------------


def _pad_post(s, pad, n, r):
    lo, hi = bounds(s, n)
    return And(r.start == Max(0, lo - pad), r.stop == Min(n, hi + pad), r.start >= 0, r.stop <= n)


def _in_range(s, n):
    """slice bounds within [-n, n] (so that normalisation is exact) or an in-range int index."""
    if is_int_obj(s):
        return valid_index(s, n)
    return And(opt_within(s.start, n), opt_within(s.stop, n))


contract(
    f"{ROI}:roi_pad",
    ["C17"],
    inputs=[dict(roi=some_slice(), pad=Int(ge=0), shape=OneOf(Int(ge=0), Tup(Int(ge=0))))]
    + nd_cases(["roi"], extra=dict(pad=lambda k: Int(ge=0), shape=lambda k: Tup(*[Int(ge=0)] * k)), lens=(1, 2)),
    requires=[
        lambda roi, shape: And(*[_in_range(s, n) for s, n in zip(roi, shape)]) if isinstance(roi, tuple) else _in_range(roi, shape[0] if isinstance(shape, tuple) else shape),
        # a region, not reversed bounds
        lambda roi, shape: And(*[py_slice_bounds(s.start, s.stop, n)[1] >= py_slice_bounds(s.start, s.stop, n)[0] for s, n in zip(_as_tuple(roi), _as_tuple(shape)) if not is_int_obj(s)]),
    ],
    ensures=[
        (
            "grown-by-pad-clamped-to-array",
            lambda roi, pad, shape, result: And(*[_pad_post(s, pad, n, r) for r, s, n in zip(result, roi, shape)])
            if isinstance(roi, tuple)
            else _pad_post(roi, pad, shape[0] if isinstance(shape, tuple) else shape, result),
        ),
    ],
    returns=lambda roi: Tup(*[Slice(Int(), Int(), None) for _ in roi]) if isinstance(roi, tuple) else Slice(Int(), Int(), None),
)

# ---- roi_intersect -------------------------------------------------------------------------------


def _ri_post(a, b, r, n):
    return And(is_norm(r), same_set(bounds(r, n), inter(bounds(a, n), bounds(b, n))))


contract(
    f"{ROI}:roi_intersect",
    ["C17"],
    inputs=[dict(a=some_slice(), b=OneOf(some_slice(), Tup(some_slice())), n=Int(ge=0))]
    + nd_cases(["a", "b"], extra=dict(n=lambda k: Tup(*[Int(ge=0)] * k)), lens=(1, 2)),
    requires=[lambda a, b, n: And(*[And(valid_index(x, m), valid_index(y, m)) for x, y, m in zip(_as_tuple(a), _as_tuple(b), _as_tuple(n))])],
    raises=[
        (
            ValueError,
            lambda a, b: Or(*[_nse_bad(x) for x in list(a) + list(b)]) if isinstance(a, tuple) else Or(_nse_bad(a), _nse_bad(b[0] if isinstance(b, tuple) else b)),
        )
    ],
    ensures=[
        (
            "exactly-the-common-index-set (on every array)",
            lambda a, b, n, result: And(*[_ri_post(x, y, r, m) for x, y, r, m in zip(a, b, result, n)])
            if isinstance(a, tuple)
            else _ri_post(a, b[0] if isinstance(b, tuple) else b, result, n),
        )
    ],
    returns=lambda a: Tup(*[Slice(Int(), Int(), None) for _ in a]) if isinstance(a, tuple) else Slice(Int(), Int(), None),
)

# ---- roi_shape / roi_is_empty / roi_is_full / roi_center ----------------------------------------


def _dim(s):
    """size of the selection a slice with given bounds describes: empty (0) when it stops before it starts"""
    if is_int_obj(s):
        return 1
    return Max(0, s.stop if s.start is None else s.stop - s.start)


def _shape_inputs(elem):
    return [dict(roi=elem)] + [dict(roi=Tup(*[elem] * k)) for k in (1, 2, 3)]


_shape_elem = OneOf(Int(), Slice(Opt(Int()), Opt(Int()), None))

contract(
    f"{ROI}:roi_shape",
    ["C17", "C04"],
    inputs=[dict(d, n=Int(ge=0)) for d in _shape_inputs(_shape_elem)],
    raises=[(ValueError, lambda roi: any((not is_int_obj(s)) and s.stop is None for s in _as_tuple(roi)))],
    ensures=[
        ("value", lambda roi, result: And(*[r == _dim(s) for r, s in zip(result, _as_tuple(roi))])),
        ("arity", lambda roi, result: isinstance(result, tuple) and len(result) == len(_as_tuple(roi))),
        (
            "is the cardinality of the index set for in-range regions (same as X[roi].shape)",
            lambda roi, n, result: And(
                *[
                    Implies(
                        (And(s >= -n, s < n) if is_int_obj(s) else And(0 <= (0 if s.start is None else s.start), 0 <= s.stop, (0 if s.start is None else s.start) <= n, s.stop <= n)),
                        r == Max(0, bounds(s, n)[1] - bounds(s, n)[0]),
                    )
                    for r, s in zip(result, _as_tuple(roi))
                ]
            ),
        ),
    ],
    returns=lambda roi: Tup(*[Int() for _ in _as_tuple(roi)]),
)

contract(
    f"{ROI}:roi_is_empty",
    ["C17", "C03"],
    inputs=_shape_inputs(OneOf(Int(), Slice(Opt(Int()), Int(), None))),
    ensures=[("iff-some-axis-has-no-elements", lambda roi, result: Iff(result, Or(*[_dim(s) <= 0 for s in _as_tuple(roi)])))],
    returns=lambda roi: SymBoolShape(),
)


def _full_elem():
    return OneOf(Int(), Slice(Opt(Int(ge=0)), Opt(Int(ge=0)), None))


contract(
    f"{ROI}:roi_is_full",
    ["C17"],
    inputs=[dict(roi=_full_elem(), shape=OneOf(Int(ge=0), Tup(Int(ge=0))))] + [dict(roi=Tup(*[_full_elem()] * k), shape=Tup(*[Int(ge=0)] * k)) for k in (1, 2)],
    requires=[
        # in-range regions (what the function documents: "roi covers region from (0,..) -> shape")
        lambda roi, shape: And(
            *[
                (And(s >= -n, s < n) if is_int_obj(s) else And(True if s.start is None else s.start <= n, True if s.stop is None else s.stop <= n))
                for s, n in zip(_as_tuple(roi), _as_tuple(shape))
            ]
        )
    ],
    ensures=[
        (
            "iff-index-set-is-whole-axis",
            lambda roi, shape, result: Iff(
                result,
                And(*[And(bounds(s, n)[0] == 0, bounds(s, n)[1] == n, True if is_int_obj(s) else py_slice_bounds(s.start, s.stop, n)[1] == n) for s, n in zip(_as_tuple(roi), _as_tuple(shape))]),
            ),
        )
    ],
    returns=lambda roi: SymBoolShape(),
)

contract(
    f"{ROI}:roi_center",
    ["C17", "C03"],
    inputs=_shape_inputs(some_slice()),
    raises=[(ValueError, lambda roi: Or(*[_nse_bad(s) for s in _as_tuple(roi)]))],
    ensures=[
        (
            "midpoint",
            lambda roi, result: And(*[2 * r == (s + s + 1 if is_int_obj(s) else (0 if s.start is None else s.start) + s.stop) for r, s in zip(_as_tuple(result), _as_tuple(roi))]),
        ),
        ("arity", lambda roi, result: (isinstance(result, tuple) and len(result) == len(roi)) if isinstance(roi, tuple) else not isinstance(result, tuple)),
    ],
    returns=lambda roi: Tup(*[Real() for _ in roi]) if isinstance(roi, tuple) else Real(),
)

# ---- scaling ---------------------------------------------------------------------------------------

_roi2 = Tup(norm_slice_shape(), norm_slice_shape())

contract(
    f"{ROI}:scaled_down_roi",
    ["C17", "C03"],
    inputs=dict(roi=_roi2, scale=Int(ge=1)),
    requires=[lambda roi: And(*[s.start <= s.stop for s in roi])],
    ensures=[
        (
            "floor-start ceil-stop",
            lambda roi, scale, result: And(
                *[And(r.start * scale <= s.start, s.start < (r.start + 1) * scale, (r.stop - 1) * scale < s.stop, s.stop <= r.stop * scale) for r, s in zip(result, roi)]
            ),
        ),
        ("arity", lambda result: len(result) == 2),
    ],
    returns=lambda roi, scale: Tup(Slice(Int(), Int(), None), Slice(Int(), Int(), None)),
)

contract(
    f"{ROI}:scaled_up_roi",
    ["C17", "C03", "C10"],
    inputs=dict(roi=_roi2, scale=Int(ge=1), shape=OneOf(None, Tup(Int(ge=0), Int(ge=0)))),
    ensures=[
        (
            "scaled (and clamped to shape when given)",
            lambda roi, scale, shape, result: And(
                *[
                    And(r.start == (s.start * scale if shape is None else Min(shape[i], s.start * scale)), r.stop == (s.stop * scale if shape is None else Min(shape[i], s.stop * scale)))
                    for i, (r, s) in enumerate(zip(result, roi))
                ]
            ),
        ),
        ("arity", lambda result: len(result) == 2),
    ],
    returns=lambda roi, scale: Tup(Slice(Int(), Int(), None), Slice(Int(), Int(), None)),
)

contract(
    f"{ROI}:scaled_down_shape",
    ["C17"],
    inputs=[dict(shape=Tup(*[Int(ge=0)] * k), scale=Int(ge=1)) for k in (1, 2, 3)],
    ensures=[("ceil-division", lambda shape, scale, result: And(*[And((r - 1) * scale < s, s <= r * scale) for r, s in zip(result, shape)]) and len(result) == len(shape))],
    returns=lambda shape: Tup(*[Int() for _ in shape]),
)


def _lemma_scale_roundtrip(roi, scale):
    roi_m = repo(ROI)
    down = roi_m.scaled_down_roi(roi, scale)
    up = roi_m.scaled_up_roi(down, scale)
    for u, s in zip(up, roi):
        claim(And(u.start <= s.start, s.stop <= u.stop), "up(down(r)) contains r")
        claim(And(s.start - u.start < scale, u.stop - s.stop < scale), "excess below the factor on each side")


lemma(
    "roi.scale_down_then_up",
    ["C17"],
    inputs=dict(roi=_roi2, scale=Int(ge=1)),
    body=_lemma_scale_roundtrip,
    requires=[lambda roi: And(*[s.start <= s.stop for s in roi])],
    note="lemma over the two contracts: scaling down then up contains the original and exceeds it by < factor",
)

# ---- WindowFromSlice -------------------------------------------------------------------------------

contract(
    f"{ROI}:WindowFromSlice.__getitem__",
    ["C17"],
    inputs=[
        dict(self=Obj(f"{ROI}:WindowFromSlice"), roi=OneOf(None, Tup(Slice(Opt(Int()), Opt(Int()), None), Slice(Opt(Int()), Opt(Int()), None)))),
        dict(self=Obj(f"{ROI}:WindowFromSlice"), roi=OneOf(Tup(Slice(Int(), Int(), None)), Int())),
    ],
    raises=[(ValueError, lambda roi: roi is not None and not (isinstance(roi, tuple) and len(roi) == 2))],
    ensures=[
        (
            "window = ((row.start or 0, row.stop), (col.start or 0, col.stop))",
            lambda roi, result: (result is None)
            if roi is None
            else And(*[And(w[0] == (0 if s.start is None else s.start), (w[1] is None) if s.stop is None else w[1] == s.stop) for w, s in zip(result, roi)]),
        )
    ],
)

# ---- roi_from_points: numpy plumbing -> BOUNDED native check of the contract -------------------------------------------------


def _rfp_samples():
    import itertools

    import numpy as np

    def gen():
        rnd = np.random.default_rng(int(__import__("os").environ.get("PYVC_SEED", "0")))
        shapes = [(100, 100), (1, 7), (50, 3)]
        far = [0.0, 1e5, 3e9, -3e9, 1e12, -1e15, 1e300]
        for shape, padding, align, f in itertools.product(shapes, (0, 1, 5), (None, 4, 16), far):
            ny, nx = shape
            inside = rnd.uniform([0, 0], [nx, ny], size=(4, 2))
            pts = [inside, np.asarray([[f, ny / 2.0]]), np.asarray([[nx / 3.0, -f]])]
            xy = np.concatenate(pts)
            yield dict(xy=xy, shape=shape, padding=padding, align=align, k=0)
            bad = xy.copy()
            bad[0, 0] = np.nan
            bad[1, 1] = np.inf
            yield dict(xy=bad, shape=shape, padding=padding, align=align, k=0)
        yield dict(xy=np.asarray([[np.nan, 1.0], [2.0, np.inf]]), shape=(10, 10), padding=0, align=None, k=0)
        # every way a single kind of non-finite value can occur alone (only NaN / only +inf / only -inf, in x, in y, in both) and all mixes
        nf = {"nan": np.nan, "+inf": np.inf, "-inf": -np.inf}
        good = [[50.5, 40.2], [60.1, 47.9], [55.0, 44.0]]
        for r in range(1, 4):
            for kinds in itertools.combinations(nf, r):
                for where in ("x", "y", "xy"):
                    rows = [[nf[kd] if "x" in where else 7.0, nf[kd] if "y" in where else 9.0] for kd in kinds]
                    for order in (rows + good, good + rows, good[:1] + rows + good[1:]):
                        yield dict(xy=np.asarray(order), shape=(120, 100), padding=0, align=None, k=0)
        yield dict(xy=np.zeros((0, 2)), shape=(10, 10), padding=0, align=None, k=0)

    return "3 image shapes x paddings {0,1,5} x alignments {None,4,16} x outliers at 0, 1e5, +-3e9 (beyond int32), 1e12, -1e15, 1e300; with and without NaN/inf rows; every single kind of non-finite value alone (NaN / +inf / -inf, in x / y / both, at the start / end / middle) and all mixes; all-non-finite and empty point sets", gen()


def _rfp_reference(xy, shape, padding, align):
    """the region from the FINITE rows only, in plain integer arithmetic (what 'ignores non-finite points' means)"""
    import math

    ny, nx = shape
    fin = [(float(x), float(y)) for x, y in xy if math.isfinite(x) and math.isfinite(y)]
    if not fin:
        return ((0, 0), (0, 0))
    out = []
    for vals, n in (([p[1] for p in fin], ny), ([p[0] for p in fin], nx)):
        lo, hi = math.floor(min(vals)) - padding, math.ceil(max(vals)) + padding
        if align is not None:
            lo, hi = lo - lo % align, hi + (-hi) % align
        out.append((min(max(lo, 0), n), min(max(hi, 0), n)))
    return tuple(out)


def _rfp_post_native(xy, shape, padding, align, result):
    if hasattr(xy, "point"):
        return True  # symbolic run: the clauses above decide it
    import numpy as np

    far = np.abs(xy[np.isfinite(xy)]).max() >= 2.0**30 - 2.0**21 if np.isfinite(xy).any() else False
    exact = far or tuple((s.start, s.stop) for s in result) == _rfp_reference(xy, shape, padding, align)  # (beyond 2**30 the code clips early: only containment is promised)
    return bool(exact) and _rfp_post(xy, shape, padding, align, result)


def _rfp_tight(xy, shape, padding, align, result):
    """no larger than needed (symbolic, without alignment): each edge is the floor / ceil of SOME point's coordinate, moved by
    the padding and clamped to the image -- so a point set is never answered with a region reaching beyond its own envelope"""
    if not hasattr(xy, "point") or align is not None:
        return True
    ny, nx = _rfp_shape(shape)
    ys, xs = result
    n = _npts(xy)
    clampx = lambda v: Min(Max(v, 0), nx)
    clampy = lambda v: Min(Max(v, 0), ny)
    near = forall(0, n, lambda j: And(Abs(_pt(xy, j)[0]) <= 2**29, Abs(_pt(xy, j)[1]) <= 2**29))  # beyond +-2**30 the code clips early (containment still holds)
    return Implies(
        And(n >= 1, near),
        And(
            exists(0, n, lambda j: xs.start == clampx(floor(_pt(xy, j)[0]) - padding)),
            exists(0, n, lambda j: xs.stop == clampx(ceil(_pt(xy, j)[0]) + padding)),
            exists(0, n, lambda j: ys.start == clampy(floor(_pt(xy, j)[1]) - padding)),
            exists(0, n, lambda j: ys.stop == clampy(ceil(_pt(xy, j)[1]) + padding)),
        ),
    )


def _rfp_post(xy, shape, padding, align, result):
    import numpy as np

    ny, nx = shape
    ys, xs = result
    ok = 0 <= ys.start and ys.stop <= ny and 0 <= xs.start and xs.stop <= nx
    fin = xy[np.isfinite(xy).all(axis=1)] if len(xy) else xy
    if len(fin) == 0:
        return ok and (ys.stop - ys.start) <= 0 or (xs.stop - xs.start) <= 0 or ok
    for x, y in fin:
        if 0 <= x < nx and 0 <= y < ny:
            # the point, as a location in continuous pixel coordinates, lies in the region [start, stop]
            # together with its padding (clamped to the image)
            if not (xs.start <= max(0.0, x - padding) and min(float(nx), x + padding) <= xs.stop and ys.start <= max(0.0, y - padding) and min(float(ny), y + padding) <= ys.stop):
                return False
    if align:
        for sl, n in ((ys, ny), (xs, nx)):
            if sl.start % align != 0 and sl.start != 0:
                return False
            if sl.stop % align != 0 and sl.stop != n:
                return False
    return ok


def _pts_shape(min_len=0):
    from pyvc.npmodel import SymPts

    return Custom(lambda name: SymPts.fresh(name, min_len=min_len), "N x 2 float array, any N (all rows finite)")


def _npts(xy):
    return xy.shape[0]


def _pt(xy, k):
    return xy.point(k) if hasattr(xy, "point") else (float(xy[k, 0]), float(xy[k, 1]))


def _rfp_shape(shape):
    return (shape[0], shape[1])


def _rfp_contains(xy, shape, padding, result, k):
    ny, nx = _rfp_shape(shape)
    ys, xs = result
    if not hasattr(xy, "point") and not 0 <= k < len(xy):
        return True
    x, y = _pt(xy, k)
    return Implies(
        And(0 <= k, k < _npts(xy), 0 <= x, x < nx, 0 <= y, y < ny),
        And(xs.start <= Max(0, x - padding), Min(nx, x + padding) <= xs.stop, ys.start <= Max(0, y - padding), Min(ny, y + padding) <= ys.stop),
    )


def _rfp_aligned(shape, align, result):
    if align is None:
        return True
    ny, nx = _rfp_shape(shape)
    return And(*[And(Or(sl.start % align == 0, sl.start == n), Or(sl.stop % align == 0, sl.stop == n)) for sl, n in zip(result, (ny, nx))])


contract(
    f"{ROI}:roi_from_points",
    ["C17", "C03"],
    inputs=[
        dict(xy=_pts_shape(0), shape=Tup(Int(ge=1, le=2**30), Int(ge=1, le=2**30)), padding=Int(ge=0, le=2**20), align=OneOf(None, Int(ge=1, le=2**20)), k=Int()),
    ],
    ensures=[
        ("stays within the image", lambda shape, result: And(0 <= result[0].start, result[0].stop <= shape[0], 0 <= result[1].start, result[1].stop <= shape[1], is_int_obj(result[0].start), is_int_obj(result[1].stop))),
        ("contains every (finite) point that falls inside the image, together with its padding clamped to the image -- however far away the other points are", lambda xy, shape, padding, result, k: _rfp_contains(xy, shape, padding, result, k)),
        ("edges are aligned as requested (or sit on the image border)", lambda shape, align, result: _rfp_aligned(shape, align, result)),
        ("tight: every edge comes from some point's coordinate (floor / ceil, padding, clamped): nothing outside the points' own envelope is added", lambda xy, shape, padding, align, result: _rfp_tight(xy, shape, padding, align, result)),
        ("no points: the empty region", lambda xy, result: Implies(_npts(xy) == 0, And(result[0].start == 0, result[0].stop == 0, result[1].start == 0, result[1].stop == 0))),
        ("bounded-part: non-finite rows are ignored, huge coordinates do not wrap (native samples)", _rfp_post_native),
    ],
    unstub=["odc.geo.math:align_down", "odc.geo.math:align_up"],
    native_samples=_rfp_samples,
    note="proved over numpy taken as its documented meaning on an N x 2 array of reals of ANY length (min/max along axis 0, floor/ceil/clip/astype elementwise; the int32 casts and every later int32 operation carry a no-overflow OBLIGATION); rows with NaN/inf and float rounding are covered by the bounded native samples only",
)
