"""
Contracts for odc/geo/cog/_s3.py and _mpu_fs.py.   Property: C18.

Concurrency by rely/guarantee (the classic lock-invariant argument; no schedule is enumerated):

  shared state   : mpu.uploadId (threads of one process), the distributed Variable, the number of
                   create_multipart_upload calls issued for the object so far (ghost counter)
  abstraction    : an upload id is either "" or THE id U returned by the object's first
                   create_multipart_upload, so a GhostId is just the boolean "is set"
  rely           : other workers run the same protocol: they change shared state only while holding
                   the lock (except copying U into mpu.uploadId), never un-set anything, and leave the
                   lock invariant INV true whenever they release the lock
  INV (in-process): creates == (1 if mpu.uploadId set else 0)
  INV (cluster)   : creates == (1 if Variable set else 0)  and  (mpu.uploadId set => Variable set)
  interference   : every read of shared state outside the lock, and the lock acquisition itself, is
                   preceded by an arbitrary number of steps of the others (havoc subject to the rely;
                   at acquisition INV holds because nobody else is inside)
  guarantee (to prove for the real code): INV holds when we release the lock; we only create while
                   holding the lock and creates == 0; initiate()'s own precondition uploadId == ""
                   holds; after _ensure_init() the upload is started, so write_part never fails its
                   assert and every part goes out under U.
Under assumption A-SC (sequentially consistent, atomic attribute access: CPython's GIL) and a
linearisable Variable/Lock this covers every interleaving of any number of workers.  Time-outs of
Variable.get are faults outside the quantifier (a ghost get never times out).  Liveness is not addressed.
"""
from pyvc.api import *  # noqa: F401,F403

S3 = "odc.geo.cog._s3"
FS = "odc.geo.cog._mpu_fs"


class GhostId:
    """"" or THE upload id U"""

    def __init__(self, is_set):
        self.is_set = is_set

    def __symlen__(self):
        return Ite(self.is_set, 1, 0)

    def __len__(self):
        return 1 if self.is_set else 0

    def __eq__(self, o):
        if isinstance(o, str):
            return Not(self.is_set) if o == "" else False
        if isinstance(o, GhostId):
            return Iff(self.is_set, o.is_set)
        return NotImplemented

    def __ne__(self, o):
        r = self.__eq__(o)
        return r if r is NotImplemented else Not(r)

    def __bool__(self):
        return bool(self.is_set)

    __hash__ = None


class World:
    def __init__(self, mode, local0, var0, creates0):
        self.mode = mode
        self.local_set, self.var_set, self.creates = local0, var0, creates0
        self.lock_held = False
        self.mine = 0
        self.parts_ok = True
        self.var_reads = 0

    def inv(self):
        if self.mode == "local":
            return self.creates == Ite(self.local_set, 1, 0)
        return And(self.creates == Ite(self.var_set, 1, 0), Implies(self.local_set, self.var_set))

    def interfere(self, at_lock=False):
        """the others take any number of steps"""
        from pyvc.sym import ctx

        c = ctx()
        l2, v2, n2 = c.fresh_bool("local"), c.fresh_bool("var"), c.fresh_int("creates")
        assume(And(Implies(self.local_set, l2), Implies(self.var_set, v2), n2 >= self.creates, n2 >= 0))
        if self.mode == "local":
            assume(Iff(v2, self.var_set))
        self.local_set, self.var_set, self.creates = l2, v2, n2
        if at_lock:
            assume(self.inv())


class GhostLock:
    def __init__(self, world):
        self.w = world

    def __enter__(self):
        self.w.interfere(at_lock=True)
        self.w.lock_held = True
        return self

    def __exit__(self, *a):
        if a[0] is None:
            claim(self.w.inv(), "guarantee: the lock invariant holds when the lock is released (at most one upload exists and its id is published)")
        self.w.lock_held = False
        return False


class GhostVariable:
    def __init__(self, world):
        self.w = world

    def get(self, timeout=None):
        if not self.w.lock_held:
            self.w.interfere()
        return GhostId(True) if bool(self.w.var_set) else None

    def set(self, v):
        claim(self.w.lock_held, "the shared variable is only written while holding the lock")
        claim(isinstance(v, GhostId) and bool(v.is_set), "only the upload id is published")
        self.w.var_set = True

    def delete(self):
        pass


class GhostS3:
    def __init__(self, world):
        self.w = world

    def create_multipart_upload(self, **kw):
        claim(self.w.lock_held, "create_multipart_upload is issued only while holding the lock")
        claim(self.w.creates == 0, "create_multipart_upload is issued only when no upload exists for the object: at most one initiation")
        self.w.creates = self.w.creates + 1
        self.w.mine += 1
        return {"UploadId": GhostId(True)}

    def upload_part(self, **kw):
        uid = kw["UploadId"]
        claim(isinstance(uid, GhostId) and bool(uid.is_set), "every part is uploaded under the one upload id")
        return {"ETag": "etag"}

    def complete_multipart_upload(self, **kw):
        return {"ETag": "etag"}


def _mk(world):
    m = repo(S3)

    class GhostMPU(m.MultiPartUpload):
        def _get(self):
            if not world.lock_held:
                world.interfere()
            return GhostId(world.local_set)

        def _set(self, v):
            if isinstance(v, str):
                return  # constructor's uploadId="": the initial state is the (symbolic) world state
            claim(bool(v.is_set), "mpu.uploadId is only ever set to the upload id")
            world.local_set = True

        uploadId = property(_get, _set)

        def s3_client(self):
            return GhostS3(world)

    mpu = GhostMPU("bucket", "key")
    return m, mpu, m.DelayedS3Writer(mpu, {})


def _run(mode, local0, var0, creates0, op):
    import distributed

    w = World(mode, local0, var0, creates0)
    m, mpu, writer = _mk(w)
    saved = (m._dask_client, m._mpu_local_lock, distributed.Lock, distributed.Variable)
    client = object() if mode == "dist" else None
    var = GhostVariable(w)
    try:
        m._dask_client = lambda: client
        m._mpu_local_lock = lambda k="mpu_lock": GhostLock(w)
        distributed.Lock = lambda name, client=None: GhostLock(w)
        distributed.Variable = lambda name, client=None: var
        if op == "write":
            r = writer(3, b"data")
            claim(isinstance(r, dict) and r["PartNumber"] == 3, "the write succeeds (no assert fails because another worker won the race)")
        else:
            r = writer.finalise([{"PartNumber": 1, "ETag": "x"}])
            claim(isinstance(r, dict), "finalise succeeds")
        claim(w.mine <= 1, "this worker initiates at most once")
    finally:
        m._dask_client, m._mpu_local_lock, distributed.Lock, distributed.Variable = saved


def _pre_local(local0, creates0):
    # any state the others may have left: INV need not hold mid-way, only monotone facts are known
    return And(creates0 >= 0, Implies(local0, creates0 >= 1))


lemma(
    "s3.first_write_in_process",
    ["C18"],
    inputs=dict(local0=SymBoolShape(), creates0=Int(ge=0), op=OneOf("write", "finalise")),
    requires=[lambda local0, creates0: _pre_local(local0, creates0), lambda local0, op: Implies(op == "finalise", local0) if True else True],
    body=lambda local0, creates0, op: _run("local", local0, False, creates0, op),
    unstub=[f"{S3}:DelayedS3Writer._ensure_init"],
    native_oracle=lambda args, run=None: __import__("contracts.s3_native", fromlist=["oracle"]).oracle("local")(args),
    note="in-process use: threads share one MultiPartUpload object and the process-wide lock; any number of other threads interleave at every shared read and at lock acquisition",
)

lemma(
    "s3.first_write_cluster",
    ["C18"],
    inputs=dict(local0=SymBoolShape(), var0=SymBoolShape(), creates0=Int(ge=0), op=OneOf("write", "finalise")),
    requires=[lambda local0, var0, creates0: And(creates0 >= 0, Implies(var0, creates0 >= 1), Implies(local0, creates0 >= 1)), lambda var0, op: Implies(op == "finalise", var0)],
    body=lambda local0, var0, creates0, op: _run("dist", local0, var0, creates0, op),
    unstub=[f"{S3}:DelayedS3Writer._ensure_init"],
    native_oracle=lambda args, run=None: __import__("contracts.s3_native", fromlist=["oracle"]).oracle("dist")(args),
    note="cluster use: distributed Variable + Lock (assumed linearisable); finalise is only reached after some part was written, i.e. the id is published",
)

# ---- limits ------------------------------------------------------------------------------------------------------------

for _cls in ("S3Limits",):
    contract(
        f"{S3}:{_cls}.min_write_sz",
        ["C18"],
        inputs=dict(self=Obj(f"{S3}:S3Limits")),
        ensures=[("S3 limits: 5 MiB .. 5 GiB per part, part numbers 1 .. 10000; each maximum above its minimum", lambda self, result: result == 5 * (1 << 20) and self.max_write_sz == 5 * (1 << 30) and self.min_part == 1 and self.max_part == 10_000 and self.max_write_sz > result and self.max_part > self.min_part)],
        inline=True,
    )



def _s3_writer_limits(endpoint_url, profile, upload_id, via):
    """the limits every S3 writer object reports, however it was configured: the uploader itself and the lazily
    initialising writer handed to workers (built directly: `MultiPartUpload.writer` only adds the cluster hand-shake)"""
    m = repo(S3)
    mpu = m.MultiPartUpload("bucket", "some/key.tif", uploadId=upload_id, profile=profile, endpoint_url=endpoint_url)
    w = mpu if via == "uploader" else m.DelayedS3Writer(mpu, {"ContentType": "image/tiff"})
    MiB, GiB = 1 << 20, 1 << 30
    claim(w.min_write_sz >= 5 * MiB, "non-final parts are at least S3's 5 MiB minimum")
    claim(w.max_write_sz <= 5 * GiB, "parts never exceed S3's 5 GiB maximum")
    claim(w.max_write_sz > w.min_write_sz, "maximum part size above the minimum")
    claim(1 <= w.min_part and w.max_part <= 10_000, "part numbers within S3's 1 .. 10000")
    claim(w.max_part > w.min_part, "maximum part number above the minimum")


lemma(
    "s3.limits_of_every_writer",
    ["C18"],
    inputs=dict(endpoint_url=OneOf(None, "", "http://localhost:9000"), profile=OneOf(None, "dev"), upload_id=OneOf("", "UPLOAD-1"), via=OneOf("uploader", "delayed-writer")),
    body=_s3_writer_limits,
    unstub=[f"{S3}:S3Limits.min_write_sz"],
    note="EXHAUSTIVE over the configuration that reaches the writer objects (24 combinations; the values are constants of the code)",
)

# ---- MPUFileSink ---------------------------------------------------------------------------------------------------------------


def _sink(limits):
    m = repo(FS)
    return m.MPUFileSink("/some/dir/out.bin", **limits)


_KEYS = ("min_write_sz", "max_write_sz", "min_part", "max_part")
_DEFAULTS = dict(min_write_sz=4096, max_write_sz=5 * (1 << 30), min_part=1, max_part=10_000)


def _limits_body(given, v0, v1, v2, v3):
    vals = dict(zip(_KEYS, (v0, v1, v2, v3)))
    limits = {k: vals[k] for k in given}
    s = _sink(limits)
    for k in _KEYS:
        want = limits.get(k, _DEFAULTS[k])
        claim(getattr(s, k) == want, f"{k} is the value configured under its own keyword, else its default")
    eff = {k: limits.get(k, _DEFAULTS[k]) for k in _KEYS}
    claim(Implies(eff["max_write_sz"] > eff["min_write_sz"], s.max_write_sz > s.min_write_sz), "reported max_write_sz above min_write_sz whenever configured so")
    claim(Implies(eff["max_part"] > eff["min_part"], s.max_part > s.min_part), "reported max_part above min_part whenever configured so")


import itertools as _it  # noqa: E402

lemma(
    "mpu_fs.limits",
    ["C18"],
    inputs=[dict(given=tuple(k for k, on in zip(_KEYS, mask) if on), v0=Int(ge=1), v1=Int(ge=1), v2=Int(ge=1), v3=Int(ge=1)) for mask in _it.product((False, True), repeat=4)],
    body=_limits_body,
    note="all 16 combinations of limit keyword arguments, symbolic values",
)

# ---- MPUFileSink.__call__ / finalise: bounded native check on a real (scratch) directory -----------------------------------------


def _sink_samples():
    import itertools
    import os
    import tempfile

    def gen():
        for nparts, use_base, order in itertools.product((1, 2, 3, 5), (False, True), ("inc", "shuffled")):
            root = tempfile.mkdtemp(prefix="pyvc_sink_")
            yield dict(root=root, nparts=nparts, use_base=use_base, order=order)

    return "part counts {1,2,3,5} x parts directory next to the destination / elsewhere x parts given in increasing or shuffled order; sizes 0..4 KiB", gen()


def _sink_body(root, nparts, use_base, order):
    import os
    import shutil
    from pathlib import Path

    from odc.geo.cog._mpu_fs import MPUFileSink

    try:
        dst = Path(root) / "out" / "file.bin"
        dst.parent.mkdir(parents=True)
        base = Path(root) / "elsewhere"
        if use_base:
            base.mkdir()
        sink = MPUFileSink(dst, parts_base=base if use_base else None)
        blobs = {p: bytes([p]) * ((p * 977) % 4096) for p in range(1, nparts + 1)}
        receipts = [sink(p, blobs[p]) for p in range(1, nparts + 1)]
        claim(all(Path(r["Path"]).read_bytes() == blobs[r["PartNumber"]] for r in receipts), "each part is stored under its own part file")
        if order == "shuffled":
            receipts = receipts[1:] + receipts[:1]
        out = sink.finalise(receipts)
        claim(Path(out) == dst and dst.read_bytes() == b"".join(blobs[r["PartNumber"]] for r in receipts), "destination equals the concatenation of the parts in the order given")
        pdir = (base if use_base else dst.parent) / f".{dst.name}.parts"
        claim(not pdir.exists(), "temporary parts and their directory are removed")
    finally:
        shutil.rmtree(root, ignore_errors=True)


lemma(
    "mpu_fs.finalise_bounded",
    ["C18"],
    inputs=dict(root="", nparts=1, use_base=False, order="inc"),
    body=_sink_body,
    verify=False,
    trusted_reason="file-system effects (pathlib/open/mmap): BOUNDED native check on a scratch directory, not a proof",
    native_samples=_sink_samples,
)


# ---- the process-wide lock is ONE lock, under any interleaving of its first users --------------------------------------------------


class _RaceDict:
    """the module's `_state` as seen by one worker while others run: before every operation another worker
    may have stored ITS lock (rely: the others only ever store a lock atomically when none is there).
    `setdefault` is atomic (one dict operation under the GIL: assumed); get / in / [] / []= are separate steps."""

    def __init__(self, decide, other, events):
        self.stored, self.decide, self.other, self.events = None, decide, other, events

    def _interfere(self):
        if self.stored is None and self.decide():
            self.stored = self.other
            self.events.append("other-stored")

    def get(self, k, default=None):
        self._interfere()
        return self.stored if self.stored is not None else default

    def __contains__(self, k):
        self._interfere()
        return self.stored is not None

    def __getitem__(self, k):
        self._interfere()
        if self.stored is None:
            raise KeyError(k)
        return self.stored

    def setdefault(self, k, v):
        self._interfere()
        if self.stored is None:
            self.stored = v
        return self.stored

    def __setitem__(self, k, v):
        self._interfere()
        if self.stored is not None and self.stored is not v:
            self.events.append("overwrote-existing-lock")
        self.stored = v


def _run_local_lock(decide):
    m = repo(S3)
    events = []
    other = object()
    st = _RaceDict(decide, other, events)
    saved = m._state
    try:
        m._state = st
        got = m._mpu_local_lock()
        again = m._mpu_local_lock()
    finally:
        m._state = saved
    return got, again, st, events, other


def _lemma_local_lock(d0, d1, d2, d3):
    ds = [d0, d1, d2, d3]

    def decide():
        return bool(ds.pop(0)) if ds else False

    got, again, st, events, other = _run_local_lock(decide)
    claim("overwrote-existing-lock" not in events, "a lock another worker has already stored is never replaced")
    claim(got is st.stored, "the lock handed out is the one every later caller gets")
    claim(again is got, "asking again returns the same lock")
    claim(("other-stored" not in events) or got is other, "if another worker got there first, ITS lock is the one used: never two different locks for one process")


def _local_lock_oracle(args, run=None):
    """native: every interference pattern of the same adversarial dictionary on the real function"""
    import itertools

    fails = []
    for pattern in itertools.product([False, True], repeat=4):
        ds = list(pattern)
        got, again, st, events, other = _run_local_lock(lambda: ds.pop(0) if ds else False)
        if "overwrote-existing-lock" in events or got is not st.stored or again is not got or ("other-stored" in events and got is not other):
            fails.append(f"claim:one process-wide lock (another worker stores its lock at steps {[i for i, p in enumerate(pattern) if p]} of this call: events {events}, same lock handed out: {got is st.stored and again is got})")
            break
    return fails


lemma(
    "s3.local_lock_is_unique",
    ["C18"],
    inputs=dict(d0=Bool(), d1=Bool(), d2=Bool(), d3=Bool()),
    body=_lemma_local_lock,
    native_oracle=_local_lock_oracle,
    note="rely/guarantee on the module-level lock table: interference (another worker storing its lock) is possible before each of the first four dictionary operations of a call; dict.setdefault is one atomic step (GIL, assumed)",
)
