"""
Contracts for compute_output_geobox  (C11: the output grid computed for another CRS encloses the source).

Decomposition (every arrow is a contract boundary):

  compute_output_geobox  --dispatch lemma (proved, this file)-->  GeoBox.from_bbox(footprint bbox, dst CRS, ...)
  GeoBox.from_bbox       --contract + shape-driven lemma (proved, geobox_c.py)--> covers the box up to tol,
                           requested resolution, axis aligned, anchor alignment, < 1 pixel displacement / excess
  GeoBoxBase.footprint   --ASSUMED (shapely buffer + densify + pyproj)--> a region in the target CRS containing
                           the projected position of every source pixel;   BOUNDED native end-to-end check below
  norm_crs('utm*')       --exhaustive enumeration of the 60 x 2 WGS84 UTM zones x 3 spellings on the real code-->
                           the requested hemisphere, same zone number

The dispatch lemma runs the REAL compute_output_geobox on a real (shadow) GeoBox with symbolic affine;
footprint / centre pixel / pyproj-based scale estimation / from_bbox are ghosts that record what they
are called with.  It proves, for every combination of the options, WHICH from_bbox call produces the
result (or that the source is returned unchanged).
"""
from pyvc.api import *  # noqa: F401,F403

from .geobox_c import AFFINE, ANCHORS, GEOBOX, GBX, GEOM, TYPES, crs_obj, CRSShape, EnumShape  # noqa: F401

OVL = "odc.geo.overlap"
CRSM = "odc.geo.crs"


class _GhostBBox:
    def __init__(self, crs, tag):
        self.crs, self.tag = crs, tag


class _GhostGeom:
    def __init__(self, bbox):
        self.boundingbox = bbox

    def to_crs(self, crs, *a, **k):
        return _GhostGeom(_GhostBBox(crs, ("to_crs", self.boundingbox.tag)))


class _GhostCP:
    """centre-pixel stand-in: .extent is a ghost geometry"""

    def __init__(self):
        self.extent = _GhostGeom(_GhostBBox(None, "centre pixel extent"))


class _GhostDst:
    """result of the first (1x1, tight) from_bbox call of the 'fit' mode"""

    def __init__(self, rx, ry):
        self.resolution = repo(TYPES).Resolution(rx, ry)


_DST_OF = {"same": "EPSG:3857", "same_units": "EPSG:3577", "diff_units": "EPSG:4326", "utm": "EPSG:32633"}


def _dispatch_body(g, crs_case, resolution, shape, anchor, tight, tol, round_resolution):
    m = repo(OVL)
    G = repo(GBX).GeoBox
    GB = repo(GBX).GeoBoxBase
    dst = crs_obj(_DST_OF[crs_case])
    crs_arg = "utm" if crs_case == "utm" else dst
    fp_bbox = _GhostBBox(dst, "footprint")
    log = dict(footprint=[], from_bbox=[], scale=[], rr=[])
    cp = _GhostCP()
    fit_rx, fit_ry = (Real(gt=0).make("fit.rx"), Real(lt=0).make("fit.ry")) if symbolic() else (2.0, -2.0)
    sx, sy = (Real(gt=0).make("fit.sx"), Real(gt=0).make("fit.sy")) if symbolic() else (0.5, 0.25)
    rr_out = Real(gt=0).make("rounded") if symbolic() else 7.0

    _real_footprint_sig = __import__("inspect").signature(GB.footprint)

    def footprint(self, *a, **k):
        # arguments as the REAL footprint would see them: its own defaults apply to whatever the caller leaves out
        b = _real_footprint_sig.bind(self, *a, **k)
        b.apply_defaults()
        log["footprint"].append((self, b.arguments["crs"], b.arguments["buffer"], b.arguments["npoints"]))
        return _GhostGeom(fp_bbox)

    def from_bbox(bbox, crs=None, *, tight=False, shape=None, resolution=None, anchor="default", tol=0.01):
        log["from_bbox"].append(dict(bbox=bbox, crs=crs, tight=tight, shape=shape, resolution=resolution, anchor=anchor, tol=tol))
        if len(log["from_bbox"]) == 1 and shape == (1, 1) and tight is True and getattr(bbox, "tag", None) == ("to_crs", "centre pixel extent"):
            return _GhostDst(fit_rx, fit_ry)
        return ("result-of-from_bbox", len(log["from_bbox"]) - 1)

    def get_scale_at_point(pt, tr, r=None):
        log["scale"].append((pt, tr))
        return repo(TYPES).xy_(sx, sy)

    def native_pix_transform(a, b):
        return ("native_pix_transform", a, b)

    def rr_fn(res, units):
        log["rr"].append((res, units))
        return rr_out

    src_res = repo(TYPES).Resolution(Real(gt=0).make("src.rx"), Real(lt=0).make("src.ry")) if symbolic() else repo(TYPES).Resolution(3.0, -5.0)
    rr = rr_fn if round_resolution == "callable" else round_resolution
    saved_res = GB.__dict__["resolution"]
    saved = (GB.__dict__["footprint"], G.__dict__["from_bbox"], G.__dict__["center_pixel"], m.get_scale_at_point, m.native_pix_transform)
    try:
        GB.footprint = footprint
        G.from_bbox = staticmethod(from_bbox)
        G.center_pixel = property(lambda self: cp)
        GB.resolution = property(lambda self: src_res)  # rotation-shear-scale decomposition: not part of this lemma
        m.get_scale_at_point, m.native_pix_transform = get_scale_at_point, native_pix_transform
        try:
            out = ("return", m.compute_output_geobox(g, crs_arg, resolution=resolution, shape=shape, tight=tight, anchor=anchor, tol=tol, round_resolution=rr))
        except ValueError as e:
            out = ("raise", e)
    finally:
        GB.resolution = saved_res
        GB.footprint, G.from_bbox, G.center_pixel, m.get_scale_at_point, m.native_pix_transform = saved

    claim(len(log["footprint"]) == 1 and log["footprint"][0][0] is g and log["footprint"][0][1] is crs_arg, "the footprint of the source is computed once, in the requested CRS")
    claim(log["footprint"][0][2] == 0.9 and log["footprint"][0][3] == 100, "footprint buffered by 0.9 source pixels, 100 points per side")

    is_default_anchor = isinstance(anchor, str) and anchor == "default"
    if crs_case == "same" and isinstance(resolution, str) and resolution in ("auto", "same") and shape is None and is_default_anchor:
        claim(out[0] == "return" and out[1] is g, "own CRS with default options: the source GeoBox is returned unchanged")
        claim(len(log["from_bbox"]) == 0, "... and nothing is recomputed")
        return
    if shape is None and isinstance(resolution, str) and resolution not in ("auto", "fit", "same"):
        claim(out[0] == "raise", "an unknown resolution keyword is rejected with ValueError")
        return
    claim(out[0] == "return", "no error for a valid request")
    final = log["from_bbox"][-1]
    claim(out[1] == ("result-of-from_bbox", len(log["from_bbox"]) - 1), "the result is what GeoBox.from_bbox returns ...")
    claim(final["bbox"] is fp_bbox and final["crs"] is dst, "... for the bounding box of the footprint, in the CRS the footprint resolved to")
    claim(final["tight"] is tight and final["anchor"] is anchor and final["tol"] is tol and final["shape"] is shape, "tight / anchor / tol / shape are passed through unchanged")
    res = final["resolution"]
    same_units = crs_case in ("same", "same_units", "utm")  # UTM and web-mercator are both in metres
    if shape is not None:
        claim(res is None, "an explicit shape takes precedence: no resolution is passed")
        claim(len(log["from_bbox"]) == 1, "single construction")
    elif isinstance(resolution, str) and (resolution == "same" or (resolution == "auto" and same_units)):
        claim(res is src_res, "'same' (and 'auto' when the CRS units agree): the source resolution")
        claim(len(log["from_bbox"]) == 1, "single construction")
    elif isinstance(resolution, str):
        # fit (or auto with different units)
        claim(len(log["from_bbox"]) == 2 and log["from_bbox"][0]["crs"] is dst, "fit: a 1x1 tight GeoBox of the projected centre pixel in the target CRS seeds the estimate")
        claim(len(log["scale"]) == 1 and log["scale"][0][1][0] == "native_pix_transform" and log["scale"][0][1][2] is cp, "fit: scale estimated at the centre pixel through the pixel-to-pixel transform")
        avg = (Abs(div(fit_rx, sx)) + Abs(div(fit_ry, sy))) / 2
        if round_resolution == "callable":
            claim(len(log["rr"]) == 1 and log["rr"][0][0] == avg and log["rr"][0][1] == dst.units[0], "fit: the rounding callback receives the averaged estimate and the unit name")
            want = rr_out
        elif round_resolution is True:
            want = None
        else:
            want = avg
        if want is not None:
            claim(And(res.x == want, res.y == -want), "fit: square pixels, inverted Y, size = mean of |seed res / scale| over both axes (rounded by the callback when given)")
        else:
            claim(res.x == -res.y, "fit with round_resolution=True: square pixels with inverted Y")
    elif hasattr(resolution, "xy"):
        claim(res is resolution, "an explicit Resolution object is used as is")
    else:
        claim(And(res.x == resolution, res.y == -resolution), "an explicit number: square pixels of that size with inverted Y")


_RES_CASES = OneOf("auto", "fit", "same", "bogus", Real(gt=0), Build(f"{TYPES}:Resolution", Real(gt=0), Real(lt=0)))
_ANCHOR_TIGHT = OneOf(("default", False), ("default", True), ("center", False), (0.25, True))

lemma(
    "output_geobox.dispatch",
    ["C11"],
    inputs=dict(
        g=GEOBOX("EPSG:3857"),
        crs_case=OneOf("same", "same_units", "diff_units", "utm"),
        resolution=_RES_CASES,
        shape=OneOf(None, Tup(Int(ge=1), Int(ge=1)), Int(ge=1)),
        at=_ANCHOR_TIGHT,
        tol=Real(ge=0, le=0.25),
        round_resolution=OneOf(None, True, False, "callable"),
    ),
    body=lambda g, crs_case, resolution, shape, at, tol, round_resolution: _dispatch_body(g, crs_case, resolution, shape, at[0], at[1], tol, round_resolution),
    unstub=[f"{OVL}:compute_output_geobox"],
    note="data-flow / dispatch of the real compute_output_geobox over ghost collaborators (footprint, centre pixel, pyproj-based scale estimate, from_bbox); 'utm' stands for a request that the footprint resolves to a concrete UTM CRS",
)


# ---- utm / utm-n / utm-s: exhaustive over the WGS84 zones -------------------------------------------------------------------------


def _utm_body(zone, south, txt):
    """norm_crs('utm' / 'utm-n' / 'utm-s', ctx) with CRS.utm(ctx) answering the WGS84 UTM CRS of (zone, hemisphere):
    the result is the UTM CRS of the same zone in the requested hemisphere"""
    m = repo(CRSM)
    code = (32700 if south else 32600) + zone
    found = m.CRS(f"EPSG:{code}")
    saved = m.CRS.__dict__["utm"]
    try:
        m.CRS.utm = staticmethod(lambda *a, **k: found)
        out = m.norm_crs(txt, ctx=object())
    finally:
        m.CRS.utm = saved
    z = out.proj.utm_zone
    claim(z is not None and int(z[:-1]) == zone, "same UTM zone number")
    if txt.lower() == "utm":
        claim(out is found, "'utm': the best-overlapping UTM CRS as found")
    else:
        claim(z.endswith("N" if txt.lower() == "utm-n" else "S"), "'utm-n' / 'utm-s': the requested hemisphere")
    claim(out.epsg == (32600 if z.endswith("N") else 32700) + zone, "a WGS84 UTM code")


lemma(
    "norm_crs.utm_hemisphere",
    ["C11"],
    inputs=dict(zone=OneOf(*range(1, 61)), south=Bool(), txt=OneOf("utm", "utm-n", "utm-s", "UTM-N", "Utm-S")),
    body=_utm_body,
    unstub=[f"{CRSM}:norm_crs"],
    note="EXHAUSTIVE enumeration (60 zones x 2 hemispheres x 5 spellings = 600 concrete runs of the real norm_crs against the real pyproj database): complete for the WGS84 datum, which is the only one CRS.utm is asked for here",
)


# ---- BOUNDED end-to-end check on real CRSs (pyproj, shapely: outside the VC generator) ------------------------------------------------


def _sources():
    from affine import Affine

    from odc.geo.geobox import GeoBox

    out = {}
    out["albers_100m_tile"] = GeoBox((1000, 1000), Affine(100.0, 0, 1_500_000.0, 0, -100.0, -3_900_000.0), "EPSG:3577")
    out["utm55s_30m_small"] = GeoBox((256, 256), Affine(30.0, 0, 600_000.0, 0, -30.0, 6_100_000.0), "EPSG:32755")
    out["lonlat_fine"] = GeoBox((400, 300), Affine(0.001, 0, 140.0, 0, -0.001, -35.0), "EPSG:4326")
    out["lonlat_continental"] = GeoBox((700, 900), Affine(0.05, 0, 110.0, 0, -0.05, -10.0), "EPSG:4326")
    out["mercator_europe"] = GeoBox((600, 800), Affine(500.0, 0, 500_000.0, 0, -500.0, 6_800_000.0), "EPSG:3857")
    out["mercator_rotated"] = GeoBox((200, 300), Affine.translation(1_000_000.0, 5_500_000.0) * Affine.rotation(30) * Affine.scale(250.0, -250.0), "EPSG:3857")
    out["utm33n_mirrored_x"] = GeoBox((120, 90), Affine(-20.0, 0, 502_000.0, 0, -20.0, 5_000_000.0), "EPSG:32633")
    out["utm33n_south_up"] = GeoBox((120, 90), Affine(20.0, 0, 500_000.0, 0, 20.0, 4_990_000.0), "EPSG:32633")
    out["equator_straddling"] = GeoBox((400, 400), Affine(0.01, 0, 30.0, 0, -0.01, 2.0), "EPSG:4326")
    # thousands of pixels per side, edges strongly curved in other CRSs: the footprint's densification matters here
    out["laea_europe_1km"] = GeoBox((3200, 3200), Affine(1000.0, 0, 2_600_000.0, 0, -1000.0, 4_700_000.0), "EPSG:3035")
    return out


def _cog_samples():
    from odc.geo import xy_

    thorough = __import__("os").environ.get("PYVC_TIER", "quick") == "thorough"

    def gen():
        srcs = _sources()
        for sname, g in srcs.items():
            australian = sname in ("albers_100m_tile", "utm55s_30m_small", "lonlat_fine", "lonlat_continental")
            targets = ["EPSG:4326", "EPSG:3857", "EPSG:6933", "utm", "utm-n", "utm-s", str(g.crs)]
            if australian:
                targets.append("EPSG:3577")
            if sname in ("lonlat_continental", "laea_europe_1km"):
                targets = [t for t in targets if not t.startswith("utm")]  # wider than any UTM zone's valid area
            for crs in targets:
                geographic = crs == "EPSG:4326"
                explicit = 0.01 if geographic else 1000.0
                opts = [
                    dict(),
                    dict(resolution="fit"),
                    dict(resolution="same") if (crs == str(g.crs)) else dict(resolution="fit", tol=0.05),
                    dict(resolution=explicit),
                    dict(resolution=explicit, anchor="center"),
                    dict(resolution=explicit, anchor=xy_(0.25, 0.75)),
                    dict(resolution=explicit, tight=True),
                    dict(shape=(64, 48)),
                    dict(shape=100),
                ]
                if thorough:
                    opts += [dict(resolution=explicit * 3.7, anchor="floating"), dict(resolution="auto", anchor="center"), dict(shape=(7, 301), tight=True), dict(resolution=explicit, tol=0.2)]
                for o in opts:
                    yield dict(gbox=g, crs=crs, opts=o, name=sname)

    return "10 source GeoBoxes (north-up / rotated / mirrored / south-up, metre and degree based, 8 km tile to 45-degree continental and a 3200 x 3200 km LAEA raster) x 6-8 targets (geographic, Mercator, 2 equal-area, utm/utm-n/utm-s, own CRS) x 9 option sets (13 thorough)", gen()


def _cog_oracle(args, run):
    import math

    import numpy as np

    from odc.geo.crs import CRS

    g, crs, o, name = args["gbox"], args["crs"], args["opts"], args["name"]
    from odc.geo.overlap import compute_output_geobox

    try:
        out = compute_output_geobox(g, crs, **o)
    except Exception as e:  # pylint: disable=broad-except
        return [f"no-exception:{type(e).__name__}: {e}"]
    fails = []
    tol = o.get("tol", 0.01)
    # -- target CRS
    if crs.startswith("utm"):
        z = out.crs.proj.utm_zone
        if z is None:
            fails.append("post:utm request resolves to a UTM CRS")
        else:
            if crs == "utm-n" and not z.endswith("N"):
                fails.append("post:utm-n gives a northern-hemisphere zone")
            if crs == "utm-s" and not z.endswith("S"):
                fails.append("post:utm-s gives a southern-hemisphere zone")
            ge = g.geographic_extent
            lon0 = (int(z[:-1]) - 1) * 6 - 180
            bb = ge.boundingbox
            if not (bb.right >= lon0 - 1e-9 and bb.left <= lon0 + 6 + 1e-9):
                fails.append(f"post:the UTM zone's longitude band overlaps the raster (zone {z}, raster lon {bb.left:.3f}..{bb.right:.3f})")
    elif out.crs != CRS(crs):
        fails.append("post:result is in the requested CRS")
    # -- identity
    own = out.crs == g.crs
    if own and o.get("resolution", "auto") in ("auto", "same") and "shape" not in o and o.get("anchor", "default") == "default":
        # (tight and tol do not matter: nothing is recomputed)
        if out is not g:
            fails.append("post:own CRS with default options returns the source unchanged")
        return fails
    if out is g:
        fails.append("post:a non-default request is not answered with the source itself")
        return fails
    A = out.affine
    if not (A.b == 0 and A.d == 0):
        fails.append("post:axis aligned in the requested CRS")
        return fails
    # -- projected positions of source pixels (corners + centres on a 25 x 25 lattice incl. the image corners)
    ny, nx = g.shape
    nlat = 25 if max(nx, ny) < 2000 else 161  # a large raster's curved edge can bulge between coarse lattice points
    ii = np.unique(np.concatenate([np.linspace(0, nx, nlat), np.asarray([0.5, nx - 0.5])]))
    jj = np.unique(np.concatenate([np.linspace(0, ny, nlat), np.asarray([0.5, ny - 0.5])]))
    px, py = np.meshgrid(ii, jj)
    wx, wy = g.affine * (px.ravel(), py.ravel())
    tr = g.crs.transformer_to_crs(out.crs)
    tx, ty = tr(wx, wy)
    ox, oy = (~A) * (np.asarray(tx), np.asarray(ty))
    ony, onx = out.shape
    if "shape" not in o:
        worst = max(-ox.min(), ox.max() - onx, -oy.min(), oy.max() - ony)
        if not worst <= tol + 1e-9:
            fails.append(f"post:contains the projected position of every source pixel up to tol={tol} of an output pixel (worst excess {worst:.4f} px)")
    # -- alignment
    rx, ry = A.a, A.e
    left, top = A.c, A.f
    bottom = top + ry * ony if ry < 0 else top
    x_lo = left if rx > 0 else left + rx * onx

    def frac_ok(v, unit, want):
        q = v / abs(unit) - want
        return abs(q - round(q)) < 1e-6 * max(1.0, abs(q)) + 1e-7

    if "shape" not in o and not o.get("tight", False):
        anchor = o.get("anchor", "default")
        if isinstance(anchor, str):
            want = {"default": (0.0, 0.0), "center": (0.5, 0.5)}.get(anchor)
        else:
            want = (anchor.x, anchor.y)
        if want is not None and not (frac_ok(x_lo, rx, want[0]) and frac_ok(bottom, ry, want[1])):
            fails.append(f"post:pixel edges at the requested fraction {want} of a pixel from the CRS origin (left {x_lo!r}, bottom {bottom!r}, res {rx!r},{ry!r})")
    # -- resolution
    if "shape" not in o:
        r = o.get("resolution", "auto")
        if isinstance(r, (int, float)):
            if not (rx == r and ry == -r):
                fails.append("post:explicit resolution is used (square, inverted Y)")
        elif r == "same" or (r == "auto" and g.crs.units == out.crs.units):
            if not (out.resolution == g.resolution):
                fails.append("post:same units: the default resolution is the source resolution")
        else:
            if not (rx > 0 and ry == -rx):
                fails.append("post:fit: square pixels with inverted Y")
    else:
        shp = o["shape"]
        if isinstance(shp, int):
            if max(out.shape) == shp + 1 and not o.get("tight", False):
                fails.append("post:longest side is the requested number of pixels (one more)")
            elif max(out.shape) != shp:
                fails.append(f"post:longest side is the requested number of pixels, or one more when snapped (asked {shp}, got {tuple(out.shape)})")
        elif tuple(out.shape) != tuple(shp):
            fails.append("post:exactly the requested shape")
        fp = g.footprint(out.crs, buffer=0.9, npoints=100).boundingbox
        ob = out.boundingbox
        d = max(abs(ob.left - fp.left) / abs(rx), abs(ob.top - fp.top) / abs(ry))
        lim = 1.0 + tol if not o.get("tight", False) else 1e-6
        if not d < lim:
            fails.append(f"post:displaced from the projected footprint by less than one pixel (top-left off by {d:.4f} px)")
    return fails


contract(
    f"{OVL}:compute_output_geobox",
    ["C11"],
    ensures=[("requested CRS (utm: a UTM zone over the raster, requested hemisphere); identity for own CRS + defaults; axis aligned; encloses every projected source pixel up to tol; anchor alignment; resolution rules; shape requests", lambda result: True)],
    verify=False,
    trusted_reason="end to end over pyproj + shapely (footprint densification, projection): BOUNDED native check; the dispatch, from_bbox arithmetic and utm hemisphere arithmetic are proved separately",
    native_samples=_cog_samples,
    native_oracle=_cog_oracle,
)


# ---- footprint: the buffer grows the extent, whatever the orientation of the grid ---------------------------------------------------


def _footprint_body(g, rx, ry, buffer, npoints):
    GB = repo(GBX).GeoBoxBase
    T = repo(TYPES)
    log = []

    class Ext:
        def __init__(self, tag):
            self.tag = tag

        def buffer(self, d):
            log.append(("buffer", self.tag, d))
            return Ext(("buffered", self.tag, d))

        def to_crs(self, crs, resolution=None, **kw):
            log.append(("to_crs", self.tag, crs, resolution))
            return Ext(("to_crs", self.tag))

        def dropna(self):
            return Ext(("dropna", self.tag))

    ext = Ext("extent")
    dst = crs_obj("EPSG:4326")
    saved = (GB.__dict__["extent"], GB.__dict__["resolution"], GB.__dict__["_reproject_resolution"])
    try:
        GB.extent = property(lambda self: ext)
        GB.resolution = property(lambda self: T.Resolution(rx, ry))
        GB._reproject_resolution = lambda self, npoints=100: ("reproject-resolution", npoints)
        out = GB.footprint(g, dst, buffer, npoints)
    finally:
        GB.extent, GB.resolution, GB._reproject_resolution = saved
    bufs = [e for e in log if e[0] == "buffer"]
    if isinstance(buffer, (int, float)) and buffer == 0:
        claim(not bufs, "no buffering asked for")
        projected = "extent"
    else:
        claim(len(bufs) == 1 and bufs[0][1] == "extent", "the extent is buffered once")
        d = bufs[0][2]
        claim(d == buffer * Max(Abs(rx), Abs(ry)), "buffer distance = requested number of source pixels x the larger absolute pixel size")
        claim(Implies(buffer > 0, d > 0), "a positive buffer grows the extent for every orientation of the grid (mirrored, south-up)")
        projected = ("buffered", "extent", d)
    tc = [e for e in log if e[0] == "to_crs"]
    claim(len(tc) == 1 and tc[0][1] == projected and tc[0][2] is dst and tc[0][3] == ("reproject-resolution", npoints), "the (buffered) extent is densified with the per-side resolution and projected to the requested CRS")
    claim(out.tag == ("dropna", ("to_crs", projected)), "non-finite vertices dropped from the projected footprint")


lemma(
    "geobox.footprint_buffer",
    ["C11", "C12"],
    inputs=dict(g=GEOBOX("EPSG:3857"), rx=OneOf(Real(gt=0), Real(lt=0)), ry=OneOf(Real(gt=0), Real(lt=0)), buffer=OneOf(0, Real(gt=0)), npoints=Int(ge=1)),
    body=_footprint_body,
    note="data flow of the real GeoBoxBase.footprint over a ghost extent; the geometry of buffering / densifying / projecting is shapely's and pyproj's (assumed; bounded end-to-end check)",
)
