"""
Contract for CRS.__eq__ / __ne__  (C01: every mismatch guard is `a.crs != b.crs`; C19: equality law).

The pyproj object and the string of a CRS are replaced by stand-ins that expose exactly what
CRS.__eq__ uses (identity, `==`):

  _crs : PyprojStandIn(k)  -- k is the equivalence class of the CRS under pyproj's `==`
                              (ASSUMED to be an equivalence relation); `a == b` is `a.k == b.k`
  _str : StrStandIn(sid)   -- `==` is `sid == sid`
  _epsg: 0 (EPSG_UNSET, not looked up yet) | None (looked up: no code) | n >= 1

Representation invariant wf(c) (what _make_crs / to_epsg establish; stated, not verified: pyproj):
  * _epsg = n >= 1  ==>  EPSG(k) == n          (the cached code is the code of the pyproj object)
  * _epsg is None   ==>  EPSG(k) == 0          (looked up and there is none)
  * STRCLS(sid) == k                           (the string is "EPSG:n" or the WKT: it determines the CRS)
  with EPSG an uninterpreted function of the class such that equal non-zero codes mean equal classes
  (stated as requires of the contract: EPSG(k1) == EPSG(k2) != 0  ==>  k1 == k2).

Postcondition: `self == other`  <=>  same class.  A body that answers from the cached codes without
both being real codes (None == None, 0 == 0) fails it.
"""
from pyvc.api import *  # noqa: F401,F403

CRS = "odc.geo.crs"

_FN = {}


def _fn(name):
    import z3

    if name not in _FN:
        _FN[name] = z3.Function(name, z3.IntSort(), z3.IntSort())
    return _FN[name]


def EPSG(k):
    if not symbolic():
        return _NATIVE_EPSG.get(k, 0)
    from pyvc.sym import SymInt, term_of

    return SymInt(_fn("epsg_of_class")(term_of(k)[0]))


def STRCLS(sid):
    if not symbolic():
        return _NATIVE_STRCLS.get(sid, sid)
    from pyvc.sym import SymInt, term_of

    return SymInt(_fn("class_of_str")(term_of(sid)[0]))


# native interpretation used by replay: built from the witness objects themselves
_NATIVE_EPSG = {}
_NATIVE_STRCLS = {}


class PyprojStandIn:
    __hash__ = None

    def __init__(self, k):
        self.k = k

    def __eq__(self, o):
        if isinstance(o, PyprojStandIn):
            return self.k == o.k
        return NotImplemented

    def __ne__(self, o):
        return Not(self.k == o.k) if symbolic() else not self.k == o.k

    def __repr__(self):
        return f"PyprojStandIn({self.k!r})"

    def __vc_src__(self, model, c):
        from pyvc.engine import to_src

        return f"R('contracts.crs_c:PyprojStandIn')({to_src(self.k, model, c)})"


class StrStandIn:
    __hash__ = None

    def __init__(self, sid):
        self.sid = sid

    def __eq__(self, o):
        if isinstance(o, StrStandIn):
            return self.sid == o.sid
        return NotImplemented

    def __repr__(self):
        return f"StrStandIn({self.sid!r})"

    def __vc_src__(self, model, c):
        from pyvc.engine import to_src

        return f"R('contracts.crs_c:StrStandIn')({to_src(self.sid, model, c)})"


def _crs_shape(shared_pyproj=None):
    return Obj(
        f"{CRS}:CRS",
        _crs=Custom(lambda nm: PyprojStandIn(Int().make(nm + ".k")), "pyproj object of class k"),
        _str=Custom(lambda nm: StrStandIn(Int().make(nm + ".sid")), "string spelling sid"),
        _epsg=OneOf(0, None, Int(ge=1)),
    )


def wf_crs(c):
    k = c._crs.k
    e = c._epsg
    parts = [STRCLS(c._str.sid) == k]
    if e is None:
        parts.append(EPSG(k) == 0)
    elif isinstance(e, int) and e == 0:
        pass
    else:
        parts.append(EPSG(k) == e)
    return And(*parts)


def _epsg_injective(a, b):
    ka, kb = a._crs.k, b._crs.k
    return Implies(And(EPSG(ka) == EPSG(kb), EPSG(ka) != 0), ka == kb)


def _eq_oracle(args, run=None):
    """native replay: interpret EPSG/STRCLS from the witness objects, then evaluate the clauses"""
    a, b = args["self"], args["other"]
    _NATIVE_EPSG.clear()
    _NATIVE_STRCLS.clear()
    for c in (a, b):
        if hasattr(c, "_crs"):
            if isinstance(c._epsg, int) and c._epsg >= 1:
                _NATIVE_EPSG[c._crs.k] = c._epsg
            _NATIVE_STRCLS[c._str.sid] = c._crs.k
    kind, val = run()
    if kind == "raise":
        return [f"no-exception:{type(val).__name__}"]
    if not hasattr(b, "_crs"):
        return [] if val is False else ["post:a CRS never equals None"]
    # the witness must satisfy the invariant under the native interpretation (distinct sids for
    # distinct classes, codes consistent): otherwise it is outside the precondition
    if a._str.sid == b._str.sid and a._crs.k != b._crs.k:
        return []
    if _NATIVE_EPSG.get(a._crs.k, 0) == _NATIVE_EPSG.get(b._crs.k, 0) != 0 and a._crs.k != b._crs.k:
        return []
    want = a._crs.k == b._crs.k
    return [] if bool(val) == want else [f"post:equal iff same CRS (got {val!r}, classes {a._crs.k} / {b._crs.k}, cached codes {a._epsg!r} / {b._epsg!r})"]


contract(
    f"{CRS}:CRS.__eq__",
    ["C01", "C19"],
    inputs=[dict(self=_crs_shape(), other=_crs_shape()), dict(self=_crs_shape(), other=None)],
    requires=[
        # NO assumption that equal EPSG codes mean equal CRSs (pyproj identifies a lon/lat proj4 string with EPSG:4326 without
        # holding the two equal): only that the code is a FUNCTION of the pyproj class, which the uninterpreted EPSG(k) is
        lambda self, other: And(wf_crs(self), wf_crs(other)) if other is not None else wf_crs(self),
    ],
    ensures=[
        (
            "equal iff same CRS (same pyproj equivalence class), whatever was cached on either object before; never equal to None",
            lambda self, other, result: (result is False) if other is None else Iff(result, self._crs.k == other._crs.k),
        )
    ],
    returns=lambda self, other: SymBoolShape(),
    inline=True,  # callers hold concrete CRS objects: they run the real __eq__, never this stub
    native_oracle=_eq_oracle,
    note="pyproj's == is assumed an equivalence under which the EPSG code is a function of the class (NOT the converse: equal codes settle nothing); cached codes/strings are tied to the pyproj object by the stated invariant",
)

contract(
    f"{CRS}:CRS.__ne__",
    ["C01", "C19"],
    inputs=[dict(self=_crs_shape(), other=_crs_shape()), dict(self=_crs_shape(), other=None)],
    requires=[
        lambda self, other: And(wf_crs(self), wf_crs(other)) if other is not None else wf_crs(self),
    ],
    ensures=[
        (
            "differs iff not the same CRS; always differs from None",
            lambda self, other, result: (result is True) if other is None else Iff(result, Not(self._crs.k == other._crs.k)),
        )
    ],
    returns=lambda self, other: SymBoolShape(),
    inline=True,  # callers hold concrete CRS objects: they run the real __eq__, never this stub
    native_oracle=lambda args, run=None: [x.replace("equal iff", "differs iff not") for x in _ne_oracle(args, run)],
)


def _ne_oracle(args, run):
    def run_eq():
        kind, val = run()
        return (kind, (not val) if kind == "return" else val)

    return _eq_oracle(args, run_eq)


# ---- to_epsg: the cached code is pyproj's own answer at its default confidence (what makes the EPSG fast path of == sound) ------------


def _lemma_to_epsg(state, code_default, code_lenient, projected):
    m = repo(CRS)
    log = []

    class Recorder:
        """stand-in pyproj CRS: to_epsg() answers code_default (0 = no code) at the default confidence and code_lenient
        when asked to lower it -- a looser match that pyproj's == does NOT honour"""

        is_projected = projected

        def to_epsg(self, *a, **k):
            log.append((a, k))
            v = code_lenient if (a or k) else code_default
            return None if (isinstance(v, int) and v == 0) else v

    c = object.__new__(m.CRS)
    c._crs, c._str = Recorder(), "whatever"
    c._epsg = {"unset": m.EPSG_UNSET, "none": None, "known": 4326}[state]
    r1 = c.to_epsg()
    r2 = c.epsg
    want = None if (isinstance(code_default, int) and code_default == 0) else code_default
    if state == "unset":
        claim(len(log) >= 1 and log[0] == ((), {}), "the code is looked up with pyproj's default confidence")
        claim(all(call == ((), {}) for call in log), "... and never with a lowered one: a looser match is not an identity pyproj's == agrees with")
        claim(r1 is want or r1 == want, "the answer is pyproj's")
        claim(len(log) == 1 and (r2 is r1 or r2 == r1), "looked up once, then cached")
    else:
        claim(log == [] and r1 == {"none": None, "known": 4326}[state] and r2 == r1, "a cached answer is returned as is")


lemma(
    "crs.to_epsg_is_pyproj_default",
    ["C01", "C19"],
    inputs=dict(state=OneOf("unset", "none", "known"), code_default=OneOf(0, Int(ge=1)), code_lenient=Int(ge=1), projected=Bool()),
    body=_lemma_to_epsg,
    unstub=[f"{CRS}:CRS.to_epsg"],
    note="the lazily cached EPSG code that CRS.__eq__'s fast path compares is exactly pyproj's default-confidence identification (the assumption 'pyproj == is consistent with EPSG codes' is about THAT code)",
)
