"""
Contracts for the CRS-mismatch guards.   Property: C01 (operations never silently mix CRSs).

Abstract CRS domain: a CRS tag is `None` or an AbsCRS whose equivalence class is a symbolic integer;
`a == b` is "same class" (pyproj equality is ASSUMED to be an equivalence relation; that the same CRS
in another spelling compares equal is pyproj's doing and is exercised only by the bounded catalogue).
Operands are stand-ins exposing what the guards use (.crs, .geom); shapely is replaced by a ghost
shape algebra whose operations return tagged results, so "returns exactly what shapely returns on the
raw shapes" is checked as: the result is the ghost result of the SAME operation on the raw operands.
The real repository functions run on these stand-ins.
"""
from pyvc.api import *  # noqa: F401,F403

GEOM = "odc.geo.geom"
GBX = "odc.geo.geobox"


class AbsCRS:
    def __init__(self, cls):
        self.cls = cls

    def __eq__(self, o):
        if o is None:
            return False
        if isinstance(o, AbsCRS):
            return self.cls == o.cls
        return NotImplemented

    def __ne__(self, o):
        r = self.__eq__(o)
        return r if r is NotImplemented else Not(r)

    __hash__ = None

    def __repr__(self):
        return "<AbsCRS>"


EMPTY_MODE = ["never"]  # which stand-in shapes report is_empty: "never" | "derived" (every result of an operation) | "all"


class GhostShape:
    """stand-in for a shapely geometry: every operation returns a record of (operation, operands)"""

    def __init__(self, tag, args=()):
        self.tag, self.args = tag, args

    @property
    def is_empty(self):
        return {"never": False, "derived": bool(self.args), "all": True}[EMPTY_MODE[0]]

    def __getattr__(self, name):
        if name.startswith("__") and name not in ("__and__", "__or__", "__xor__", "__sub__"):
            raise AttributeError(name)

        def op(*others):
            if name in ("contains", "covers", "crosses", "disjoint", "intersects", "touches", "within", "overlaps"):
                return ("bool-of", name, self, others)
            return GhostShape(name, (self,) + others)

        return op

    def __and__(self, o):
        return GhostShape("__and__", (self, o))

    def __or__(self, o):
        return GhostShape("__or__", (self, o))

    def __xor__(self, o):
        return GhostShape("__xor__", (self, o))

    def __sub__(self, o):
        return GhostShape("__sub__", (self, o))

    @property
    def geoms(self):
        return [GhostShape("part0", (self,)), GhostShape("part1", (self,))]


class GhostGeometry:
    """what Geometry(shape, crs) is replaced by while a lemma runs"""

    def __init__(self, geom=None, crs=None):
        self.geom, self.crs = geom, crs

    @property
    def is_empty(self):
        return self.geom.is_empty

    intersection = None  # set below (the real, shadow-loaded wrapped method)


class _Base:
    BaseGeometry = GhostShape


def _operand(name, kind, cls):
    """kind: 'none' or 'crs' -> stand-in Geometry with that tag (cls: the CRS equivalence class)"""
    crs = None if kind == "none" else AbsCRS(cls)
    return GhostGeometry(GhostShape(name), crs)


def _same(a, b):
    if a is None or b is None:
        return a is None and b is None
    return a.cls == b.cls


def _with_ghosts(fn):
    """run fn with geom.Geometry / geom.base / geom.ops replaced by the ghosts"""
    m = repo(GEOM)
    saved = (m.Geometry, m.base, m.ops, m._multigeom)
    GhostGeometry.intersection = m.Geometry.__dict__["intersection"]

    class _Ops:
        @staticmethod
        def split(a, b):
            return GhostShape("ops.split", (a, b))

        @staticmethod
        def unary_union(gs):
            return GhostShape("ops.unary_union", tuple(gs))

    try:
        m.Geometry, m.base, m.ops = GhostGeometry, _Base, _Ops
        m._multigeom = lambda gs: GhostShape("_multigeom", tuple(gs))
        return fn(m, saved[0])
    finally:
        m.Geometry, m.base, m.ops, m._multigeom = saved


def _outcome(call):
    try:
        return ("ok", call())
    except ValueError as e:  # CRSMismatchError is a ValueError
        return ("ValueError", e)


def _check_binary(out, a, b, opname):
    mismatch = Not(_same(a.crs, b.crs))
    if out[0] == "ValueError":
        claim(mismatch, f"{opname}: a CRS-mismatch error is raised only when the operands' CRSs differ")
        return
    claim(Not(mismatch), f"{opname}: operands with different CRSs (incl. exactly one without a CRS) are rejected, never combined")
    res = out[1]
    if isinstance(res, GhostGeometry):
        claim(res.crs is a.crs, f"{opname}: the result is tagged with the operands' CRS")
        res = res.geom
        claim(isinstance(res, GhostShape) and res.tag == opname and res.args == (a.geom, b.geom), f"{opname}: the result is exactly what shapely's {opname} returns on the raw shapes")
    else:
        claim(res == ("bool-of", opname, a.geom, (b.geom,)), f"{opname}: the result is exactly what shapely's {opname} returns on the raw shapes")


_KINDS = [(ka, kb) for ka in ("none", "crs") for kb in ("none", "crs")]
_WRAPPED = ("contains", "covers", "crosses", "disjoint", "intersects", "touches", "within", "overlaps", "difference", "intersection", "symmetric_difference", "union", "__and__", "__or__", "__xor__", "__sub__")


def _wrapped_body(ka, kb, opname, ca, cb):
    a, b = _operand("a", ka, ca), _operand("b", kb, cb)

    def run(m, RealGeometry):
        wrapped = RealGeometry.__dict__[opname]  # the real closure produced by wrap_shapely
        return _outcome(lambda: wrapped(a, b))

    _check_binary(_with_ghosts(run), a, b, opname)


lemma(
    "crsguard.wrapped_methods",
    ["C01"],
    inputs=[dict(ka=ka, kb=kb, opname=op, ca=Int(), cb=Int()) for ka, kb in _KINDS for op in _WRAPPED],
    body=_wrapped_body,
    note="all 16 @wrap_shapely methods of Geometry (8 predicates, 8 set operations) x ordered pairs of CRS tags (none / symbolic class): the real `wrapped` closure and the real method body run on stand-in operands",
)


def _split_body(ka, kb, ca, cb):
    a, b = _operand("a", ka, ca), _operand("b", kb, cb)

    def run(m, RealGeometry):
        return _outcome(lambda: list(RealGeometry.split(a, b)))

    out = _with_ghosts(run)
    mismatch = Not(_same(a.crs, b.crs))
    if out[0] == "ValueError":
        claim(mismatch, "split: error only for differing CRSs")
    else:
        claim(Not(mismatch), "split: differing CRSs are rejected")
        parts = out[1]
        claim(all(p.crs is a.crs for p in parts), "split: every part is tagged with the operands' CRS")
        claim(all(p.geom.args[0].tag == "ops.split" and p.geom.args[0].args == (a.geom, b.geom) for p in parts), "split: parts are those of shapely.ops.split on the raw shapes")


lemma("crsguard.split", ["C01"], inputs=[dict(ka=ka, kb=kb, ca=Int(), cb=Int()) for ka, kb in _KINDS], body=_split_body)


def _kinds_n(n):
    import itertools

    return list(itertools.product(("none", "crs"), repeat=n))


def _collection_body(kinds, fname, classes, empty_mode="never"):
    gs = [_operand(f"g{i}", k, c) for i, (k, c) in enumerate(zip(kinds, classes))]

    def run(m, RealGeometry):
        return _outcome(lambda: getattr(m, fname)(list(gs)))

    EMPTY_MODE[0] = empty_mode
    try:
        out = _with_ghosts(run)
    finally:
        EMPTY_MODE[0] = "never"
    mismatch = Or(*[Not(_same(gs[0].crs, g.crs)) for g in gs[1:]]) if len(gs) > 1 else False
    if out[0] == "ValueError":
        claim(mismatch, f"{fname}: error only when some operand's CRS differs from the first's")
        return
    claim(Not(mismatch), f"{fname}: collections mixing CRSs (incl. some operands without a CRS) are rejected")
    res = out[1]
    if fname == "common_crs":
        claim(res is gs[0].crs, "common_crs: returns the common CRS")
        return
    claim(res.crs is gs[0].crs, f"{fname}: the result is tagged with the operands' CRS")
    if fname == "unary_union":
        claim(res.geom.tag == "ops.unary_union" and res.geom.args == tuple(g.geom for g in gs), "unary_union: shapely's unary_union of the raw shapes, in order")
    if fname == "multigeom":
        claim(res.geom.tag == "_multigeom" and res.geom.args == tuple(g.geom for g in gs), "multigeom: built from the raw shapes, in order")
    if fname == "unary_intersection":
        acc = gs[0].geom
        for g in gs[1:]:
            claim(True, "fold")
        # the left fold of shapely's intersection over the raw shapes; once a prefix of the fold is EMPTY the rest of the
        # fold cannot change it, so that prefix itself is an equally good answer (the CRS check above applies regardless)
        def is_fold(t, upto):
            for g in reversed(gs[1:upto]):
                if not (isinstance(t, GhostShape) and t.tag == "intersection" and t.args[1] is g.geom):
                    return False
                t = t.args[0]
            return t is gs[0].geom

        t = res.geom
        full = is_fold(t, len(gs))
        prefix_ok = False
        if empty_mode != "never":
            EMPTY_MODE[0] = empty_mode
            try:
                prefix_ok = any(is_fold(t, k) and t.is_empty for k in range(1, len(gs)))
            finally:
                EMPTY_MODE[0] = "never"
        claim(full or prefix_ok, "unary_intersection: left fold of shapely's intersection over the raw shapes (or an empty prefix of it)")


for _fname in ("common_crs", "multigeom", "unary_union", "unary_intersection"):
    lemma(
        f"crsguard.{_fname}",
        ["C01"],
        inputs=[dict(kinds=k, fname=_fname, classes=Tup(*[Int()] * n), empty_mode=em) for n in (1, 2, 3) for k in _kinds_n(n) for em in (("never", "derived", "all") if _fname == "unary_intersection" else ("never",))],
        body=_collection_body,
        note="collections of 1-3 operands, every combination of CRS tags (none / symbolic class per operand); unary_intersection also with intermediate results / all shapes reporting is_empty (an emptiness shortcut must not skip the CRS check)",
    )


def _intersects_body(ka, kb, ca, cb):
    a, b = _operand("a", ka, ca), _operand("b", kb, cb)

    def run(m, RealGeometry):
        # geom.intersects(a, b) = a.intersects(b) and not a.touches(b): both go through `wrapped`
        a.intersects = lambda o: RealGeometry.__dict__["intersects"](a, o)
        a.touches = lambda o: RealGeometry.__dict__["touches"](a, o)
        return _outcome(lambda: m.intersects(a, b))

    out = _with_ghosts(run)
    mismatch = Not(_same(a.crs, b.crs))
    if out[0] == "ValueError":
        claim(mismatch, "intersects(): error only for differing CRSs")
    else:
        claim(Not(mismatch), "intersects(): differing CRSs are rejected")


lemma("crsguard.intersects_function", ["C01"], inputs=[dict(ka=ka, kb=kb, ca=Int(), cb=Int()) for ka, kb in _KINDS], body=_intersects_body)


# ---- census: no combining operation is left without a guard contract ----------------------------------------------------------------

_COVERED = {
    # geom.py
    "Geometry." + n for n in _WRAPPED
} | {"Geometry.split", "common_crs", "multigeom", "unary_union", "unary_intersection", "intersects", "bbox_union", "bbox_intersection", "BoundingBox.__and__", "BoundingBox.__or__"} | {
    # geobox.py
    "pixel_translation", "bounding_box_in_pixel_domain", "geobox_union_conservative", "geobox_intersection_conservative", "GeoBox.__or__", "GeoBox.__and__", "GeoBox.overlap_roi", "GeoBox.snap_to",
}
_EXEMPT = {
    "Geometry.__eq__": "comparison, not a combination (unequal CRSs compare unequal)",
    "GeoBoxBase.compute_crop": "reprojects the region into the GeoBox's CRS (GeoBox.project) instead of combining coordinates",
    "GeoBox.enclosing": "reprojects the region (GeoBox.project)",
    "GeoboxTiles.grid_intersect": "reprojects footprints (footprint(4326) / to_crs) before intersecting; same-CRS path compares CRSs explicitly",
    "GeoboxTiles._check_linear": "helper of grid_intersect: returns None unless the CRSs are equal",
    "GeoboxTiles._grid_intersect_linear": "only called after _check_linear established equal CRSs",
    "sides": "single operand",
    "GeoBoxBase.project": "reprojects the geometry into the GeoBox's CRS (to_crs) -- a geometry without a CRS is taken to be in pixel space by contract",
    "GeoboxTiles.__init__": "constructor: one GeoBox",
    "GeoboxTiles.range_from_bbox": "a box with a CRS is projected into pixel space (GeoBox.project); a box without one is in pixel space by contract",
    "GeoboxTiles._tiles_from_pix_bbox": "pixel-space box by contract (caller checked crs is None)",
    "GeoboxTiles.tiles": "reprojects the query (to_crs) when its CRS differs",
    "_multigeom": "raw shapely shapes, no CRS involved (called by multigeom after common_crs)",
    "GeoboxTiles.__eq__": "comparison",
    "GeoBox.__eq__": "comparison",
    "BoundingBox.__eq__": "comparison",
}


def _census_body():
    import ast
    import inspect

    found = {}
    for modname in (GEOM, GBX):
        mod = repo(modname)
        if symbolic():
            from pyvc import shadow

            src = shadow.LOADED_SOURCES[modname]
        else:
            src = inspect.getsource(mod)
        tree = ast.parse(src)
        TYPES_ = ("Geometry", "BoundingBox", "GeoBox", "GeoBoxBase", "GeoboxTiles")

        def is_geo(ann):
            if ann is None:
                return 0
            t = ast.unparse(ann).replace('"', "").replace("'", "")
            if any(t == x for x in TYPES_):
                return 1
            if any(t.startswith(p) and any(x in t for x in TYPES_) for p in ("Iterable[", "List[", "Sequence[", "Iterator[")):
                return 2
            return 0

        def visit(body, prefix, cls=None):
            for n in body:
                if isinstance(n, ast.ClassDef):
                    visit(n.body, prefix + n.name + ".", n.name)
                elif isinstance(n, ast.FunctionDef):
                    args = n.args.args + n.args.kwonlyargs
                    score = sum(is_geo(a.annotation) for a in args)
                    if cls in TYPES_ and args and args[0].arg == "self":
                        score += 1
                    if score >= 2:
                        found[prefix + n.name] = modname

        visit(tree.body, "")
    missing = sorted(k for k in found if k not in _COVERED and k not in _EXEMPT)
    claim(not missing, f"every operation taking two or more CRS-tagged operands has a guard contract or a stated exemption (unaccounted: {missing})")
    claim(len(found) >= 20, f"the census sees the API ({len(found)} combining operations)")


lemma("crsguard.census", ["C01"], inputs=dict(), body=_census_body, note="structural: a newly added combining operation that is neither under a guard contract nor exempted fails this obligation")


# ---- bounded catalogue on the real objects ---------------------------------------------------------------------------------------------


def _cat_samples():
    import itertools

    from pyproj import CRS as P

    from odc.geo import geom

    wkt4326 = P.from_epsg(4326).to_wkt()
    tags = {"none": None, "geographic": "EPSG:4326", "projected": "EPSG:3857", "other_spelling": wkt4326}
    shapes = {
        "point": lambda c: geom.point(1, 2, c),
        "line": lambda c: geom.line([(0, 0), (3, 3)], c),
        "polygon": lambda c: geom.polygon([(0, 0), (0, 4), (4, 4), (4, 0), (0, 0)], c),
        "polygon_hole": lambda c: geom.polygon([(0, 0), (0, 9), (9, 9), (9, 0), (0, 0)], c, [(2, 2), (2, 3), (3, 3), (3, 2), (2, 2)]),
        "multipolygon": lambda c: geom.multipolygon([[[(0, 0), (0, 2), (2, 2), (2, 0), (0, 0)]], [[(5, 5), (5, 6), (6, 6), (6, 5), (5, 5)]]], c),
    }

    def gen():
        for (ta, tb), (sa, sb) in itertools.product(itertools.product(tags, repeat=2), [("polygon", "polygon_hole"), ("line", "polygon"), ("point", "multipolygon"), ("multipolygon", "polygon")]):
            yield dict(ta=ta, tb=tb, a=shapes[sa](tags[ta]), b=shapes[sb](tags[tb]))

    return "4 CRS tags (none, geographic, projected, EPSG:4326 spelled as WKT) squared x 4 pairs of geometry kinds x 16 methods + split/intersects/unary ops/multigeom/bbox ops", gen()


def _cat_body(ta, tb, a, b):
    import shapely

    from odc.geo import geom

    same = {"other_spelling": "geographic"}.get(ta, ta) == {"other_spelling": "geographic"}.get(tb, tb)
    ops = [(n, (lambda n: lambda: getattr(a, n)(b))(n), (lambda n: lambda: getattr(a.geom, n)(b.geom))(n)) for n in _WRAPPED]
    ops += [
        ("unary_union", lambda: geom.unary_union([a, b]), lambda: shapely.ops.unary_union([a.geom, b.geom])),
        ("unary_intersection", lambda: geom.unary_intersection([a, b]), lambda: a.geom.intersection(b.geom)),
        ("intersects()", lambda: geom.intersects(a, b), lambda: a.geom.intersects(b.geom) and not a.geom.touches(b.geom)),
        ("bbox_union", lambda: a.boundingbox | b.boundingbox, None),
        ("bbox_intersection", lambda: a.boundingbox & b.boundingbox, None),
    ]
    for name, call, raw in ops:
        try:
            r = call()
            raised = False
        except ValueError:
            raised = True
        claim(raised == (not same), f"{name}: ValueError exactly when the CRSs differ ({ta} vs {tb})")
        if not raised and raw is not None:
            want = raw()
            if isinstance(r, geom.Geometry):
                claim(r.crs == a.crs and r.geom.equals(want) or (r.geom.is_empty and want.is_empty), f"{name}: shapely's result on the raw shapes, tagged with the operands' CRS")
            else:
                claim(r == want, f"{name}: shapely's result on the raw shapes")


lemma(
    "crsguard.catalogue_bounded",
    ["C01"],
    inputs=dict(ta="none", tb="none", a=None, b=None),
    body=_cat_body,
    verify=False,
    trusted_reason="real pyproj / shapely objects: BOUNDED native catalogue (this is where 'same CRS in another spelling compares equal' is exercised)",
    native_samples=_cat_samples,
)
