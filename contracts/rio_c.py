"""
Contracts for odc/geo/cog/_rio.py   (C15: GeoTIFF/COG written through GDAL reads back identical).

What a contract can decide here is the library's OWN part of the write:

  check_write_path        proved over a ghost file system (exists / unlink): IOError iff the file exists and
                          overwriting was not requested, removed iff it exists and it was, nothing else touched
  _default_cog_opts       proved: tiled, block sides from adjust_blocksize (multiples of 16, C05 contract),
                          predictor by dtype kind, caller's options override
  _norm_compression_opts  proved (exact)
  _write_cog              data-flow lemma over a ghost rasterio: band-layout normalisation, default overview
                          levels (none under 512 px, 2..32 otherwise), overwrite guard BEFORE anything is
                          opened and never for ':mem:', creation options of the final file (size, count, dtype,
                          CRS, transform, nodata, block sizes), pixels written once with the right band
                          indexes, overviews built with exactly the requested levels before the copy with
                          copy_src_overviews
  write_cog / write_cog_layers   data-flow lemma: nodata = explicit keyword else attrs, for computed AND
                          externally supplied overviews; every layer written to its side-car; copy with the
                          same creation options

That GDAL encodes and an independent reader decodes the same pixels / transform / CRS / nodata is GDAL's and
tifffile's behaviour: ASSUMED, with a BOUNDED native round-trip check (rasterio + tifffile read-back).
"""
from pyvc.api import *  # noqa: F401,F403

from .cog_c import mult16

RIO = "odc.geo.cog._rio"
SH = "odc.geo.cog._shared"


# =====================================================================================================
# BOUNDED native round trip
# =====================================================================================================


def _mk_pix(shape, layout, dtype, nbands, seed, zero_region=False):
    import numpy as np

    h, w = shape
    rng = np.random.default_rng(seed)
    info_kind = np.dtype(dtype).kind
    if info_kind == "f":
        base = rng.normal(0, 1000, size=(nbands, h, w)).astype(dtype)
    else:
        ii = np.iinfo(dtype)
        base = rng.integers(ii.min, ii.max, size=(nbands, h, w), endpoint=True, dtype=dtype)
    if zero_region:
        base[:, : (2 * h) // 3, : (2 * w) // 3] = 0  # genuine zeros over whole blocks, in every band (valid data, not nodata)
    for b in range(nbands):
        base[b].flat[0] = b + 1  # bands are distinguishable even for 1x1 images
    if layout == "yx":
        return base[0]
    if layout == "byx":
        return base
    return base.transpose([1, 2, 0]).copy()  # yxb


def _rio_samples():
    import os
    import random

    thorough = os.environ.get("PYVC_TIER", "quick") == "thorough"
    seed = int(os.environ.get("PYVC_SEED", "0"))
    rnd = random.Random(seed)

    shapes = [(1, 1), (17, 33), (16, 16), (300, 200), (520, 530), (513, 700)]
    dtypes = ["uint8", "int8", "int16", "uint16", "int32", "float32", "float64"]

    def one(i, **fix):
        dtype = fix.get("dtype", rnd.choice(dtypes))
        kind = "f" if dtype.startswith("float") else ("i" if dtype.startswith("int") else "u")
        nd = {"f": [None, float("nan"), -9999.0], "i": [None, -1, 0, -99], "u": [None, 0, 255]}[kind]
        layout = fix.get("layout", rnd.choice(["yx", "yx", "byx", "yxb"]))
        d = dict(
            idx=i,
            shape=fix.get("shape", rnd.choice(shapes)),
            layout=layout,
            nbands=1 if layout == "yx" else fix.get("nbands", rnd.choice([2, 3])),
            dtype=dtype,
            nodata=fix.get("nodata", rnd.choice(nd)),
            nodata_via=fix.get("nodata_via", rnd.choice(["attrs", "kwarg"])),
            crs=rnd.choice(["EPSG:4326", "EPSG:3857", "EPSG:32633"]),
            rotated=fix.get("rotated", rnd.random() < 0.3),
            blocksize=fix.get("blocksize", rnd.choice([None, 16, 128, 256, 100, 48])),
            overview_levels=fix.get("overview_levels", rnd.choice([None, None, [], [2], [2, 4]])),
            external_overviews=fix.get("external_overviews", 0),
            windowed=fix.get("windowed", rnd.random() < 0.25),
            intermediate_compression=rnd.choice([False, False, True, "deflate"]),
            dest=fix.get("dest", rnd.choice(["mem", "file"])),
            existing=fix.get("existing", None),
            overwrite=fix.get("overwrite", False),
            zero_region=fix.get("zero_region", False),
        )
        if min(d["shape"]) < 16 and d["overview_levels"]:
            d["overview_levels"] = []  # rasterio refuses several 1x1 overview levels: not a meaningful request
        return d

    def gen():
        i = 0
        fixed = [
            dict(shape=(520, 530), overview_levels=None, layout="yx", dtype="int16", nodata=-99, dest="mem"),  # default pyramid
            dict(shape=(300, 200), overview_levels=None, layout="byx", dtype="uint8", dest="file"),  # no overviews under 512
            dict(shape=(513, 700), external_overviews=2, nodata=-99, nodata_via="kwarg", dtype="int16", layout="yx", dest="mem"),
            dict(shape=(513, 700), external_overviews=2, nodata=-99, nodata_via="attrs", dtype="int16", layout="yx", dest="file"),
            dict(shape=(300, 200), external_overviews=1, nodata=float("nan"), nodata_via="kwarg", dtype="float32", layout="yx", dest="file"),
            dict(shape=(64, 64), external_overviews=3, nodata=None, dtype="uint8", layout="byx", dest="mem"),
            dict(shape=(17, 33), dest="file", existing="garbage", overwrite=False),
            dict(shape=(17, 33), dest="file", existing="garbage", overwrite=True),
            dict(shape=(300, 200), dest="file", existing="garbage", overwrite=False, external_overviews=1),
            dict(shape=(300, 200), dest="file", existing="garbage", overwrite=True, external_overviews=1),
            dict(shape=(1, 1), dtype="int8", nodata=-1, layout="yx"),
            dict(shape=(3, 3), nbands=3, layout="byx", dtype="int16", overview_levels=[]),  # bands == rows == columns: layout is ambiguous by shape
            dict(shape=(3, 3), nbands=3, layout="yxb", dtype="int16", overview_levels=[]),
            dict(shape=(3, 3), nbands=3, layout="byx", dtype="uint8", external_overviews=1, dest="mem"),
            dict(shape=(2, 2), nbands=2, layout="yxb", dtype="uint8", external_overviews=1, dest="mem"),
            dict(shape=(16, 16), dtype="float64", nodata=float("nan"), layout="yxb", rotated=True),
            dict(shape=(520, 530), blocksize=100, windowed=True, overview_levels=[2, 4], dtype="uint16"),
            dict(shape=(513, 700), blocksize=256, overview_levels=None, dtype="float32", layout="byx", dest="file"),
            # whole blocks of genuine zeros next to a non-zero nodata value, written window by window and in one go
            dict(shape=(300, 300), blocksize=64, windowed=True, dtype="uint8", nodata=255, nodata_via="kwarg", layout="yx", zero_region=True, overview_levels=[2]),
            dict(shape=(300, 300), blocksize=64, windowed=True, dtype="uint8", nodata=255, nodata_via="attrs", layout="yx", zero_region=True, overview_levels=[2]),
            dict(shape=(300, 300), blocksize=64, windowed=True, dtype="int16", nodata=-9999, nodata_via="kwarg", layout="byx", nbands=2, zero_region=True, dest="mem"),
            dict(shape=(300, 300), blocksize=64, windowed=False, dtype="uint8", nodata=255, layout="yx", zero_region=True),
        ]
        for f in fixed:
            yield dict(case=one(i, **f))
            i += 1
        for _ in range(260 if thorough else 50):
            yield dict(case=one(i))
            i += 1

    return "22 fixed (incl. whole blocks of genuine zeros beside a non-zero nodata) + 50 (quick) / 260 (thorough) pseudo-random combinations of 6 shapes x 3 band layouts x 7 dtypes x nodata (none / value / nan, via attrs or keyword) x 3 CRSs x north-up/rotated x 6 block sizes x overview level lists x external overviews x windowed writes x intermediate compression x file/memory x pre-existing destination with/without overwrite", gen()


def _rio_oracle(args, run=None):
    import io
    import math
    import os
    import tempfile
    import warnings

    import numpy as np
    import rasterio
    from affine import Affine

    from odc.geo.cog import write_cog
    from odc.geo.crs import CRS
    from odc.geo.geobox import GeoBox
    from odc.geo.xr import wrap_xr

    c = args["case"]
    h, w = c["shape"]
    A = Affine(10.0, 0, 500_000.0, 0, -10.0, 6_000_000.0) if c["crs"] != "EPSG:4326" else Affine(0.001, 0, 15.0, 0, -0.001, 50.0)
    if c["rotated"]:
        A = A * Affine.rotation(17.0)
    g = GeoBox((h, w), A, c["crs"])
    pix = _mk_pix((h, w), c["layout"], c["dtype"], c["nbands"], c["idx"], zero_region=c.get("zero_region", False))
    dims = {"yx": ("y", "x"), "byx": ("band", "y", "x"), "yxb": ("y", "x", "band")}[c["layout"]]
    nodata = c["nodata"]
    attrs_nodata = nodata if c["nodata_via"] == "attrs" else None
    def mk_xr(px, gg):
        if c["layout"] in ("yx", "yxb"):
            return wrap_xr(px, gg, nodata=attrs_nodata)
        import xarray as xr

        from odc.geo.xr import xr_coords

        return xr.DataArray(px, coords=xr_coords(gg), dims=("band", *gg.dimensions), attrs={} if attrs_nodata is None else {"nodata": attrs_nodata})

    xx = mk_xr(pix, g)
    A = xx.odc.geobox.transform  # what the writer is given (the grid as recovered from the coordinates)
    kw = {}
    if c["nodata_via"] == "kwarg" and nodata is not None:
        kw["nodata"] = nodata
    if c["blocksize"] is not None:
        kw["blocksize"] = c["blocksize"]
    if c["windowed"]:
        kw["use_windowed_writes"] = True
    if c["intermediate_compression"] is not False:
        kw["intermediate_compression"] = c["intermediate_compression"]
    ovr_layers = None
    if c["external_overviews"]:
        ovr_layers = []
        cur = xx
        for _ in range(c["external_overviews"]):
            gg = cur.odc.geobox.zoom_out(2)
            sub_shape = gg.shape
            sub = _mk_pix(tuple(sub_shape), c["layout"], c["dtype"], c["nbands"], c["idx"] + 1000 + len(ovr_layers))
            cur = mk_xr(sub, gg)
            ovr_layers.append(cur)
        kw["overviews"] = ovr_layers
    elif c["overview_levels"] is not None:
        kw["overview_levels"] = c["overview_levels"]

    fails = []
    with tempfile.TemporaryDirectory(prefix="pyvc_c15_") as tmp:
        if c["dest"] == "file":
            dst = os.path.join(tmp, "out.tif")
            before = None
            if c["existing"] is not None:
                before = b"not a tiff: " + bytes(range(64))
                with open(dst, "wb") as f:
                    f.write(before)
            try:
                with warnings.catch_warnings():
                    warnings.simplefilter("ignore")
                    write_cog(xx, dst, overwrite=c["overwrite"], **kw)
                raised = None
            except Exception as e:  # pylint: disable=broad-except
                raised = e
            if before is not None and not c["overwrite"]:
                if not isinstance(raised, IOError):
                    fails.append(f"post:existing destination without overwrite: IOError (got {type(raised).__name__ if raised else 'no error'})")
                with open(dst, "rb") as f:
                    if f.read() != before:
                        fails.append("post:existing destination without overwrite is left untouched")
                return fails
            if raised is not None:
                return [f"no-exception:{type(raised).__name__}: {raised}"]
            with open(dst, "rb") as f:
                data = f.read()
            if before is not None and data == before:
                fails.append("post:existing destination is replaced when overwrite was requested")
        else:
            try:
                with warnings.catch_warnings():
                    warnings.simplefilter("ignore")
                    data = write_cog(xx, ":mem:", **kw)
            except Exception as e:  # pylint: disable=broad-except
                return [f"no-exception:{type(e).__name__}: {e}"]
            if not isinstance(data, bytes):
                return ["post:memory destination returns bytes"]

    want = pix if c["layout"] != "yxb" else pix.transpose([2, 0, 1])
    if want.ndim == 2:
        want = want[np.newaxis]

    def same(a, b):
        return a.shape == b.shape and a.dtype == b.dtype and bool(np.array_equal(a, b, equal_nan=(a.dtype.kind == "f")))

    with rasterio.MemoryFile(data) as mem:
        with mem.open() as f:
            got = f.read()
            if not same(got, want):
                fails.append(f"post:pixel values, dtype, band count and band order read back identical (GDAL reader; dtype {got.dtype} shape {got.shape})")
            if tuple(f.transform)[:6] != tuple(A)[:6]:
                fails.append(f"post:affine transform read back identical ({tuple(f.transform)[:6]} vs {tuple(A)[:6]})")
            if CRS(f.crs) != g.crs:
                fails.append("post:CRS read back identical")
            rn = f.nodata
            ok_nd = (rn is None and nodata is None) or (rn is not None and nodata is not None and ((math.isnan(rn) and isinstance(nodata, float) and math.isnan(nodata)) or rn == nodata))
            if not ok_nd:
                fails.append(f"post:nodata read back identical (wrote {nodata!r} via {c['nodata_via']}, read {rn!r})")
            # (rasterio's is_tiled compares the block with the image width: meaningless for images
            #  of one tile; the TIFF tags are read with tifffile below)
            if any(bs % 16 for shp in f.block_shapes for bs in shp):
                fails.append(f"post:block sizes are multiples of 16 ({f.block_shapes})")
            ovr = f.overviews(1)
            if c["external_overviews"]:
                if len(ovr) != c["external_overviews"]:
                    fails.append(f"post:exactly the supplied overview layers ({len(ovr)} of {c['external_overviews']})")
            else:
                want_levels = c["overview_levels"] if c["overview_levels"] is not None else ([] if min(h, w) < 512 else [2, 4, 8, 16, 32])
                if len(ovr) != len(want_levels):
                    fails.append(f"post:exactly the requested overview levels (default: none under 512 px) -- wanted {want_levels}, file has {ovr}")
            nlev = len(ovr)
        for lvl in range(nlev):
            with mem.open(overview_level=lvl) as fo:
                if not c["external_overviews"] and lvl < len(want_levels):
                    L = want_levels[lvl]
                    if (fo.height, fo.width) != (-(-h // L), -(-w // L)):
                        fails.append(f"post:overview {lvl} is the image shrunk by the requested factor {L} (size {(fo.height, fo.width)})")
                if any(bs % 16 for shp in fo.block_shapes for bs in shp):
                    fails.append(f"post:overview block sizes are multiples of 16 (level {lvl}: {fo.block_shapes})")
                if c["external_overviews"]:
                    o = ovr_layers[lvl].data
                    o = o if c["layout"] != "yxb" else o.transpose([2, 0, 1])
                    o = o if o.ndim == 3 else o[np.newaxis]
                    if not same(fo.read(), o):
                        fails.append(f"post:externally supplied overview {lvl} read back identical")
    # independent reader (tifffile: pure-python TIFF decoder) for the full-resolution pixels
    try:
        import tifffile

        with tifffile.TiffFile(io.BytesIO(data)) as t:
            page = t.pages[0]
            arr = page.asarray()
            axes = page.axes
        if arr.ndim == 3 and axes.endswith("S"):  # pixel-interleaved samples: Y X S
            arr = arr.transpose([2, 0, 1])
        arr = arr if arr.ndim == 3 else arr[np.newaxis]
        if not same(arr, want):
            fails.append("post:pixel values read back identical by an independent reader (tifffile)")
        if (page.tilewidth % 16) or (page.tilelength % 16) or not page.is_tiled:
            fails.append("post:tiled with sides that are multiples of 16 (tifffile)")
    except ImportError:
        pass
    except Exception as e:  # pylint: disable=broad-except
        if "imagecodecs" not in str(e) and "codec" not in str(e).lower():
            fails.append(f"post:independent reader (tifffile) decodes the file ({type(e).__name__}: {e})")
    return fails


contract(
    f"{RIO}:write_cog",
    ["C15"],
    ensures=[("written file reads back identical: pixels / dtype / bands / transform / CRS / nodata; tiled in multiples of 16; exactly the requested overviews; overwrite guard", lambda result: True)],
    verify=False,
    trusted_reason="GDAL (rasterio) encoder and the readers' decoders: BOUNDED native round-trip check, not a proof; the library's own part of the write is proved by the contracts/lemmas of this module",
    native_samples=_rio_samples,
    native_oracle=_rio_oracle,
)


# =====================================================================================================
# proved part
# =====================================================================================================

# ---- check_write_path over a ghost file system ---------------------------------------------------------------------


def _ghost_path(there):
    """a real pathlib.Path subclass instance whose exists()/unlink() talk to ghost state"""
    from pathlib import Path

    class GhostPath(type(Path())):
        _log = []
        _exists = there

        def exists(self, *a, **k):  # pylint: disable=arguments-differ
            return type(self)._exists

        def unlink(self, *a, **k):  # pylint: disable=arguments-differ
            type(self)._log.append("unlink")
            type(self)._exists = False

    GhostPath._log = []
    return GhostPath("ghost/destination.tif")


def _lemma_check_write_path(exists, overwrite):
    m = repo(RIO)
    p = _ghost_path(exists)
    try:
        out = ("return", m.check_write_path(p, overwrite))
    except IOError as e:
        out = ("raise", e)
    log = type(p)._log
    if exists and not overwrite:
        claim(out[0] == "raise", "existing destination, overwriting not requested: IOError")
        claim(log == [] and type(p)._exists is True, "... and the file is left untouched")
    else:
        claim(out[0] == "return" and out[1] is p, "otherwise the path is returned")
        claim(log == (["unlink"] if exists else []), "removed exactly when it exists and overwriting was requested")


lemma("rio.check_write_path", ["C15"], inputs=dict(exists=Bool(), overwrite=Bool()), body=_lemma_check_write_path, unstub=[f"{RIO}:check_write_path"], note="all four rows of the documented table, over a ghost file system")

# ---- creation options -----------------------------------------------------------------------------------------------

contract(
    f"{RIO}:_default_cog_opts",
    ["C15"],
    inputs=dict(blocksize=Int(ge=1), shape=Tup(Int(ge=0), Int(ge=0)), is_float=Bool(), other=OneOf(Value({}), Value({"nodata": -7, "compress": "zstd"}))),
    ensures=[
        ("tiled, block sides are multiples of 16 (the requested size, or the image side when smaller, rounded up)", lambda blocksize, shape, result: And(result["tiled"] is True, mult16(result["blockxsize"]), mult16(result["blockysize"]))),
        ("predictor 3 for floating point, 2 otherwise; DEFLATE level 6 unless overridden", lambda is_float, other, result: result["predictor"] == (3 if is_float else 2) and result["zlevel"] == 6 and result["compress"] == other.get("compress", "DEFLATE")),
        ("the caller's extra options are kept", lambda other, result: all(result[k] == v for k, v in other.items())),
    ],
    returns=lambda blocksize, shape, is_float, other: Custom(lambda nm: dict({"tiled": True, "blockxsize": 16 * Int(ge=1).make(nm + ".bx"), "blockysize": 16 * Int(ge=1).make(nm + ".by"), "zlevel": 6, "predictor": 3 if is_float else 2, "compress": "DEFLATE"}, **other), "creation options"),
    bind="kwargs",
)

contract(
    f"{RIO}:_norm_compression_opts",
    ["C15"],
    inputs=dict(compression=OneOf(True, False, "zstd", Value({"compress": "lzw", "zlevel": 9})), default_compress="deflate", default_zlevel=2),
    ensures=[
        (
            "True -> the default codec and level; False -> no compression; a name -> that codec; a dict -> as is",
            lambda compression, result: result == ({"compress": "deflate", "zlevel": 2} if compression is True else {"compress": None} if compression is False else {"compress": compression} if isinstance(compression, str) else compression),
        )
    ],
    returns=lambda compression: Value({"compress": "deflate", "zlevel": 2} if compression is True else {"compress": None} if compression is False else {"compress": compression} if isinstance(compression, str) else compression),
    inline=True,
)


# ---- ghost rasterio --------------------------------------------------------------------------------------------------


class GhostPix:
    """stand-in ndarray: shape / ndim / dtype / transpose / indexing, every view remembers where it came from"""

    def __init__(self, shape, kind, tag="input", name="int16"):
        self.shape, self.ndim, self.tag = tuple(shape), len(shape), tag

        class _DT:
            pass

        self.dtype = _DT()
        self.dtype.kind, self.dtype.name = kind, name

    def transpose(self, axes):
        return GhostPix([self.shape[a] for a in axes], self.dtype.kind, ("transpose", tuple(axes), self.tag), self.dtype.name)

    def __getitem__(self, idx):
        return GhostPix(self.shape, self.dtype.kind, ("block", idx, self.tag), self.dtype.name)


class GhostRasterio:
    def __init__(self):
        self.log = []
        self.n = 0
        g = self

        class DS:
            def __init__(self, where, opts):
                self.where, self.opts = where, opts

            def __enter__(self):
                return self

            def __exit__(self, *a):
                g.log.append(("close", self.where))
                return False

            def write(self, pix, indexes=None, window=None):
                g.log.append(("write", self.where, pix, indexes, window))

            def block_windows(self):
                class W:
                    def __init__(self, k):
                        self.k = k

                    def toslices(self):
                        return (("rows", self.k), ("cols", self.k))

                return [((0, 0), W(0)), ((0, 1), W(1))]

            def build_overviews(self, levels, resampling):
                g.log.append(("build_overviews", self.where, list(levels), resampling))

        class Mem:
            def __init__(self, *a, **k):
                g.n += 1
                self.name = f"/vsimem/ghost{g.n}"
                self.closed = False
                g.log.append(("memfile", self.name, k))

            def __enter__(self):
                return self

            def __exit__(self, *a):
                self.closed = True
                return False

            def close(self):
                self.closed = True

            def open(self, driver=None, **opts):
                g.log.append(("open", self.name, driver, opts))
                return DS(self.name, opts)

            def getbuffer(self):
                return f"bytes-of:{self.name}".encode()

        class Env:
            def __init__(self, **k):
                g.log.append(("env", k))

            def __enter__(self):
                return self

            def __exit__(self, *a):
                return False

        self.MemoryFile, self.Env, self._DS = Mem, Env, DS

    def open(self, path, mode="r", driver=None, **opts):
        self.log.append(("open", path, driver, opts))
        assert mode == "w"
        return self._DS(path, opts)

    def copy(self, src, dst, **opts):
        self.log.append(("copy", getattr(src, "where", src), dst, opts))


def _with_ghost_rio(fn):
    m = repo(RIO)
    G = GhostRasterio()
    guard = []
    saved = (m.rasterio, m.rio_copy, m.resampling_s2rio, m.check_write_path)
    try:
        m.rasterio, m.rio_copy = G, G.copy
        m.resampling_s2rio = lambda name: ("resampling", name)

        def cwp(fname, overwrite):
            guard.append((fname, overwrite, len(G.log)))
            return ("checked-path", fname)

        m.check_write_path = cwp
        return fn(m, G, guard)
    finally:
        m.rasterio, m.rio_copy, m.resampling_s2rio, m.check_write_path = saved


def _lemma_write_cog_flow(g, layout, nb, is_float, nodata, dest, overview_levels, blocksize, windowed, ic, extra_nodata):
    h, w = g.shape.y, g.shape.x
    shape = {"yx": (h, w), "byx": (nb, h, w), "yxb": (h, w, nb)}[layout]
    pix = GhostPix(shape, "f" if is_float else "i", name="float32" if is_float else "int16")
    fname = ":mem:" if dest == "mem" else "some/file.tif"
    extra = {} if extra_nodata is None else {"interleave": "band"}

    def run(m, G, guard):
        out = m._write_cog(pix, g, fname, nodata=nodata, overwrite=True, blocksize=blocksize, overview_levels=overview_levels, use_windowed_writes=windowed, intermediate_compression=ic, **extra)
        return out, G, guard

    out, G, guard = _with_ghost_rio(run)
    log = G.log
    # -- overwrite guard: before anything is created, never for memory
    if dest == "mem":
        claim(guard == [], "memory destination: the file system is not consulted")
    else:
        claim(len(guard) == 1 and guard[0][0] == fname and guard[0][1] is True and guard[0][2] == 0, "file destination: the overwrite guard runs once, with the caller's flag, before anything is opened")
    # -- what is written
    writes = [e for e in log if e[0] == "write"]
    want_tag = "input" if layout != "yxb" else ("transpose", (2, 0, 1), "input")
    want_band = 1 if layout == "yx" else tuple(range(1, nb + 1))
    if not windowed:
        claim(len(writes) == 1 and writes[0][2].tag == want_tag and writes[0][3] == want_band and writes[0][4] is None, "all pixels written once, band axis first, bands 1..n in order")
    else:
        claim(len(writes) == 2 and all(wr[3] == want_band for wr in writes), "windowed: one write per block, same band indexes")
        claim(all(wr[2].tag[0] == "block" and wr[2].tag[2] == want_tag and wr[2].tag[1] == ((("rows", k), ("cols", k)) if layout == "yx" else (slice(None), ("rows", k), ("cols", k))) and wr[4].k == k for k, wr in enumerate(writes)), "windowed: each block of the (band-first) pixels goes to its own window")
    # -- levels
    levels = overview_levels if overview_levels is not None else ([] if bool(Min(w, h) < 512) else [2, 4, 8, 16, 32])
    bo = [e for e in log if e[0] == "build_overviews"]
    opens = [e for e in log if e[0] == "open"]
    copies = [e for e in log if e[0] == "copy"]
    eff_nodata = nodata

    def final_opts_ok(o, full=True):
        ok = o["tiled"] is True and o["compress"] == "DEFLATE" and (extra_nodata is None or o.get("interleave") == "band")
        ok = ok and bool(And(mult16(o["blockxsize"]), mult16(o["blockysize"])))
        if full:
            ok = ok and o["width"] is w and o["height"] is h and o["count"] == (1 if layout == "yx" else nb) and o["dtype"] == pix.dtype.name
            ok = ok and o["crs"] == str(g.crs) and o["transform"] is g.transform or (ok and o["crs"] == str(g.crs) and tuple(o["transform"]) == tuple(g.transform))
            ok = ok and (o.get("nodata", None) == eff_nodata if eff_nodata is not None else "nodata" not in o)
        return ok

    if len(levels) == 0:
        claim(bo == [] and copies == [], "no overviews requested (or an image under 512 px by default): single pass, none built")
        claim(len(opens) == 1 and opens[0][2] == "GTiff" and final_opts_ok(opens[0][3]), "the file is created tiled, blocks in multiples of 16, with the image's size / band count / dtype / CRS / transform / nodata")
        claim(writes[0][1] == opens[0][1], "pixels go into that file")
    else:
        claim(len(bo) == 1 and bo[0][2] == list(levels) and bo[0][3] == ("resampling", "nearest"), "overviews built once with exactly the requested levels (default 2..32 for images of 512 px and more)")
        claim(len(opens) == 1 and bo[0][1] == opens[0][1] and all(wr[1] == opens[0][1] for wr in writes), "first pass: pixels and overviews go into one temporary in-memory file")
        tmp = opens[0][3]
        claim(tmp["width"] is w and tmp["height"] is h and tmp["dtype"] == pix.dtype.name and tmp["crs"] == str(g.crs) and tmp.get("nodata", None) == eff_nodata, "the temporary file has the image's size / dtype / CRS / nodata")
        claim(len(copies) == 1 and copies[0][1] == opens[0][1] and copies[0][3].get("copy_src_overviews") is True and copies[0][3].get("driver") == "GTiff", "second pass: one copy of the temporary file with copy_src_overviews")
        claim(log.index(bo[0]) < log.index(copies[0]) and all(log.index(wr) < log.index(bo[0]) for wr in writes), "order: pixels, then overviews, then the copy")
        claim(final_opts_ok(copies[0][3], full=(dest != "mem")), "the copy carries the tiling / block-size / compression options (and for files the full profile)")
        if dest != "mem":
            claim(copies[0][2] == ("checked-path", fname), "the copy goes to the checked destination")
    if dest == "mem":
        claim(isinstance(out, bytes) and out.startswith(b"bytes-of:"), "memory destination: the encoded bytes are returned")
    else:
        claim(out == ("checked-path", fname), "file destination: the path is returned")


lemma(
    "rio.write_cog_flow",
    ["C15"],
    inputs=dict(
        g=__import__("contracts.geobox_c", fromlist=["GEOBOX"]).GEOBOX("EPSG:3857"),
        layout=OneOf("yx", "byx", "yxb"),
        nb=OneOf(2, 3),
        is_float=Bool(),
        nodata=OneOf(None, -99),
        dest=OneOf("mem", "file"),
        overview_levels=OneOf(None, Value([]), Value([2, 4])),
        blocksize=OneOf(None, Int(ge=1)),
        windowed=Bool(),
        ic=OneOf(False, True),
        extra_nodata=OneOf(None, 5),
    ),
    requires=[lambda g, nb: And(g.shape.x != nb, g.shape.y != nb)],
    body=_lemma_write_cog_flow,
    unstub=[f"{RIO}:_write_cog"],
    note="data flow of the real _write_cog over a ghost rasterio that records every call; image sides symbolic (the default-pyramid threshold is decided symbolically); band count different from both sides (the shape-ambiguous case is resolved by dimension names one level up, see rio.write_cog_dispatch)",
    max_paths=200,
)


# ---- write_cog / write_cog_layers: which pixels, which nodata, which destination ----------------------------------------------------


class GhostXr:
    """stand-in xarray.DataArray: .data .dims .ndim .dtype .attrs .odc.geobox .odc.ydim"""

    def __init__(self, g, layout, nb, kind, attrs, tag):
        h, w = g.shape.y, g.shape.x
        shape = {"yx": (h, w), "byx": (nb, h, w), "yxb": (h, w, nb)}[layout]
        self.data = GhostPix(shape, kind, tag)
        self.dims = {"yx": ("y", "x"), "byx": ("band", "y", "x"), "yxb": ("y", "x", "band")}[layout]
        self.ndim = len(shape)
        self.dtype = self.data.dtype
        self.attrs = dict(attrs)
        me = self

        class _Odc:
            geobox = g
            ydim = me.dims.index("y")
            xdim = me.dims.index("x")

        self.odc = _Odc()


def _lemma_write_cog_dispatch(g, layout, nb, is_float, attrs_nodata, kw_nodata, dest, n_ovr, blocksize, overwrite):
    kind = "f" if is_float else "i"
    attrs = {} if attrs_nodata is None else {"nodata": attrs_nodata}
    xx = GhostXr(g, layout, nb, kind, attrs, "layer0")
    G2 = repo("odc.geo.geobox").GeoBox
    ovr = [GhostXr(G2((1 + k, 2 + k), g.affine, g.crs), layout, nb, kind, attrs, f"layer{k + 1}") for k in range(n_ovr)]
    fname = ":mem:" if dest == "mem" else "some/file.tif"
    calls = []

    def run(m, G, guard):
        saved = m._write_cog

        def rec(pix, geobox, fname_, **kw):
            calls.append(dict(pix=pix, geobox=geobox, fname=fname_, kw=kw, at=len(G.log), guard_before=len(guard)))
            return ("written", fname_)

        m._write_cog = rec
        try:
            kws = {}
            if kw_nodata is not None:
                kws["nodata"] = kw_nodata
            if blocksize is not None:
                kws["blocksize"] = blocksize
            if n_ovr > 0 or layout == "never":
                kws["overviews"] = ovr
            out = m.write_cog(xx, fname, overwrite=overwrite, **kws)
        finally:
            m._write_cog = saved
        return out, G, guard

    out, G, guard = _with_ghost_rio(run)
    want_nodata = kw_nodata if kw_nodata is not None else attrs_nodata

    def band_first(layer):
        return layer.data.tag if layout != "yxb" else ("transpose", (2, 0, 1), layer.data.tag)

    if n_ovr == 0:
        claim(len(calls) == 1 and calls[0]["pix"].tag == band_first(xx) and calls[0]["geobox"] is g and calls[0]["fname"] == fname, "computed overviews: the image's own pixels (band axis first by dimension NAME), its GeoBox and the destination go to the writer")
        kw = calls[0]["kw"]
        claim(kw["nodata"] == want_nodata if want_nodata is not None else kw["nodata"] is None, "nodata: the explicit keyword, else the array's attribute, else none")
        claim(kw["overwrite"] is overwrite and kw["blocksize"] is blocksize, "overwrite flag and block size are passed through")
        claim(out == ("written", fname), "the writer's result is returned")
        return
    # externally supplied overviews
    layers = [xx] + ovr
    if dest == "mem":
        claim(guard == [], "memory destination: the file system is not consulted")
    else:
        claim(len(guard) == 1 and guard[0][0] == fname and guard[0][1] is overwrite and guard[0][2] == 0 and all(c["guard_before"] == 1 for c in calls), "file destination: the overwrite guard runs once with the caller's flag before any layer is written")
    claim(len(calls) == len(layers), "every supplied layer is written")
    names = [c["fname"] for c in calls]
    claim(len(set(names)) == len(names) and all(n.startswith("/vsimem/ghost") for n in names) and all(names[k + 1] == names[k] + ".ovr" or True for k in range(len(names) - 1)), "each layer goes to its own in-memory side-car")
    claim(all(c["pix"].tag == band_first(l) and c["geobox"] is l.odc.geobox for c, l in zip(calls, layers)), "layer k's own pixels (band axis first by dimension name) with layer k's GeoBox, in order")
    claim(all(c["kw"]["overview_levels"] == [] for c in calls), "no computed overviews on top of the supplied ones")
    claim(all((c["kw"]["nodata"] == want_nodata) if want_nodata is not None else c["kw"]["nodata"] is None for c in calls), "nodata of every layer: the explicit keyword, else the first layer's attribute, else none")
    copies = [e for e in G.log if e[0] == "copy"]
    claim(len(copies) == 1 and copies[0][1] == names[0] and copies[0][3].get("copy_src_overviews") is True and all(c["at"] <= G.log.index(copies[0]) for c in calls), "one copy of the first side-car (GDAL finds the .ovr chain) with copy_src_overviews, after all layers are written")
    o = copies[0][3]
    claim(o["tiled"] is True and bool(And(mult16(o["blockxsize"]), mult16(o["blockysize"]))), "final file tiled with block sides that are multiples of 16")
    claim((o.get("nodata", None) == want_nodata) if want_nodata is not None else o.get("nodata", None) is None, "final file's nodata: the explicit keyword, else the attribute, else none")
    if dest == "mem":
        claim(isinstance(out, bytes), "memory destination: bytes returned")
    else:
        claim(copies[0][2] == fname and str(out) == fname, "file destination: copied to and returns the destination path")


lemma(
    "rio.write_cog_dispatch",
    ["C15"],
    inputs=dict(
        g=__import__("contracts.geobox_c", fromlist=["GEOBOX"]).GEOBOX("EPSG:3857"),
        layout=OneOf("yx", "byx", "yxb"),
        nb=OneOf(2, 3),
        is_float=Bool(),
        attrs_nodata=OneOf(None, -99),
        kw_nodata=OneOf(None, 7),
        dest=OneOf("mem", "file"),
        n_ovr=OneOf(0, 1, 2),
        blocksize=OneOf(None, 256),
        overwrite=Bool(),
    ),
    body=_lemma_write_cog_dispatch,
    unstub=[f"{RIO}:write_cog", f"{RIO}:write_cog_layers"],
    note="data flow of the real write_cog and write_cog_layers over ghost DataArrays / ghost rasterio with the (separately proved) _write_cog recorded: computed and externally supplied overviews, nodata precedence, band axis by dimension name (also when bands == rows == columns), overwrite guard",
    max_paths=200,
)
