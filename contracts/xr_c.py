"""
Contracts for odc/geo/_xr_interop.py   (C09: xarray geo-registration round-trips and survives array operations).

What a contract can decide here is odc-geo's OWN part: which coordinate labels / attributes / encoding
it writes for a GeoBox (xr_coords and helpers) and how it rebuilds a GeoBox from them (_locate_geo_info,
_extract_transform, affine_from_axis).  xarray itself is a GHOST CONTAINER in the proofs: a DataArray is a
record (values, dims, coords, attrs, encoding) that stores what it is given; positional slicing is "every
coordinate variable is sliced by the same index, attrs and encoding kept".  That xarray really behaves like
this -- through isel (strided, reversed), arithmetic, astype, pickling, Dataset.map, reprojection -- is
xarray's behaviour: ASSUMED, with a BOUNDED native check on the real xarray.

Proved (real xr_coords + real _locate_geo_info / _extract_transform / affine_from_axis /
data_resolution_and_offset run on symbolic grids):

  xr.roundtrip_axis_aligned    any axis-aligned GeoBox (any shape >= 1x1, any pixel size/sign/origin, CRS
                               attached): wrap -> recover gives the same shape, the same affine, an equal CRS;
                               single-row / single-column grids go through the GeoTransform fallback
  xr.roundtrip_rotated         any rotated / sheared GeoBox: pixel-space labels + encoded transform
  xr.slice_keeps_world         any arithmetic sub-progression of the labels (= any positional slice incl.
                               strided and reversed, per axis): the recovered affine maps remaining pixel
                               (i, j) to the world location original pixel (sx + i*kx, sy + j*ky) had
"""
from pyvc.api import *  # noqa: F401,F403

from .geobox_c import AFFINE, GBX, coeffs, crs_obj

XR = "odc.geo._xr_interop"
MATH = "odc.geo.math"


class GhostDA:
    """ghost xarray.DataArray: a record that stores what it is given"""

    def __init__(self, data=None, coords=None, dims=(), name=None, attrs=None):
        self.values = data
        self.data = data
        self.dims = tuple(dims)
        self.ndim = len(self.dims)
        self.name = name
        self.attrs = dict(attrs or {})
        self.encoding = {}
        self.coords = dict(coords or {})
        self.shape = tuple(getattr(data, "size", 1) for _ in self.dims)

    def sliced(self, values):
        """positional slicing of an index coordinate: new labels, attrs and encoding kept (assumed of xarray)"""
        out = GhostDA(values, None, self.dims, self.name, self.attrs)
        out.encoding = dict(self.encoding)
        return out


class _GhostXarray:
    DataArray = GhostDA

    class Dataset:  # never constructed in the code under proof
        pass


class GhostSrc:
    """ghost geo-registered array: dims + coordinate variables (+ attrs/encoding of the array itself)"""

    def __init__(self, dims, coords, encoding=None, attrs=None):
        self.dims = tuple(dims)
        self.coords = coords
        self.encoding = dict(encoding or {})
        self.attrs = dict(attrs or {})

    def __getitem__(self, k):
        return self.coords[k]


def _with_ghost_xarray(fn):
    m = repo(XR)
    saved = (m.xarray, m._extract_geo_transform, m._mk_crs_coord)
    real_mk = m._mk_crs_coord
    try:
        m.xarray = _GhostXarray

        # the GeoTransform attribute is the transform printed with str(float) and parsed back with
        # float(): float(repr(x)) == x is ASSUMED of CPython; the ghost CRS coordinate keeps the Affine
        # object itself next to a placeholder string
        def mk(crs, name="spatial_ref", gcps=None, transform=None):
            c = real_mk(crs, name, gcps=gcps, transform=None)  # the string formatting is not run on proxies
            if transform is not None:
                c.attrs["GeoTransform"] = "<six numbers>"
                c.attrs["__ghost_transform__"] = transform
            return c

        def egt(crs_coord):
            return crs_coord.attrs.get("__ghost_transform__", None)

        m._mk_crs_coord = mk
        m._extract_geo_transform = egt
        return fn(m)
    finally:
        m.xarray, m._extract_geo_transform, m._mk_crs_coord = saved


def _wrap(m, g, crs_coord_name="spatial_ref"):
    """what wrap_xr / assign_crs attach: the coordinates of xr_coords(g)"""
    return m.xr_coords(g, crs_coord_name)


def _geobox(shape, A, crs="EPSG:3857"):
    return repo(GBX).GeoBox(shape, A, crs_obj(crs))


def _same_affine(A, B):
    return And(*[approx_eq(x, y) for x, y in zip(coeffs(A), coeffs(B))])


def _lemma_roundtrip_aligned(ny, nx, rx, ry, tx, ty, extra_dim):
    aff = repo("affine").Affine
    g = _geobox((ny, nx), aff(rx, 0, tx, 0, ry, ty))

    def run(m):
        coords = _wrap(m, g)
        claim(set(coords) == {"y", "x", "spatial_ref"}, "coordinates written: one per spatial axis + the CRS coordinate")
        cy, cx = coords["y"], coords["x"]
        claim(And(cx.values.size == nx, cy.values.size == ny), "one label per pixel")
        k = Int(ge=0).make("k")
        assume(And(k < nx, k < ny))
        claim(And(cx.values[k] == tx + (k + 0.5) * rx, cy.values[k] == ty + (k + 0.5) * ry), "label k is the world coordinate of the centre of pixel k")
        dims = (("time",) if extra_dim == "time" else ()) + ("y", "x") + (("band",) if extra_dim == "band" else ())
        src = GhostSrc(dims, coords, encoding={"grid_mapping": "spatial_ref"})
        st = m._locate_geo_info(src)
        return st

    st = _with_ghost_xarray(run)
    claim(st.geobox is not None and st.spatial_dims == ("y", "x"), "a GeoBox is recovered from the y/x dimensions")
    r = st.geobox
    claim(And(r.shape.y == ny, r.shape.x == nx), "same shape")
    claim(_same_affine(r.affine, g.affine), "same affine (single-row / single-column grids through the stored GeoTransform)")
    claim(r.crs == g.crs, "equal CRS")


lemma(
    "xr.roundtrip_axis_aligned",
    ["C09"],
    inputs=dict(ny=Int(ge=1), nx=Int(ge=1), rx=OneOf(Real(gt=0), Real(lt=0)), ry=OneOf(Real(gt=0), Real(lt=0)), tx=Real(), ty=Real(), extra_dim=OneOf(None, "time", "band")),
    body=_lemma_roundtrip_aligned,
    unstub=[f"{XR}:xr_coords", f"{MATH}:affine_from_axis", f"{MATH}:data_resolution_and_offset", f"{MATH}:is_affine_st", f"{GBX}:GeoBox.__getitem__"],
    note="xarray is a ghost container; float(str(x)) == x for the GeoTransform attribute is assumed; numpy.arange through its model",
    max_paths=400,
)


def _lemma_roundtrip_rotated(ny, nx, A):
    g = _geobox((ny, nx), A)

    def run(m):
        coords = _wrap(m, g)
        cy, cx = coords["y"], coords["x"]
        claim(And(cx.values.size == nx, cy.values.size == ny), "one pixel-space label per pixel")
        claim(cx.encoding.get("_transform") == tuple(A)[:6] and cy.encoding.get("_transform") == tuple(A)[:6], "the grid's transform is stored in the encoding of the pixel coordinates")
        src = GhostSrc(("y", "x"), coords, encoding={"grid_mapping": "spatial_ref"})
        return m._locate_geo_info(src)

    st = _with_ghost_xarray(run)
    r = st.geobox
    claim(r is not None and And(r.shape.y == ny, r.shape.x == nx), "same shape")
    claim(_same_affine(r.affine, g.affine), "same affine")
    claim(r.crs == g.crs, "equal CRS")


lemma(
    "xr.roundtrip_rotated",
    ["C09"],
    inputs=dict(ny=Int(ge=1), nx=Int(ge=1), A=AFFINE()),
    requires=[lambda A: And(A.a * A.e - A.b * A.d != 0, Or(Abs(A.b) >= 1e-5, Abs(A.d) >= 1e-5))],
    body=_lemma_roundtrip_rotated,
    unstub=[f"{XR}:xr_coords", f"{MATH}:affine_from_axis", f"{MATH}:data_resolution_and_offset", f"{MATH}:is_affine_st"],
    note="rotated / sheared grids: pixel-space labels k + 1/2 (float32: exact below 2**23, assumed) and the transform in the encoding",
    max_paths=400,
)


def _lemma_slice_keeps_world(ny, nx, A, sx, kx, mx, sy, ky, my, i, j):
    """remaining pixel (i, j) of the sliced array was original pixel (sx + i*kx, sy + j*ky)"""
    g = _geobox((ny, nx), A)
    from pyvc.npmodel import SymLin

    def run(m):
        coords = _wrap(m, g)
        cy, cx = coords["y"], coords["x"]
        lx, ly = cx.values, cy.values
        sub = dict(coords)
        sub["x"] = cx.sliced(SymLin(mx, lx[sx], lx.step * kx))
        sub["y"] = cy.sliced(SymLin(my, ly[sy], ly.step * ky))
        src = GhostSrc(("y", "x"), sub, encoding={"grid_mapping": "spatial_ref"})
        return m._locate_geo_info(src)

    st = _with_ghost_xarray(run)
    r = st.geobox
    claim(r is not None and And(r.shape.y == my, r.shape.x == mx), "shape of the remaining pixels")
    # centre of remaining pixel (i, j) under the recovered grid == centre of the original pixel it came from
    wx, wy = r.affine * (i + 0.5, j + 0.5)
    ox, oy = g.affine * (sx + i * kx + 0.5, sy + j * ky + 0.5)
    claim(And(approx_eq(wx, ox), approx_eq(wy, oy)), "every remaining pixel keeps the world location it had in the original (strided and reversed slices included)")
    claim(r.crs == g.crs, "equal CRS")


def _valid_progression(n, s, k, m):
    """m >= 1 indices s, s+k, .., s+(m-1)k all inside [0, n), k != 0"""
    return And(k != 0, m >= 1, s >= 0, s < n, s + (m - 1) * k >= 0, s + (m - 1) * k < n)


lemma(
    "xr.slice_keeps_world",
    ["C09"],
    inputs=dict(ny=Int(ge=1), nx=Int(ge=1), A=OneOf(Build("affine:Affine", Real(), 0, Real(), 0, Real(), Real()), AFFINE()), sx=Int(), kx=Int(), mx=Int(), sy=Int(), ky=Int(), my=Int(), i=Int(ge=0), j=Int(ge=0)),
    requires=[
        lambda A: And(A.a * A.e - A.b * A.d != 0, Or(And(A.b == 0, A.d == 0), Abs(A.b) >= 1e-5, Abs(A.d) >= 1e-5)),
        lambda nx, sx, kx, mx, ny, sy, ky, my, i, j: And(_valid_progression(nx, sx, kx, mx), _valid_progression(ny, sy, ky, my), i < mx, j < my),
    ],
    body=_lemma_slice_keeps_world,
    unstub=[f"{XR}:xr_coords", f"{MATH}:affine_from_axis", f"{MATH}:data_resolution_and_offset", f"{MATH}:is_affine_st"],
    note="positional slicing = the same arithmetic sub-progression of every coordinate variable, attrs/encoding kept (assumed of xarray, bounded-checked); any number >= 1 of remaining pixels per axis (a single remaining pixel takes its size from the stored full-grid GeoTransform, which slicing keeps)",
    max_paths=600,
)


# =====================================================================================================
# BOUNDED native check on the real xarray
# =====================================================================================================


def _xr_gboxes():
    import numpy as np
    from affine import Affine

    from odc.geo.gcp import GCPGeoBox, GCPMapping
    from odc.geo.geobox import GeoBox

    out = {}
    base = {
        "north_up": (Affine(10.0, 0, 500_000.0, 0, -10.0, 6_000_000.0), "EPSG:32633"),
        "mirrored_x": (Affine(-0.25, 0, 15.0, 0, -0.25, 50.0), "EPSG:4326"),
        "south_up_nonsquare": (Affine(30.0, 0, -1_000.0, 0, 12.5, 2_000.0), "EPSG:3857"),
        "rotated": (Affine.translation(1_000.0, 2_000.0) * Affine.rotation(30) * Affine.scale(10.0, -10.0), "EPSG:3857"),
        "sheared": (Affine(10.0, 2.5, 100.0, -1.0, -8.0, 900.0), "EPSG:3577"),
    }
    for name, (A, crs) in base.items():
        for shape in ((7, 9), (1, 6), (5, 1), (1, 1), (64, 33)):
            out[f"{name}{shape}"] = GeoBox(shape, A, crs)
    # GCP based: 3x3 control points of a gently warped grid
    pix = [(x, y) for y in (0.0, 10.0, 20.0) for x in (0.0, 15.0, 30.0)]
    wld = [(100 + 2.0 * x + 0.01 * x * y, 50 - 1.5 * y + 0.02 * x) for x, y in pix]
    out["awkward_res(7, 9)"] = GeoBox((7, 9), Affine(0.000123456789, 0, 15.000000123, 0, -0.000123456789, 54.1500003), "EPSG:4326")
    gcp = GCPGeoBox((20, 30), GCPMapping(np.asarray(pix), np.asarray(wld), "EPSG:4326"))
    out["gcp(20, 30)"] = gcp
    # derived GCP boxes: their pixel plane is an affine view of the control points' pixel plane
    out["gcp_cropped(10, 17)"] = gcp[2:12, 3:20]
    out["gcp_padded(24, 34)"] = gcp.pad(2)
    out["gcp_zoomed_out(10, 15)"] = gcp.zoom_out(2)
    return out


def _xr_samples():
    import os
    import random

    thorough = os.environ.get("PYVC_TIER", "quick") == "thorough"
    rnd = random.Random(int(os.environ.get("PYVC_SEED", "0")))

    def gen():
        names = list(_xr_gboxes())
        for nm in names:
            for layout in ("yx", "tyx", "yxb"):
                for backing in ("numpy", "dask"):
                    yield dict(kind="roundtrip", gbox=nm, layout=layout, backing=backing)
        ops_all = ["slice", "rev", "stride", "arith", "astype", "pickle", "slice", "stride"]
        for nm in names:
            if "(1, 1)" in nm or nm.startswith("gcp"):
                continue
            for rep in range(6 if thorough else 2):
                ops = [rnd.choice(ops_all) for _ in range(rnd.randint(1, 5))]
                yield dict(kind="ops", gbox=nm, ops=ops, seed=rnd.randint(0, 10**6), backing=rnd.choice(["numpy", "dask"]), layout=rnd.choice(["yx", "tyx", "yxb"]))
        for nm in ("north_up(7, 9)", "mirrored_x(64, 33)", "rotated(7, 9)", "south_up_nonsquare(64, 33)", "north_up(1, 6)"):
            for dst in ("EPSG:3857", "EPSG:4326", "geobox"):
                for container in ("DataArray", "Dataset"):
                    yield dict(kind="reproject", gbox=nm, dst=dst, container=container, backing="numpy")
            yield dict(kind="reproject", gbox=nm, dst="EPSG:3857", container="DataArray", backing="dask")
        # same CRS as the source, destination of one row / one column / one pixel with another pixel size
        for nm in ("north_up(7, 9)", "south_up_nonsquare(64, 33)"):
            for dshape in ((1, 5), (4, 1), (1, 1)):
                for container in ("DataArray", "Dataset"):
                    yield dict(kind="reproject", gbox=nm, dst="same-crs-geobox", dshape=dshape, container=container, backing="numpy")

    return "30 GeoBoxes (north-up / mirrored / south-up non-square / rotated / sheared x shapes 7x9, 1x6, 5x1, 1x1, 64x33; awkward resolution; GCP-based: plain, cropped, padded, zoomed out) x 3 dimension layouts x numpy/dask round trips; 2 (6 thorough) random sequences of 1-5 operations (slice, reversed, strided, arithmetic, astype, pickle) per GeoBox; 35 reprojections (DataArray/Dataset, to a CRS or to a GeoBox, numpy/dask) + 12 onto a single-row / single-column / single-pixel GeoBox in the source's own CRS with another pixel size", gen()


def _gbox_close(r, g, px_tol=1e-6):
    """same shape and CRS; no pixel of the grid moves by more than px_tol of a pixel"""
    if r is None or tuple(r.shape) != tuple(g.shape) or r.crs != g.crs:
        return False
    ny, nx = g.shape
    A, B = r.affine, g.affine
    sx = max(abs(B.a), abs(B.d), 1e-300)
    sy = max(abs(B.b), abs(B.e), 1e-300)
    s = min(sx, sy)
    err = (abs(A.a - B.a) + abs(A.d - B.d)) * nx + (abs(A.b - B.b) + abs(A.e - B.e)) * ny + abs(A.c - B.c) + abs(A.f - B.f)
    return err <= px_tol * s


def _xr_oracle(args, run=None):
    import pickle
    import random
    import warnings

    import numpy as np
    import xarray as xr

    from odc.geo.geobox import GeoBox
    from odc.geo.xr import xr_coords

    warnings.simplefilter("ignore")
    g = _xr_gboxes()[args["gbox"]]
    ny, nx = g.shape
    layout = args.get("layout", "yx")
    fails = []

    def mk(gbox, layout, backing, attrs=None):
        ny_, nx_ = gbox.shape
        shape = {"yx": (ny_, nx_), "tyx": (2, ny_, nx_), "yxb": (ny_, nx_, 3)}[layout]
        data = np.arange(int(np.prod(shape)), dtype="float32").reshape(shape)
        dims = {"yx": gbox.dimensions, "tyx": ("time", *gbox.dimensions), "yxb": (*gbox.dimensions, "band")}[layout]
        xx = xr.DataArray(data, coords=xr_coords(gbox), dims=dims, attrs=dict(attrs or {}))
        xx.encoding["grid_mapping"] = "spatial_ref"
        if backing == "dask":
            xx = xx.chunk({d: 3 for d in gbox.dimensions})
        return xx

    if args["kind"] == "roundtrip":
        xx = mk(g, layout, args["backing"])
        r = xx.odc.geobox
        if args["gbox"].startswith("gcp"):
            # GCPGeoBox.__eq__ compares the control-point mapping by IDENTITY (known finding): compare by value
            same = r is not None and type(r) is type(g) and tuple(r.shape) == tuple(g.shape) and r.crs == g.crs
            if not same:
                fails.append("post:the recovered GCP GeoBox has the same shape and CRS")
                return fails
            ny_, nx_ = g.shape
            pts = [(0.5, 0.5), (nx_ - 0.5, 0.5), (0.5, ny_ - 0.5), (nx_ / 2, ny_ / 2), (nx_ * 0.3, ny_ * 0.8)]
            errs = [np.abs(np.asarray(r.pix2wld(x, y)) - np.asarray(g.pix2wld(x, y))).max() for x, y in pts]
            if not max(errs) <= 1e-7:
                fails.append(f"post:the recovered GCP GeoBox maps pixels to the same world locations (max difference {max(errs):.3g} CRS units)")
            elif not (r == g):
                fails.append("post:the recovered GCP GeoBox compares equal (==)")
            return fails
        if not _gbox_close(r, g):
            fails.append(f"post:reading the GeoBox back through .odc returns the same grid (shape, CRS, affine to 1e-6 of a pixel; got {r!r})")
        elif not (r == g):
            fails.append("post:the recovered GeoBox is bit-for-bit equal (==)")
        return fails

    if args["kind"] == "ops":
        rnd = random.Random(args["seed"])
        xx = mk(g, layout, args["backing"])
        ydim_name, xdim_name = g.dimensions
        iy, ix = np.arange(ny), np.arange(nx)  # original index of every remaining row / column
        for op in args["ops"]:
            if op in ("slice", "rev", "stride"):
                for dim, idx in ((ydim_name, "iy"), (xdim_name, "ix")):
                    cur = iy if idx == "iy" else ix
                    n = len(cur)
                    if n < 3:
                        continue
                    if op == "slice":
                        a = rnd.randint(0, n - 2)
                        sl = slice(a, rnd.randint(a + 2, n))
                    elif op == "rev":
                        sl = slice(None, None, -1)
                    else:
                        sl = slice(rnd.randint(0, 1), None, rnd.choice([2, 3, -2]))
                    if len(cur[sl]) < 2:
                        continue
                    xx = xx.isel({dim: sl})
                    if idx == "iy":
                        iy = iy[sl]
                    else:
                        ix = ix[sl]
            elif op == "arith":
                xx = xx * 2 + 1
            elif op == "astype":
                xx = xx.astype("int32")
            elif op == "pickle":
                xx = pickle.loads(pickle.dumps(xx))
        r = xx.odc.geobox
        if r is None:
            return [f"post:a GeoBox is still recovered after {args['ops']}"]
        if tuple(r.shape) != (len(iy), len(ix)):
            fails.append(f"post:recovered shape is that of the remaining pixels after {args['ops']}")
            return fails
        if r.crs != g.crs:
            fails.append("post:CRS survives the operations")
        jj, ii = np.meshgrid(np.arange(len(iy)), np.arange(len(ix)), indexing="ij")
        wx, wy = r.affine * (ii + 0.5, jj + 0.5)
        ox, oy = g.affine * (ix[ii] + 0.5, iy[jj] + 0.5)
        scale = max(1.0, np.abs(ox).max(), np.abs(oy).max())
        if not (np.allclose(wx, ox, atol=1e-6 * scale, rtol=0) and np.allclose(wy, oy, atol=1e-6 * scale, rtol=0)):
            fails.append(f"post:every remaining pixel maps to the world location it had in the original after {args['ops']} (max error {max(np.abs(wx - ox).max(), np.abs(wy - oy).max()):.3g})")
        if g.axis_aligned:
            lx, ly = xx[xdim_name].values, xx[ydim_name].values
            if not (np.allclose(wx[0, :], lx, atol=1e-6 * scale, rtol=0) and np.allclose(wy[:, 0], ly, atol=1e-6 * scale, rtol=0)):
                fails.append("post:the recovered GeoBox agrees with the array's coordinate labels")
        return fails

    # reproject
    stale = dict(crs="EPSG:9999", crs_wkt="stale", epsg=1234, units="K")  # (a grid_mapping attribute pointing nowhere would make the INPUT ill-formed)
    xx = mk(g, "yx", args["backing"], attrs=stale)
    if args["dst"] == "same-crs-geobox":
        from affine import Affine

        bb = g.boundingbox
        dny, dnx = args["dshape"]
        dst = GeoBox((dny, dnx), Affine(bb.span_x / (dnx * 1.7), 0, bb.left + bb.span_x * 0.1, 0, -bb.span_y / (dny * 2.3), bb.top - bb.span_y * 0.2), g.crs)
        how = dst
    elif args["dst"] == "geobox":
        dst = GeoBox.from_bbox(g.footprint("EPSG:3857").boundingbox, resolution=max(1.0, g.footprint("EPSG:3857").boundingbox.span_x / 11), tight=True)
        how = dst
    else:
        how = args["dst"]
        dst = xx.odc.output_geobox(how)
    src = xx if args["container"] == "DataArray" else xr.Dataset({"a": xx, "b": xx + 1, "scalar": xr.DataArray(3.0)})
    out = src.odc.reproject(how)
    r = out.odc.geobox
    if not _gbox_close(r, dst):
        fails.append(f"post:the recovered GeoBox of the reprojected {args['container']} is the requested destination grid, CRS included (to 1e-6 of a pixel)")
    elif not (r == dst):
        fails.append("post:the recovered GeoBox is bit-for-bit equal (==)")
    arrays = [out] if args["container"] == "DataArray" else [out["a"], out["b"]]
    for a in arrays:
        bad = [k for k in ("crs", "crs_wkt", "grid_mapping", "epsg") if k in a.attrs]
        if bad:
            fails.append(f"post:stale spatial attributes are removed (still there: {bad})")
        if a.attrs.get("units") != "K":
            fails.append("post:other attributes are kept")
        ag = a.odc.geobox
        if not _gbox_close(ag, dst):
            fails.append("post:every reprojected variable carries the destination grid")
        if tuple(a.shape[-2:]) != tuple(dst.shape):
            fails.append("post:data has the destination shape")
    return fails


contract(
    f"{XR}:xr_coords",
    ["C09"],
    ensures=[("wrap -> recover gives an equal GeoBox; slicing / arithmetic / astype / pickling keep every pixel's world location and the labels; reprojection output carries the requested GeoBox, stale spatial attributes removed", lambda result: True)],
    verify=False,
    trusted_reason="xarray's object model (coordinate / attrs / encoding propagation) and rasterio warping: BOUNDED native check on the real libraries; odc-geo's own label arithmetic is proved by the lemmas of this module",
    native_samples=_xr_samples,
    native_oracle=_xr_oracle,
)


# ---- reprojection: how the output object is assembled (rasterio's warp is a recording ghost) -----------------------------------------


class _GhostNumpy:
    """numpy for the module under proof: real, except that `empty` records the (possibly symbolic) shape"""

    def __init__(self, log):
        self._log = log

    def __getattr__(self, k):
        import numpy

        return getattr(numpy, k)

    def empty(self, shape, dtype=None):
        self._log.append(("empty", tuple(shape), dtype))
        return ("empty-array", tuple(shape), dtype)


class _GhostDAx(GhostDA):
    """ghost DataArray with the .odc accessor (the REAL accessor class, built on this ghost), shape and dtype"""

    def __init__(self, *a, shape=None, dtype="int16", **k):
        super().__init__(*a, **k)
        if shape is not None:  # a data array (coordinate variables keep the shape / values of their labels)
            self.shape = tuple(shape)
            self.values = ("values-of", id(self))
        self.dtype = dtype

    @property
    def odc(self):
        return repo(XR).ODCExtensionDa(self)

    def __getitem__(self, k):
        return self.coords[k]

    def drop_vars(self, names):
        out = _GhostDAx(None, {k: v for k, v in self.coords.items() if k not in names}, self.dims, self.name, self.attrs, shape=self.shape, dtype=self.dtype)
        return out


class _GhostCoords(dict):
    pass


def _mk_src(m, g, layout, attrs, crs_name="spatial_ref"):
    coords = _wrap(m, g, crs_name)
    ny, nx = g.shape.y, g.shape.x
    dims = {"yx": ("y", "x"), "tyx": ("time", "y", "x"), "yxb": ("y", "x", "band")}[layout]
    shape = {"yx": (ny, nx), "tyx": (2, ny, nx), "yxb": (ny, nx, 3)}[layout]
    if layout == "tyx":
        coords["time"] = GhostDA("time-values", None, ("time",), "time", {})
    if layout == "yxb":
        coords["band"] = GhostDA("band-names", None, ("band",), "band", {})
    coords["y_aux"] = GhostDA("aux-along-y", None, ("y",), "y_aux", {})  # a non-index coordinate riding on a spatial dimension
    src = _GhostDAx(None, coords, dims, "a", attrs, shape=shape)
    src.encoding["grid_mapping"] = crs_name
    return src


def _lemma_reproject_assembly(sny, snx, srx, sry, stx, sty, dny, dnx, drx, dry, dtx, dty, layout, src_nodata, dst_nodata, stale, same_crs, crs_name="spatial_ref"):
    aff = repo("affine").Affine
    g = _geobox((sny, snx), aff(srx, 0, stx, 0, sry, sty), "EPSG:32633")
    dst = _geobox((dny, dnx), aff(drx, 0, dtx, 0, dry, dty), "EPSG:32633" if same_crs else "EPSG:4326")
    log = []
    attrs = {"units": "K", "long_name": "temperature"}
    if stale:
        attrs.update(crs="EPSG:9999", crs_wkt="stale wkt", epsg=1234, gcps="old", grid_mapping="spatial_ref")
    if src_nodata is not None:
        attrs["nodata"] = src_nodata

    def run(m):
        saved = (m.numpy, m.rio_reproject, m.is_dask_collection)
        m.xarray.DataArray = _GhostDAx
        try:
            m.numpy = _GhostNumpy(log)
            m.is_dask_collection = lambda x: False

            def warp(src, dst_, s_gbox, d_gbox, **kw):
                log.append(("warp", src, dst_, s_gbox, d_gbox, kw))
                return ("warped", dst_)

            m.rio_reproject = warp
            src = _mk_src(m, g, layout, attrs, crs_name)
            out = m._xr_reproject_da(src, dst, resampling="bilinear", dst_nodata=dst_nodata)
            log.append(("crs-coords", [k for k, c_ in out.coords.items() if m._is_spatial_ref(c_)]))
            st = m._locate_geo_info(out)
            return src, out, st
        finally:
            m.numpy, m.rio_reproject, m.is_dask_collection = saved
            m.xarray.DataArray = GhostDA

    src, out, st = _with_ghost_xarray(run)
    ydim = {"yx": 0, "tyx": 1, "yxb": 0}[layout]
    pre, post = src.shape[:ydim], src.shape[ydim + 2 :]
    empties = [e for e in log if e[0] == "empty"]
    warps = [e for e in log if e[0] == "warp"]
    claim(len(empties) == 1 and empties[0][1] == (*pre, dny, dnx, *post) and empties[0][2] == src.dtype, "destination array: the source's non-spatial axes around the destination GeoBox's shape, same dtype")
    claim(len(warps) == 1 and warps[0][1] == src.values and warps[0][2] == ("empty-array", *empties[0][1:]), "one warp from the source pixels into that array")
    sg, dg, kw = warps[0][3], warps[0][4], warps[0][5]
    claim(And(sg.shape.x == snx, sg.shape.y == sny, _same_affine(sg.affine, g.affine)) and sg.crs == g.crs, "... from the source's (recovered) GeoBox")
    claim(dg is dst, "... to the requested destination GeoBox")
    want_src_nd = None if src_nodata is None else float(src_nodata)
    want_dst_nd = dst_nodata if dst_nodata is not None else want_src_nd
    claim(kw.get("resampling") == "bilinear" and kw.get("ydim") == ydim and kw.get("src_nodata") == want_src_nd and kw.get("dst_nodata") == want_dst_nd, "resampling, Y axis, source nodata (from the attribute) and destination nodata (explicit, else the source's) passed on")
    # -- the object that comes back
    claim(out.values == ("warped", ("empty-array", *empties[0][1:])) or out.data == ("warped", ("empty-array", *empties[0][1:])), "the warped array is wrapped")
    sdim = ("y", "x") if same_crs else ("latitude", "longitude")
    claim(out.dims == (*src.dims[:ydim], *sdim, *src.dims[ydim + 2 :]), "dimensions: the destination's spatial dimensions in place of the source's")
    claim(not any(k in out.attrs for k in ("crs", "crs_wkt", "grid_mapping", "gcps", "epsg")), "stale spatial attributes are removed")
    claim(out.attrs.get("units") == "K" and out.attrs.get("long_name") == "temperature", "other attributes are kept")
    if want_dst_nd is None:
        claim("nodata" not in out.attrs and "_FillValue" not in out.attrs, "no nodata: no nodata attribute")
    else:
        claim(out.attrs.get("nodata") == want_dst_nd, "nodata attribute = the destination nodata")
    claim("y_aux" not in out.coords and all(out.coords[k] is not src.coords[k] for k in ("y", "x") if k in out.coords) and (same_crs or ("y" not in out.coords and "x" not in out.coords)), "every coordinate riding on a source spatial dimension is dropped (same-named destination axes carry fresh labels)")
    claim(all((k in out.coords and out.coords[k] is src.coords[k]) for k in ("time", "band") if k in src.coords), "coordinates of the other dimensions are kept")
    claim(out.encoding.get("grid_mapping") == "spatial_ref" and "spatial_ref" in out.coords, "a CRS coordinate is attached and referenced")
    claim([e[1] for e in log if e[0] == "crs-coords"] == [["spatial_ref"]], "... and it is the ONLY CRS coordinate of the result: the source's own (whatever its name) is not carried over, or it would win once the encoding is dropped")
    r = st.geobox
    claim(r is not None and And(r.shape.y == dny, r.shape.x == dnx) and bool(_same_affine(r.affine, dst.affine)), "the GeoBox recovered from the result is the requested destination grid")
    claim(r.crs == dst.crs and (same_crs or r.crs != g.crs), "... CRS included")


lemma(
    "xr.reproject_output_assembly",
    ["C09"],
    inputs=dict(
        sny=Int(ge=2), snx=Int(ge=2), srx=Real(gt=0), sry=Real(lt=0), stx=Real(), sty=Real(),
        dny=Int(ge=1), dnx=Int(ge=1), drx=Real(gt=0), dry=OneOf(Real(lt=0), Real(gt=0)), dtx=Real(), dty=Real(),
        layout=OneOf("yx", "tyx", "yxb"), src_nodata=OneOf(None, -9999), dst_nodata=OneOf(None, 255), stale=Bool(), same_crs=Bool(), crs_name=OneOf("spatial_ref", "crs"),
    ),
    body=_lemma_reproject_assembly,
    unstub=[f"{XR}:xr_coords", f"{MATH}:affine_from_axis", f"{MATH}:data_resolution_and_offset", f"{MATH}:is_affine_st", f"{MATH}:maybe_int"],
    note="the real _xr_reproject_da on a ghost DataArray (real .odc accessor class on top of it), symbolic source and destination grids; the warp is a recording ghost",
    max_paths=600,
)


class _GhostDS:
    """ghost xarray.Dataset: named variables sharing coordinates"""

    def __init__(self, data_vars=None, coords=None, attrs=None):
        self.data_vars = dict(data_vars or {})
        self.coords = dict(coords or {})
        for v in self.data_vars.values():
            for k, c in getattr(v, "coords", {}).items():
                self.coords.setdefault(k, c)
        self.attrs = dict(attrs or {})
        self.encoding = {}
        dims = {}
        for v in self.data_vars.values():
            for d, n in zip(getattr(v, "dims", ()), getattr(v, "shape", ())):
                dims[d] = n
        self.dims = dims

    def __getitem__(self, k):
        return self.coords[k] if k in self.coords else self.data_vars[k]

    @property
    def odc(self):
        return repo(XR).ODCExtensionDs(self)


def _lemma_reproject_dataset(sny, snx, how_kind):
    aff = repo("affine").Affine
    g = _geobox((sny, snx), aff(10.0, 0, 500000.0, 0, -10.0, 6000000.0), "EPSG:32633")
    dst = _geobox((3, 4), aff(0.5, 0, 10.0, 0, -0.5, 50.0), "EPSG:4326")
    calls = []

    def run(m):
        saved = (m._xr_reproject_da, m.xarray.Dataset, m.xarray.DataArray, m.ODCExtension.output_geobox)
        try:
            m.xarray.DataArray = _GhostDAx
            m.xarray.Dataset = _GhostDS

            def rec(dv, how, **kw):
                calls.append((dv, how, kw))
                return ("reprojected", dv.name)

            m._xr_reproject_da = rec
            m.ODCExtension.output_geobox = lambda self, crs, **kw: (calls.append(("output_geobox", crs, kw)), dst)[1]
            a = _mk_src(m, g, "yx", {"units": "K", "crs": "stale"})
            a.name = "a"
            b = _mk_src(m, g, "tyx", {})
            b.name = "b"
            b.coords = dict(b.coords, **{k: a.coords[k] for k in ("y", "x", "spatial_ref")})
            plain = _GhostDAx(None, {"spatial_ref": a.coords["spatial_ref"]}, ("n",), "plain", {}, shape=(3,))
            ds = _GhostDS({"a": a, "b": b, "plain": plain}, attrs={"title": "t"})
            how = dst if how_kind == "geobox" else "EPSG:4326"
            out = m._xr_reproject_ds(ds, how, resampling="cubic", dst_nodata=7, tight=True)
            return ds, out, a, b, plain
        finally:
            m._xr_reproject_da, m.xarray.Dataset, m.xarray.DataArray, m.ODCExtension.output_geobox = saved

    ds, out, a, b, plain = _with_ghost_xarray(run)
    og = [c for c in calls if c[0] == "output_geobox"]
    da = [c for c in calls if c[0] != "output_geobox"]
    if how_kind == "geobox":
        claim(og == [], "a GeoBox request is used as is")
    else:
        claim(len(og) == 1 and og[0][1] == "EPSG:4326" and og[0][2] == {"tight": True}, "a CRS request: ONE destination GeoBox is computed for the whole Dataset, with the grid options")
    claim([c[0] for c in da] == [a, b], "every geo-registered variable is reprojected, in order")
    claim(all(c[1] is dst for c in da), "... all to the same destination GeoBox")
    claim(all(c[2] == {"resampling": "cubic", "dst_nodata": 7} for c in da), "resampling and nodata passed on, grid options consumed")
    claim(isinstance(out, _GhostDS) and list(out.data_vars) == ["a", "b", "plain"], "the result is a new Dataset of the same variables")
    claim(out.data_vars["a"] == ("reprojected", "a") and out.data_vars["b"] == ("reprojected", "b"), "reprojected variables are used exactly as returned: nothing of the source (attributes, coordinates) is copied over them")
    p = out.data_vars["plain"]
    claim(isinstance(p, _GhostDAx) and "spatial_ref" not in p.coords and p.dims == ("n",), "variables without a GeoBox pass through, without the stale CRS coordinate")


lemma(
    "xr.reproject_dataset_assembly",
    ["C09"],
    inputs=dict(sny=Int(ge=2), snx=Int(ge=2), how_kind=OneOf("geobox", "crs")),
    body=_lemma_reproject_dataset,
    unstub=[f"{XR}:xr_coords", f"{MATH}:affine_from_axis", f"{MATH}:data_resolution_and_offset", f"{MATH}:is_affine_st"],
    note="the real _xr_reproject_ds on a ghost Dataset (real .odc accessor on top of it) with the per-variable reprojection recorded (it is proved by xr.reproject_output_assembly)",
)
