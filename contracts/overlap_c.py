"""
Contracts for odc/geo/overlap.py.   Properties: C03 (planning never drops a needed pixel), C10 (paste
shortcut == nearest-neighbour warp), parts of C11/C12.

The nearest-neighbour warp is replaced by its specification NN: destination pixel d takes source pixel
floor(A (d + 1/2)) per axis when that lies inside the source image (assumed to be what GDAL's
nearest resampling computes).  Same-CRS pairs are parametrised as  dst.affine = src.affine * M  with M
the destination-pixel -> source-pixel map, so that M is available to the specification exactly.
"""
from pyvc.api import *  # noqa: F401,F403

from .geobox_c import GEOBOX, aff_eq, coeffs, crs_obj
from .math_c import AFFINE, dist_to_int

OV = "odc.geo.overlap"
GBX = "odc.geo.geobox"

# ---- compute_axis_overlap --------------------------------------------------------------------------------------


def _in(sl, k):
    return And(sl.start <= k, k < sl.stop)


def _axis_post(Ns, Nd, s, t, src, dst, d):
    x = s * (d + 0.5) + t  # source location of the centre of destination pixel d
    return And(
        # both regions lie within their images
        0 <= src.start,
        src.stop <= Ns,
        0 <= dst.start,
        dst.stop <= Nd,
        # every destination pixel whose centre maps inside the source image lies inside the destination
        # region, and the source location it maps to lies inside the source region
        Implies(And(0 <= d, d < Nd, 0 <= x, x < Ns), And(_in(dst, d), src.start <= x, x < src.stop)),
    )


def _unit_axis_post(Ns, Nd, s, t, src, dst, d):
    """s = +-1 and t an integer: the paste case.  d in dst <=> NN(d) inside the source, and then
    NN(d) = src.start + (d - dst.start)   (mirrored: src.stop - 1 - (d - dst.start));  |src| == |dst|.
    Evaluated with a fork on the sign so that the formula is linear."""
    if not bool(Or(s == 1, s == -1)):
        return True
    if not bool(is_int_valued(t)):
        return True
    ti = floor(t)
    pos = bool(s == 1)
    nn = (d + ti) if pos else (ti - d - 1)  # floor(s*(d+1/2)+t)
    inside = And(0 <= nn, nn < Ns)
    k = d - dst.start
    return And(
        Implies(And(0 <= d, d < Nd), Iff(_in(dst, d), inside)),
        Implies(And(0 <= d, d < Nd, inside), nn == ((src.start + k) if pos else (src.stop - 1 - k))),
        Max(src.stop - src.start, 0) == Max(dst.stop - dst.start, 0),
    )


contract(
    f"{OV}:compute_axis_overlap",
    ["C03", "C10"],
    inputs=[dict(Ns=Int(ge=0), Nd=Int(ge=0), s=Real(gt=0), t=Real(), d=Int()), dict(Ns=Int(ge=0), Nd=Int(ge=0), s=Real(lt=0), t=Real(), d=Int())],
    ensures=[
        ("regions within their images; no destination pixel whose centre maps inside the source is dropped (d is a ghost pixel, universally quantified)", lambda Ns, Nd, s, t, d, result: _axis_post(Ns, Nd, s, t, result[0], result[1], d)),
        ("integer bounds", lambda result: And(*[is_int_obj(v) for sl in result for v in (sl.start, sl.stop)])),
        (
            "unit scale and whole-pixel shift (the paste case): d in dst <=> NN(d) inside the source; NN(d) = src.start + (d - dst.start) (mirrored when s < 0); |src| == |dst|",
            lambda Ns, Nd, s, t, d, result: _unit_axis_post(Ns, Nd, s, t, result[0], result[1], d),
        ),
    ],
    returns=lambda Ns: Tup(Slice(Int(), Int(), None), Slice(Int(), Int(), None)),
)


# ---- box_overlap --------------------------------------------------------------------------------------------------------


def _st(sx, sy):
    return Build("affine:Affine", Real(gt=0) if sx > 0 else Real(lt=0), 0.0, Real(), 0.0, Real(gt=0) if sy > 0 else Real(lt=0), Real())


contract(
    f"{OV}:box_overlap",
    ["C03", "C10"],
    inputs=[dict(src_shape=Tup(Int(ge=0), Int(ge=0)), dst_shape=Tup(Int(ge=0), Int(ge=0)), ST=_st(sx, sy), dx=Int(), dy=Int()) for sx in (1, -1) for sy in (1, -1)],
    ensures=[
        (
            "per axis: regions within their images and no needed destination pixel dropped",
            lambda src_shape, dst_shape, ST, dx, dy, result: And(
                _axis_post(src_shape[0], dst_shape[0], ST.e, ST.f, result[0][0], result[1][0], dy),
                _axis_post(src_shape[1], dst_shape[1], ST.a, ST.c, result[0][1], result[1][1], dx),
            ),
        ),
        (
            "per axis, for unit scale and whole-pixel shift: the regions are exactly what a nearest-neighbour warp needs / fills",
            lambda src_shape, dst_shape, ST, dx, dy, result: And(
                _unit_axis_post(src_shape[0], dst_shape[0], ST.e, ST.f, result[0][0], result[1][0], dy),
                _unit_axis_post(src_shape[1], dst_shape[1], ST.a, ST.c, result[0][1], result[1][1], dx),
            ),
        ),
    ],
    ghost_args={f"{OV}:compute_axis_overlap": lambda call_index, dx, dy: dict(d=dy if call_index == 0 else dx)},
    returns=lambda ST: Tup(Tup(Slice(Int(), Int(), None), Slice(Int(), Int(), None)), Tup(Slice(Int(), Int(), None), Slice(Int(), Int(), None))),
)

def _read_scale(scale, tol):
    if bool(scale < 1):
        return 1
    if bool(dist_to_int(scale) < tol):
        return floor(scale + 0.5) if bool(scale - floor(scale) >= 0.5) else floor(scale)
    return floor(scale)


# ---- _pick_read_scale ---------------------------------------------------------------------------------------------------------

contract(
    f"{OV}:_pick_read_scale",
    ["C03", "C10"],
    inputs=dict(scale=Real(gt=0), tol=Real(ge=0, le=0.25)),
    ensures=[
        ("a positive integer", lambda result: And(is_int_obj(result), result >= 1)),
        ("exceeds the scale by no more than the tolerance", lambda scale, tol, result: Or(result == 1, result <= scale + tol)),
        ("largest such integer", lambda scale, result: Implies(scale >= 1, result > scale - 1)),
        ("exact (strongest postcondition): 1 below 1; the nearest integer when within tol of it; else the floor", lambda scale, tol, result: result == _read_scale(scale, tol)),
    ],
    returns=lambda scale: Int(ge=1),
)

# ---- get_scale_from_linear_transform: assumed for axis-aligned input, bounded check ------------------------------------------


def _gs_samples():
    import itertools

    from affine import Affine

    def gen():
        for a, e in itertools.product((-7.5, -2.0, -1.0, -0.25, 0.001, 1.0, 3.0, 1e4), repeat=2):
            for c, f in ((0.0, 0.0), (12.5, -3e6)):
                yield dict(A=Affine(a, 0.0, c, 0.0, e, f))

    return "128 axis-aligned affines (scales -7.5 .. 1e4 of either sign, 2 translations)", gen()


contract(
    f"{OV}:get_scale_from_linear_transform",
    ["C03", "C10"],
    inputs=dict(A=Build("affine:Affine", Real(), 0.0, Real(), 0.0, Real(), Real())),
    requires=[lambda A: And(A.a != 0, A.e != 0, A.b == 0, A.d == 0)],
    ensures=[("for a scale+translation matrix: (|sx|, |sy|)", lambda A, result: And(approx_eq(result.x, Abs(A.a)), approx_eq(result.y, Abs(A.e))))],
    returns=lambda A: Value(repo("odc.geo.types").xy_(Abs(A.a), Abs(A.e))),
    verify=False,
    trusted_reason="goes through decompose_rws (Cholesky factorisation): assumed for exactly axis-aligned input; BOUNDED native check",
    native_samples=_gs_samples,
)

# ---- _can_paste -----------------------------------------------------------------------------------------------------------------------


def _stA(sx, sy):
    return Build("affine:Affine", Real(gt=0) if sx > 0 else Real(lt=0), 0.0, Real(), 0.0, Real(gt=0) if sy > 0 else Real(lt=0), Real())


def _k_used(A):
    """the read scale the function picked: the value returned by its call of _pick_read_scale (whose
    own contract pins it down exactly); natively recomputed"""
    if symbolic():
        cs = calls_of(f"{OV}:_pick_read_scale")
        if cs:
            return cs[-1]["__result__"]
    return _read_scale(_minabs(A), 0.001)


def _minabs(A):
    ax, ay = abs(A.a), abs(A.e)
    return ax if bool(ax <= ay) else ay


def _paste_cond(A, stol, ttol):
    """what paste-ability means: integer scale k >= 1 within stol, both axes within stol of k, whole-pixel shift (in overview pixels) within ttol"""
    ax, ay = abs(A.a), abs(A.e)
    sc = ax if bool(ax <= ay) else ay
    k = _read_scale(sc, 0.001)
    return And(
        dist_to_int(sc) < stol,
        Abs(ax / k - 1) <= stol,
        Abs(ay / k - 1) <= stol,
        dist_to_int(A.c / k) < ttol,
        dist_to_int(A.f / k) < ttol,
    )


contract(
    f"{OV}:_can_paste",
    ["C10"],
    inputs=[dict(A=_stA(sx, sy), stol=Real(gt=0, le=0.001), ttol=Real(gt=0, le=0.25)) for sx in (1, -1) for sy in (1, -1)] + [dict(A=AFFINE(), stol=Real(gt=0, le=0.001), ttol=Real(gt=0, le=0.25))],
    requires=[lambda A: Or(And(A.b == 0, A.d == 0), Abs(A.b) >= 1e-10, Abs(A.d) >= 1e-10), lambda A: A.a * A.e - A.b * A.d != 0],
    ensures=[
        ("rotation / shear is never paste-able", lambda A, result: Implies(Or(Abs(A.b) >= 1e-10, Abs(A.d) >= 1e-10), Not(result[0])) if not (isinstance(A.b, float) and A.b == 0) else True),
        ("reported only for an integer scale (within stol)", lambda A, stol, result: True if result[0] is False else Implies(result[0], dist_to_int(_minabs(A)) < stol)),
        (
            "reported only when both axes are within stol of that integer scale k",
            lambda A, stol, result: True if result[0] is False else Implies(result[0], And(Abs(abs((1 / _k_used(A)) * A.a) - 1) <= stol, Abs(abs((1 / _k_used(A)) * A.e) - 1) <= stol)),
        ),
        (
            "reported only for a whole-pixel shift (in overview pixels) within ttol",
            lambda A, ttol, result: True if result[0] is False else Implies(result[0], And(dist_to_int((1 / _k_used(A)) * A.c) < ttol, dist_to_int((1 / _k_used(A)) * A.f) < ttol)),
        ),
    ],
    returns=lambda A: Tup(SymBoolShape(), None),
    note="exactly axis-aligned matrices and matrices with rotation/shear >= 1e-10 (the band 0 < |b|,|d| < 1e-10 is not covered: there the scale comes from the Cholesky factor)",
)

# ---- native_pix_transform (same CRS) ------------------------------------------------------------------------------------------


def _dst_of(src, M, shape, crs="EPSG:3857"):
    return repo(GBX).GeoBox(shape, src.affine * M, crs_obj(crs))


def _nondeg(A):
    return A.a * A.e - A.b * A.d != 0


class _LPT:
    """structured stub result: a LinearPointTransform whose .back.linear is literally M"""


def _lpt(M):
    m = repo(OV)
    fwd = m.LinearPointTransform(~M)
    back = m.LinearPointTransform(M, fwd)
    fwd._back = back
    return fwd


contract(
    f"{OV}:native_pix_transform",
    ["C03", "C10"],
    inputs=dict(src=GEOBOX(), M=AFFINE(), dshape=Tup(Int(ge=1), Int(ge=1)), dst=Derived(lambda src, M, dshape: _dst_of(src, M, dshape), "GeoBox with affine src.affine * M (M maps destination pixels to source pixels), same CRS")),
    requires=[lambda src, dst, M: And(_nondeg(src.affine), _nondeg(M), _nondeg(dst.affine)), lambda src, dst, M: aff_eq(dst.affine, src.affine * M), lambda src, dst: src.crs == dst.crs],
    ensures=[
        ("same CRS: a linear pixel transform F = inv(dst.affine) * src.affine with F * M == identity, i.e. its inverse (the destination->source direction) is M", lambda M, result: aff_eq(result.linear * M, repo("affine").Affine.identity())),
    ],
    returns=lambda M: Value(_lpt(M)),
    note="the stub hands callers a transform whose .back.linear is literally M: that inv(F) == M follows from F * M == I by uniqueness of the matrix inverse (mathematical fact, not re-derived by the solver)",
)

# ---- compute_reproject_roi: same-CRS, scale + translation ------------------------------------------------------------------------


def _M_case(sx, sy, k):
    """M = diag(sx*k, sy*k) + translation: integer scale k (1 or symbolic >= 2), either orientation"""
    kk = k
    d = dict(src=GEOBOX(), k=kk, tx=Real(), ty=Real(), dshape=Tup(Int(ge=1), Int(ge=1)), ttol=Real(gt=0, le=0.25), stol=Real(gt=0, le=0.001), dx=Int(), dy=Int())
    d["M"] = Derived(lambda k, tx, ty: repo("affine").Affine(sx * k, 0.0, tx, 0.0, sy * k, ty), f"Affine({sx}k, 0, tx, 0, {sy}k, ty)")
    d["dst"] = Derived(lambda src, M, dshape: _dst_of(src, M, dshape), "dst.affine = src.affine * M")
    d["padding"] = None
    d["align"] = None
    return d


def _rr_post_common(src, dst, k, result):
    return And(result.read_shrink == k, is_int_obj(result.read_shrink), approx_eq(result.scale, k))


def _ax(M, axis):
    return (M.a, M.c) if axis == "x" else (M.e, M.f)


def _pasted(result):
    return result.paste_ok is True or (not isinstance(result.paste_ok, bool) and bool(result.paste_ok))


def _rr_nn_part(axis, part):
    """one axis / one part of: paste with read_shrink == 1 is the nearest-neighbour warp (for the ACTUAL, unsnapped M)"""

    def f(src, dst, M, k, dx, dy, result):
        if k != 1 or not _pasted(result):
            return True
        i = 0 if axis == "y" else 1
        d, Ns, Nd, ssl, dsl = (dy, src.shape.y, dst.shape.y, result.roi_src[0], result.roi_dst[0]) if axis == "y" else (dx, src.shape.x, dst.shape.x, result.roi_src[1], result.roi_dst[1])
        s, t = _ax(M, axis)
        nn = floor(s * (d + 0.5) + t)
        inside = And(0 <= nn, nn < Ns)
        kk = d - dsl.start
        if part == "iff":
            return Implies(And(0 <= d, d < Nd), Iff(_in(dsl, d), inside))
        if part == "copy":
            return Implies(And(0 <= d, d < Nd, inside), nn == ((ssl.start + kk) if bool(s > 0) else (ssl.stop - 1 - kk)))
        return And(Max(ssl.stop - ssl.start, 0) == Max(dsl.stop - dsl.start, 0), 0 <= ssl.start, ssl.stop <= Ns, 0 <= dsl.start, dsl.stop <= Nd)

    return f


_NN_TEXT = {
    "iff": "a destination pixel lies in roi_dst exactly when its nearest-neighbour source pixel lies inside the source image",
    "copy": "and that source pixel is the one at the same offset in roi_src (mirrored where the grids are mirrored)",
    "size": "roi_src and roi_dst have the same size and lie inside their images",
}


def _rr_paste_shrink(src, dst, M, k, dx, dy, result):
    """read_shrink = k > 1: source region is the destination region scaled by k; no needed pixel dropped"""
    if not _pasted(result):
        return True
    cl = []
    for axis, d, Ns, Nd, ssl, dsl in (("y", dy, src.shape.y, dst.shape.y, result.roi_src[0], result.roi_dst[0]), ("x", dx, src.shape.x, dst.shape.x, result.roi_src[1], result.roi_dst[1])):
        s, t = _ax(M, axis)
        x = s * (d + 0.5) + t
        cl += [
            Max(ssl.stop - ssl.start, 0) == k * Max(dsl.stop - dsl.start, 0),
            0 <= ssl.start, ssl.stop < Ns + k, 0 <= dsl.start, dsl.stop <= Nd,
            ssl.start % k == 0,
            Implies(And(0 <= d, d < Nd, 0 <= x, x < Ns), And(_in(dsl, d), ssl.start <= x, x < ssl.stop)),
        ]
    return And(*cl)


_RR_INPUTS = [_M_case(sx, sy, k) for sx in (1, -1) for sy in (1, -1) for k in (1, 2, 3, 4, 5)]

contract(
    f"{OV}:compute_reproject_roi",
    ["C03", "C10"],
    inputs=_RR_INPUTS,
    requires=[lambda src, dst: And(_nondeg(src.affine), _nondeg(dst.affine))],
    ensures=[
        ("scale is the pixel-size ratio; read_shrink is that integer", lambda src, dst, k, result: _rr_post_common(src, dst, k, result)),
        *[(f"paste_ok with read_shrink == 1 is the nearest-neighbour warp, {ax} axis: {_NN_TEXT[part]}", _rr_nn_part(ax, part)) for ax in ("y", "x") for part in ("iff", "copy", "size")],
        ("paste_ok with read_shrink = k > 1: roi_src is roi_dst scaled by k (may extend up to the next multiple of k), no needed pixel dropped", lambda src, dst, M, k, dx, dy, result: True if k == 1 else _rr_paste_shrink(src, dst, M, k, dx, dy, result)),
    ],
    ghost_args={
        f"{OV}:native_pix_transform": lambda M, dshape: dict(M=M, dshape=dshape),
        f"{OV}:box_overlap": lambda dx, dy: dict(dx=dx, dy=dy),
    },
    note="same-CRS pairs related by an exact integer scale k in {1, 2, 3, 4, 5} (enumerated: with symbolic k the VCs are non-linear and both solvers return unknown), either orientation per axis, any real shift, any invertible source grid, all image sizes; default padding/align. "
    "Near-integer scales within stol (k(1+delta)) are accepted by the code but are NOT covered by the nearest-neighbour clause (see DESIGN.md: drift delta*d exceeds half a pixel on wide images); "
    "rotated / fractional-scale / cross-CRS pairs take the sampled path: BOUNDED check below",
    max_paths=1500,
)


# ---- the sampled path (rotation / fractional scale / sub-pixel shift / other CRS): assumed + bounded ------------------------------


def _rel_samples():
    import itertools

    import numpy as np
    from affine import Affine

    from odc.geo.geobox import GeoBox

    def gen():
        base = GeoBox((23, 31), Affine(10.0, 0.0, 500000.0, 0.0, -10.0, 6000000.0), "EPSG:32633")
        rel = [Affine.translation(3.3, -2.7), Affine.rotation(17.0), Affine.scale(1.7, 2.3) * Affine.translation(-4.2, 1.1), Affine.rotation(-60.0) * Affine.scale(0.6), Affine.translation(40.0, 0.0), Affine.scale(-1.0, 1.0) * Affine.translation(-20.5, 3.25), Affine.translation(100.0, 100.0)]
        for M, shape, pad, align in itertools.product(rel, [(11, 17), (40, 5)], [None, 0, 2], [None, 4]):
            dst = GeoBox(shape, base.affine * M, base.crs)
            yield dict(src=base, dst=dst, padding=pad, align=align)
        # other CRSs inside their valid areas
        for crs, res in (("EPSG:4326", 0.0002), ("EPSG:3857", 15.0), ("EPSG:3035", 12.0), ("EPSG:32634", 10.0)):
            for frac in (0.2, 0.7):
                ext = base.extent.to_crs(crs).boundingbox
                x0 = ext.left + frac * (ext.right - ext.left) * 0.5
                dst = GeoBox.from_bbox((x0, ext.bottom, ext.right + (ext.right - ext.left) * 0.3, ext.top), crs, resolution=res)
                yield dict(src=base, dst=dst, padding=None, align=None)
                yield dict(src=dst, dst=base, padding=None, align=None)
        # rasters only 1-2 pixels thin whose long side curves in the other CRS (a lon/lat strip across a UTM zone at 100 m and back)
        big = GeoBox((2400, 2400), Affine(100.0, 0.0, 380000.0, 0.0, -100.0, 6120000.0), "EPSG:32633")
        for thin in ((1, 2000), (2, 1500), (1500, 1)):
            ny, nx = thin
            strip = GeoBox(thin, Affine(0.0015 if nx > 1 else 0.002, 0.0, 13.6 if nx > 1 else 15.1, 0.0, -0.0009 if ny > 2 else -0.002, 54.0 if ny <= 2 else 55.0), "EPSG:4326")
            yield dict(src=big, dst=strip, padding=None, align=None)
            yield dict(src=strip, dst=big.zoom_out(8), padding=None, align=None)

    return "84 same-CRS pairs (sub-pixel shift, rotation, fractional scale, mirror, touching, disjoint) x padding/align options + 16 cross-CRS pairs (geographic, Mercator, LAEA, UTM neighbour zone) + 6 pairs with a raster 1-2 pixels thin and 1500-2000 long across CRSs; every destination pixel checked by brute force", gen()


def _c03_native_post(src, dst, padding, align, result):
    """brute force over every destination pixel centre (native only)"""
    import numpy as np

    from odc.geo.types import xy_

    ny, nx = dst.shape
    (sy, sx), (dy, dx) = result.roi_src, result.roi_dst
    inside_img = lambda sl, n: 0 <= sl.start and sl.stop <= max(n, sl.stop if result.read_shrink > 1 else n)
    ok = 0 <= sy.start and 0 <= sx.start and sy.stop < src.shape[0] + result.read_shrink and sx.stop < src.shape[1] + result.read_shrink
    ok = ok and 0 <= dy.start and dy.stop <= ny and 0 <= dx.start and dx.stop <= nx
    pts = [xy_(i + 0.5, j + 0.5) for j in range(ny) for i in range(nx)]
    back = result.transform.back(pts)
    bad = []
    for p, q in zip(pts, back):
        if not (np.isfinite(q.x) and np.isfinite(q.y)):
            continue
        if 0 <= q.x < src.shape[1] and 0 <= q.y < src.shape[0]:
            i, j = int(p.x), int(p.y)
            if not (dx.start <= i < dx.stop and dy.start <= j < dy.stop and sx.start <= q.x < sx.stop and sy.start <= q.y < sy.stop):
                bad.append((i, j))
    return ok and not bad and isinstance(result.read_shrink, int) and result.read_shrink >= 1


contract(
    f"{OV}:compute_reproject_roi@sampled",
    ["C03"],
    kind="lemma",
    inputs=dict(src=None, dst=None, padding=None, align=None),
    body=lambda src, dst, padding, align: claim(_c03_native_post(src, dst, padding, align, __import__("odc.geo.overlap", fromlist=["x"]).compute_reproject_roi(src, dst, padding=padding, align=align)), "regions within their images; no destination pixel whose centre maps inside the source is dropped"),
    verify=False,
    trusted_reason="sampled boundary + numpy envelope (+ pyproj for other CRSs): BOUNDED native brute-force check, not a proof",
    native_samples=_rel_samples,
)


contract(
    f"{OV}:_relative_rois",
    ["C03"],
    inputs=dict(),
    ensures=[("assumed: some regions inside the two images (the sampled path is only checked by the bounded stand-in)", lambda result: True)],
    returns=lambda src, dst: Tup(Tup(Slice(Int(ge=0), Int(ge=0), None), Slice(Int(ge=0), Int(ge=0), None)), Tup(Slice(Int(ge=0), Int(ge=0), None), Slice(Int(ge=0), Int(ge=0), None))),
    verify=False,
    trusted_reason="numpy/float32 sampling of the boundary and envelope of the projected points: outside reach; see compute_reproject_roi@sampled",
)


# ---- the sampled path, data flow: WHICH boundary is sampled HOW densely, and what the samples are turned into ---------------------------
#
# What can be decided about the sampled path without numpy / pyproj is its data flow: each raster's perimeter is sampled with the
# requested number of points PER SIDE on BOTH axes (a thin raster's long side included), the source region is the padded / aligned
# envelope of the back-projected destination perimeter, the destination region the envelope of the forward-projected perimeter of
# that source region.  numpy.linspace, polygon_path / edge_index and the envelope (roi_from_points) are bounded / proved elsewhere.


def _lemma_roi_boundary_flow(y0, y1, x0, x1, n):
    m = repo("odc.geo.roi")
    log = []

    class Lin:
        def __init__(self, a, b, num, dtype):
            self.a, self.b, self.num, self.dtype = a, b, num, dtype

    class Path:
        def __init__(self, x, y, closed, transposed=False):
            self.x, self.y, self.closed, self.transposed = x, y, closed, transposed

        @property
        def T(self):
            return Path(self.x, self.y, self.closed, not self.transposed)

    class GhostNp:
        ndarray = __import__("numpy").ndarray

        @staticmethod
        def linspace(start, stop, num=50, endpoint=True, retstep=False, dtype=None, axis=0):
            log.append(("linspace", start, stop, num, endpoint, retstep))
            return Lin(start, stop, num, dtype)

    def ghost_path(x, y=None, closed=True):
        log.append(("polygon_path", x, y, closed))
        return Path(x, x if y is None else y, closed)

    saved = (m.np, m.polygon_path)
    try:
        m.np, m.polygon_path = GhostNp, ghost_path
        out = m.roi_boundary((slice(y0, y1), slice(x0, x1)), n)
    finally:
        m.np, m.polygon_path = saved
    lins = [e for e in log if e[0] == "linspace"]
    claim(len(lins) == 2 and all(e[4] is True and e[5] is False for e in lins), "two evenly spaced sample sets, end points included")
    claim(isinstance(out, Path) and out.transposed and out.closed is False, "the result is the open perimeter path through the sample grid, one point per row")
    claim(isinstance(out.x, Lin) and And(out.x.a == x0, out.x.b == x1, out.x.num == n), "X samples: exactly pts_per_side points from the first to the last column edge of the region")
    claim(isinstance(out.y, Lin) and And(out.y.a == y0, out.y.b == y1, out.y.num == n), "Y samples: exactly pts_per_side points from the first to the last row edge -- independently of the region's other side")


lemma(
    "roi.roi_boundary_flow",
    ["C03", "C12"],
    inputs=dict(y0=Int(), y1=Int(), x0=Int(), x1=Int(), n=Int(ge=2)),
    requires=[lambda y0, y1, x0, x1: And(y0 <= y1, x0 <= x1)],
    body=_lemma_roi_boundary_flow,
    unstub=["odc.geo.roi:roi_boundary"],
    note="the real roi_boundary with numpy.linspace and polygon_path recorded: any region (1-pixel thin ones included), any number of samples per side",
)


def _lemma_relative_rois_flow(pts, padding, align, empty):
    m = repo(OV)
    log = []

    class Box:
        def __init__(self, tag, shape):
            self.tag, self.shape = tag, shape

    class Tr:
        def __call__(self, pts_):
            log.append(("tr", pts_))
            return ("fwd", pts_)

        def back(self, pts_):
            log.append(("tr.back", pts_))
            return ("back", pts_)

    src, dst = Box("src", ("sny", "snx")), Box("dst", ("dny", "dnx"))
    roi_src = "EMPTY-ROI" if empty else "ROI-SRC"

    def g_boundary(g, n=16):
        log.append(("gbox_boundary", g, n))
        return ("perimeter", g.tag, n)

    def g_roi_boundary(roi, n=2):
        log.append(("roi_boundary", roi, n))
        return ("roi-perimeter", roi, n)

    def g_from_points(xy, shape, padding=0, align=None):
        log.append(("roi_from_points", xy, shape, padding, align))
        return roi_src if shape == src.shape else "ROI-DST"

    saved = (m.gbox_boundary, m.roi_boundary, m.roi_from_points, m.roi_is_empty, m.stack_xy, m.unstack_xy)
    try:
        m.gbox_boundary, m.roi_boundary, m.roi_from_points = g_boundary, g_roi_boundary, g_from_points
        m.roi_is_empty = lambda r: r == "EMPTY-ROI"
        m.stack_xy = lambda p: ("stack", p)
        m.unstack_xy = lambda p: ("unstack", p)
        out = m._relative_rois(src, dst, Tr(), pts, padding, align)
    finally:
        m.gbox_boundary, m.roi_boundary, m.roi_from_points, m.roi_is_empty, m.stack_xy, m.unstack_xy = saved
    per = ("unstack", ("perimeter", "dst", pts))
    claim(("gbox_boundary", dst, pts) in log and ("tr.back", per) in log, "the DESTINATION perimeter, pts_per_side samples per side, is projected back into the source")
    fp = [e for e in log if e[0] == "roi_from_points"]
    claim(len(fp) >= 1 and fp[0][1:] == (("stack", ("back", per)), src.shape, padding, align), "source region = envelope of those points within the source image, with the requested padding and alignment")
    if empty:
        claim(len(fp) == 1 and out[0] == roi_src and tuple((s.start, s.stop) for s in out[1]) == ((0, 0), (0, 0)), "no overlap: both regions empty")
        return
    sper = ("unstack", ("roi-perimeter", roi_src, pts))
    claim(("roi_boundary", roi_src, pts) in log and ("tr", sper) in log, "the perimeter of THAT source region, sampled as densely, is projected forward")
    claim(len(fp) == 2 and fp[1][1:] == (("stack", ("fwd", sper)), dst.shape, 0, None), "destination region = envelope of those points within the destination image (padding is not added twice)")
    claim(out == (roi_src, "ROI-DST"), "(roi_src, roi_dst) returned")


lemma(
    "overlap.relative_rois_flow",
    ["C03"],
    inputs=dict(pts=Int(ge=2), padding=Int(ge=0), align=OneOf(None, Int(ge=1)), empty=Bool()),
    body=_lemma_relative_rois_flow,
    unstub=[f"{OV}:_relative_rois"],
    note="data flow of the real _relative_rois over recorded collaborators (boundary sampling, point transform, envelope)",
)


def _edge_samples():
    def gen():
        for ny in range(1, 7):
            for nx in range(1, 7):
                for closed in (False, True):
                    yield dict(ny=ny, nx=nx, closed=closed)
        for ny, nx in ((1, 40), (40, 1), (2, 33), (17, 2)):
            yield dict(ny=ny, nx=nx, closed=False)

    return "edge_index / polygon_path for every grid of 1..6 x 1..6 sample points (open and closed) + 4 thin long grids; linspace end points and spacing for the same sizes", gen()


def _edge_oracle(args, run=None):
    import numpy as np

    from odc.geo.math import edge_index
    from odc.geo.roi import polygon_path, roi_boundary

    ny, nx, closed = args["ny"], args["nx"], args["closed"]
    fails = []
    idx = list(edge_index((ny, nx), closed=closed))
    perim = {(j, i) for j in range(ny) for i in range(nx) if j in (0, ny - 1) or i in (0, nx - 1)}
    body = idx[:-1] if closed and len(idx) > 1 else idx
    degenerate = ny == 1 or nx == 1  # a single row / column of samples has no ring: cells may be visited twice (never produced by roi_boundary)
    if set(body) != perim or (len(body) != len(perim) and not degenerate):
        fails.append("post:edge_index visits every perimeter cell of the grid exactly once")
    if idx[0] != (0, 0) or (closed and idx[-1] != (0, 0)):
        fails.append("post:edge_index starts at (0, 0) (and returns there when closed)")
    if not degenerate and any(abs(a[0] - b[0]) + abs(a[1] - b[1]) != 1 for a, b in zip(body, body[1:])):
        fails.append("post:consecutive perimeter cells are neighbours (ring order)")
    x = np.arange(nx) * 2.5 + 1.0
    y = np.arange(ny) * -3.0 + 7.0
    pp = polygon_path(x, y, closed=closed)
    if pp.shape != (2, len(idx)) or not all(pp[0, k] == x[i] and pp[1, k] == y[j] for k, (j, i) in enumerate(idx)):
        fails.append("post:polygon_path is (x[ix], y[iy]) along edge_index")
    if not closed and nx >= 2 and ny >= 2:
        rb = roi_boundary((slice(3, 3 + 5 * (ny - 1)), slice(-2, -2 + 7 * (nx - 1))), max(nx, ny))
        n = max(nx, ny)
        want_x = {-2 + 7 * (nx - 1) * k / (n - 1) for k in range(n)}
        want_y = {3 + 5 * (ny - 1) * k / (n - 1) for k in range(n)}
        got_x = {float(v) for v in rb[:, 0]}
        got_y = {float(v) for v in rb[:, 1]}
        if rb.shape != (4 * (n - 1), 2) or any(min(abs(w - g) for g in got_x) > 1e-4 for w in want_x) or any(min(abs(w - g) for g in got_y) > 1e-4 for w in want_y):
            fails.append("post:roi_boundary has pts_per_side evenly spaced samples on every side, corners included")
    return fails


contract(
    "odc.geo.math:edge_index",
    ["C03", "C12"],
    ensures=[("perimeter cells of the sample grid, each once, in ring order", lambda result: True)],
    verify=False,
    trusted_reason="a generator over four index loops feeding numpy fancy indexing (polygon_path) and numpy.linspace: BOUNDED native check (the index arithmetic does not depend on the sample values)",
    native_samples=_edge_samples,
    native_oracle=_edge_oracle,
)


# ---- BOUNDED: the paste plan against the real GDAL nearest-neighbour warp (validates the NN specification) -----------------------------


def _paste_samples():
    import os
    import random

    from affine import Affine

    thorough = os.environ.get("PYVC_TIER", "quick") == "thorough"
    rnd = random.Random(int(os.environ.get("PYVC_SEED", "0")))

    def gen():
        shifts = [(0, 0), (3, -2), (-4, 5), (17, 11), (-30, -20), (39, 49), (60, 0)]
        residues = [(0.0, 0.0), (0.04, -0.03), (-0.049, 0.049), (0.2, 0.0)]  # the last is beyond ttol: no paste
        for (tx, ty) in shifts:
            for (rx, ry) in residues if thorough else residues[:3] + residues[3:][: (tx == 3)]:
                for mirror in (False, True) if thorough or tx in (0, 3) else (False,):
                    for dshape in ((30, 35), (8, 90)):
                        yield dict(shift=(tx + rx, ty + ry), mirror=mirror, dshape=dshape, rot=False)
        yield dict(shift=(2.0, 3.0), mirror=False, dshape=(20, 20), rot=True)

    return "source 40x50; destinations on the same grid: 7 whole-pixel shifts x sub-pixel residues (0, within ttol, at ttol, beyond) x plain / X-mirrored x 2 shapes (+ a rotated one): plan vs rasterio nearest warp of the whole destination", gen()


def _paste_oracle(args, run=None):
    import numpy as np
    from affine import Affine

    from odc.geo.geobox import GeoBox
    from odc.geo.overlap import compute_reproject_roi
    from odc.geo.warp import rio_reproject

    src_g = GeoBox((40, 50), Affine(10.0, 0, 500_000.0, 0, -10.0, 6_000_000.0), "EPSG:32633")
    tx, ty = args["shift"]
    M = Affine.translation(tx, ty)
    ny, nx = args["dshape"]
    if args["mirror"]:
        M = M * Affine.translation(nx, 0) * Affine.scale(-1, 1)
    if args["rot"]:
        M = M * Affine.rotation(20)
    dst_g = GeoBox((ny, nx), src_g.affine * M, src_g.crs)
    src = np.arange(1, 40 * 50 + 1, dtype="int32").reshape(40, 50)
    rr = compute_reproject_roi(src_g, dst_g, ttol=0.05)
    fails = []
    ref = np.zeros((ny, nx), dtype="int32")
    rio_reproject(src, ref, src_g, dst_g, resampling="nearest", src_nodata=0, dst_nodata=0)
    if not rr.paste_ok:
        # the plan must still cover every destination pixel GDAL fills
        filled = ref != 0
        cover = np.zeros_like(filled)
        cover[rr.roi_dst] = True
        if (filled & ~cover).any():
            fails.append("post:no destination pixel the warp fills lies outside roi_dst")
        return fails
    if rr.read_shrink != 1:
        return fails
    got = np.zeros((ny, nx), dtype="int32")
    block = src[rr.roi_src]
    if args["mirror"]:
        block = block[:, ::-1]
    if got[rr.roi_dst].shape != block.shape:
        return [f"post:paste-able plan has equally sized regions ({got[rr.roi_dst].shape} vs {block.shape})"]
    got[rr.roi_dst] = block
    if not np.array_equal(got, ref):
        n = int((got != ref).sum())
        fails.append(f"post:copying roi_src into roi_dst is pixel-identical to GDAL's nearest-neighbour warp of the whole destination ({n} pixels differ)")
    return fails


contract(
    f"{OV}:compute_reproject_roi@gdal",
    ["C10"],
    kind="lemma",
    inputs=dict(),
    body=lambda: None,
    verify=False,
    trusted_reason="GDAL nearest-neighbour resampling is ASSUMED to compute NN(d) = floor(A(d + 1/2)) in the proofs: this BOUNDED native check compares the paste plan with the real warp",
    native_samples=_paste_samples,
    native_oracle=_paste_oracle,
)
