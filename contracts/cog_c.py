"""
Contracts for odc/geo/cog/_shared.py and the integer bookkeeping of _tifffile.py.
Property: C05 (second sentence: layout, padding, halving, tile sizes, ordering, offset table).

The first sentence of C05 (independent TIFF readers decode the original pixels, transform, CRS,
nodata) is tifffile/imagecodecs/GDAL/dask behaviour: no contract here can state it -- not decided.
"""
from pyvc.api import *  # noqa: F401,F403

from .geobox_c import GEOBOX, view, T_

SH = "odc.geo.cog._shared"
TF = "odc.geo.cog._tifffile"
TYPES = "odc.geo.types"


def mult16(v):
    return v % 16 == 0


# ---- block sizes ---------------------------------------------------------------------------------------------

contract(
    f"{SH}:adjust_blocksize",
    ["C05", "C15"],
    inputs=dict(block=Int(ge=1), dim=OneOf(0, Int(ge=1))),
    ensures=[
        ("a multiple of 16", lambda result: mult16(result)),
        (
            "the requested block rounded up; for an image side smaller than the block: that side rounded up",
            lambda block, dim, result: Ite(And(0 < dim, dim < block), And(result >= dim, result - dim < 16), And(result >= block, result - block < 16)),
        ),
    ],
    returns=lambda block: Int(ge=16),
)

contract(
    f"{SH}:norm_blocksize",
    ["C05"],
    inputs=dict(block=OneOf(Int(ge=1), Tup(Int(ge=1), Int(ge=1)))),
    ensures=[
        (
            "both tile sides are multiples of 16, the requested size rounded up",
            lambda block, result: And(
                mult16(result[0]), mult16(result[1]),
                result[0] >= (block[0] if isinstance(block, tuple) else block), result[0] - (block[0] if isinstance(block, tuple) else block) < 16,
                result[1] >= (block[1] if isinstance(block, tuple) else block), result[1] - (block[1] if isinstance(block, tuple) else block) < 16,
            ),
        )
    ],
    returns=lambda block: Tup(Int(ge=16), Int(ge=16)),
)

# ---- number of overview levels: while loop with invariant ------------------------------------------------------

contract(
    f"{SH}:num_overviews",
    ["C05"],
    inputs=dict(block=Int(ge=1), dim=Int(ge=0)),
    old=lambda dim: dict(dim0=dim),
    ensures=[
        ("non-negative", lambda result: result >= 0),
        ("after that many halvings the side fits one block: floor(dim / 2**n) <= block", lambda block, dim, result: Or(result == 0, True) and exists(0, None, lambda h: And(h <= block, h * pow2(result) <= dim, dim < (h + 1) * pow2(result)))),
        ("no level when the side already fits", lambda block, dim, result: Implies(dim <= block, result == 0)),
    ],
    loops={
        0: LoopSpec(
            # dim == floor(dim0 / 2**c):   dim * 2**c <= dim0 < (dim + 1) * 2**c
            invariant=lambda block, dim, c, dim0: And(c >= 0, dim >= 0, dim * pow2(c) <= dim0, dim0 < (dim + 1) * pow2(c), Implies(dim0 <= block, c == 0)),
            decreases=lambda dim: dim,
        )
    },
    returns=lambda block: Int(ge=0),
    note="dim0 is the ghost entry value of `dim` (parameters are mutable)",
)
# ghost input dim0 == dim at entry
from pyvc.contract import CONTRACTS as _C, Derived as _D  # noqa: E402

_C[f"{SH}:num_overviews"].inputs["dim0"] = _D(lambda dim: dim, "entry value of dim")

# ---- compute_cog_spec ----------------------------------------------------------------------------------------------------


def _S2(ge=0):
    return Build(f"{TYPES}:Shape2d", x=Int(ge=ge), y=Int(ge=ge))


contract(
    f"{SH}:compute_cog_spec",
    ["C05"],
    inputs=[dict(data_shape=Tup(Int(ge=1), Int(ge=1)), tile_shape=Tup(Int(ge=1), Int(ge=1)), max_pad=None), dict(data_shape=_S2(1), tile_shape=_S2(1), max_pad=OneOf(0, Int(ge=1)))],
    ensures=[
        ("tile sides are multiples of 16", lambda result: And(mult16(result[1].x), mult16(result[1].y))),
        ("levels >= 0", lambda result: result[2] >= 0),
        (
            "the image is padded only upwards, by less than 2**levels, to a multiple of 2**levels (when padding is not capped)",
            lambda data_shape, max_pad, result: And(
                *[And(P >= d, P - d < pow2(result[2]), P % pow2(result[2]) == 0) for P, d in zip(result[0].yx, (data_shape if isinstance(data_shape, tuple) else data_shape.yx))]
            )
            if max_pad is None
            else And(*[And(P >= d, Implies(max_pad == 0, P == d)) for P, d in zip(result[0].yx, (data_shape if isinstance(data_shape, tuple) else data_shape.yx))]),
        ),
    ],
    returns=lambda data_shape: Tup(_S2(1), _S2(16), Int(ge=0)),
)


def _lemma_halving(q, m):
    """a side that is a multiple of 2*m halves exactly, to a multiple of m.  With m = 2**(n-1) this is the
    induction step of 'each overview is exactly half of the previous level' down the n levels."""
    S = repo(TYPES).Shape2d
    P = q * m * 2
    h = S(x=P, y=P).shrink2()
    claim(And(h.x * 2 == P, h.y * 2 == P), "exactly half (no remainder)")
    claim(h.x == q * m, "and again a multiple of m")


lemma("cog.exact_halving", ["C05"], inputs=dict(q=Int(ge=0), m=Int(ge=1)), body=_lemma_halving, note="Shape2d.shrink2 on a padded side (compute_cog_spec proves the padded side is a multiple of 2**levels)")

contract(
    f"{SH}:cog_gbox",
    ["C05"],
    inputs=[dict(gbox=GEOBOX(), tile=OneOf(None, Int(ge=1), Tup(Int(ge=1), Int(ge=1))), nlevels=None), dict(gbox=GEOBOX(), tile=None, nlevels=Int(ge=0, le=20))],
    ensures=[
        ("same origin and pixel grid: the image is padded on the right/bottom only", lambda gbox, result: And(view(result, gbox, T_(0, 0)), result.shape.x >= gbox.shape.x, result.shape.y >= gbox.shape.y)),
        ("with a level count: sides are multiples of 2**nlevels, padded by less than that", lambda gbox, nlevels, result: True if nlevels is None else And(*[And(P % pow2(nlevels) == 0, P - d < pow2(nlevels)) for P, d in zip(result.shape.yx, gbox.shape.yx)])),
    ],
    ghost_args={},
)

# ---- axis order ---------------------------------------------------------------------------------------------------------------

contract(
    f"{SH}:yaxis_from_shape",
    ["C05", "C15"],
    inputs=[dict(shape=Tup(Int(ge=1), Int(ge=1)), gbox=OneOf(None, GEOBOX())), dict(shape=Tup(Int(ge=1), Int(ge=1), Int(ge=1)), gbox=OneOf(None, GEOBOX())), dict(shape=OneOf(Tup(Int(ge=1)), Tup(Int(), Int(), Int(), Int())), gbox=None)],
    raises=[
        (
            ValueError,
            lambda shape, gbox: len(shape) not in (2, 3)
            or (len(shape) == 3 and gbox is not None and Not(Or(shape[2] == 3, shape[2] == 4, And(gbox.shape.y == shape[0], gbox.shape.x == shape[1]), And(gbox.shape.y == shape[1], gbox.shape.x == shape[2])))),
        )
    ],
    ensures=[
        (
            "2-d: YX; 3-d: whatever the GeoBox says when exactly one of the two layouts matches it (also for images 3 or 4 pixels wide); otherwise band-last for 3 or 4 trailing samples (RGB(A)) or a GeoBox matching the first two axes, else band-first",
            lambda shape, gbox, result: (result == ("YX", 0))
            if len(shape) == 2
            else (
                Ite(Or(shape[2] == 3, shape[2] == 4), result[0] == "YXS", result[0] == "SYX")
                if gbox is None
                else (lambda yxs, syx: Ite(And(yxs, Not(syx)), result[0] == "YXS", Ite(And(syx, Not(yxs)), result[0] == "SYX", Ite(Or(shape[2] == 3, shape[2] == 4), result[0] == "YXS", Ite(yxs, result[0] == "YXS", result[0] == "SYX")))))(
                    And(gbox.shape.y == shape[0], gbox.shape.x == shape[1]), And(gbox.shape.y == shape[1], gbox.shape.x == shape[2])
                )
            ),
        ),
        ("y axis position matches the order", lambda result: result[1] == (1 if result[0] == "SYX" else 0)),
    ],
)

# ---- CogMeta: tile grid and flat index ----------------------------------------------------------------------------------------------


def META(axis=None):
    return Obj(
        f"{SH}:CogMeta",
        axis=OneOf("YX", "YXS", "SYX") if axis is None else axis,
        shape=_S2(1),
        tile=_S2(1),
        nsamples=Int(ge=1),
        dtype="uint8",
        compression=8,
        predictor=1,
        compressionargs={},
        gbox=None,
        overviews=(),
        nodata=None,
    )


contract(
    f"{SH}:CogMeta.chunked",
    ["C05"],
    inputs=dict(self=META()),
    ensures=[("number of tiles per axis is ceil(side / tile side)", lambda self, result: And(*[And((k - 1) * n < N, N <= k * n) for k, N, n in zip(result.yx, self.shape.yx, self.tile.yx)]))],
    returns=lambda self: _S2(1),
)
contract(
    f"{SH}:CogMeta.num_planes",
    ["C05"],
    inputs=dict(self=META()),
    ensures=[("band-first images store one plane per sample, others a single plane", lambda self, result: result == (self.nsamples if self.axis == "SYX" else 1))],
    inline=True,
)
contract(
    f"{SH}:CogMeta.num_tiles",
    ["C05"],
    inputs=dict(self=META()),
    ensures=[("planes x tile rows x tile columns", lambda self, result: result == (self.nsamples if self.axis == "SYX" else 1) * _chunked_spec(self)[0] * _chunked_spec(self)[1])],
    returns=lambda self: Int(ge=1),
)


def _chunked_spec(m):
    if symbolic():
        cs = calls_of(f"{SH}:CogMeta.chunked")
        if cs:
            r = cs[-1]["__result__"]
            return r.y, r.x
    ny, nx = ((N + n - 1) // n for N, n in zip(m.shape.yx, m.tile.yx))
    return ny, nx


def _planes(m):
    return m.nsamples if m.axis == "SYX" else 1


contract(
    f"{SH}:CogMeta.flat_tile_idx",
    ["C05"],
    inputs=dict(self=META(), idx=Tup(Int(), Int(), Int())),
    raises=[(IndexError, lambda self, idx: Not(And(0 <= idx[0], idx[0] < _planes(self), 0 <= idx[1], idx[1] < _chunked_spec(self)[0], 0 <= idx[2], idx[2] < _chunked_spec(self)[1])))],
    ensures=[
        ("row-major rank of (sample, y, x)", lambda self, idx, result: result == idx[0] * (_chunked_spec(self)[0] * _chunked_spec(self)[1]) + idx[1] * _chunked_spec(self)[1] + idx[2]),
        ("within [0, num_tiles)", lambda self, idx, result: And(0 <= result, result < _planes(self) * _chunked_spec(self)[0] * _chunked_spec(self)[1])),
    ],
    returns=lambda self: Int(ge=0),
)


def _lemma_flat_injective(ns, ny, nx, a, b):
    """row-major rank is injective on the index box (so distinct tiles get distinct table slots)"""
    f = lambda i: i[0] * (ny * nx) + i[1] * nx + i[2]  # noqa: E731
    inbox = lambda i: And(0 <= i[0], i[0] < ns, 0 <= i[1], i[1] < ny, 0 <= i[2], i[2] < nx)  # noqa: E731
    claim(Implies(And(inbox(a), inbox(b), f(a) == f(b)), And(a[0] == b[0], a[1] == b[1], a[2] == b[2])), "f(a) == f(b) => a == b")
    claim(Implies(inbox(a), And(0 <= f(a), f(a) < ns * ny * nx)), "range is [0, ns*ny*nx)")


lemma("cog.flat_tile_idx_bijective", ["C05"], inputs=dict(ns=Int(ge=1), ny=Int(ge=1), nx=Int(ge=1), a=Tup(Int(), Int(), Int()), b=Tup(Int(), Int(), Int())), body=_lemma_flat_injective, note="with the range clause: a bijection from the index box onto [0, num_tiles)")

# ---- _extract_tile_info: offsets are the prefix sums of the stream ---------------------------------------------------------------------

TILEREC = Tup(Int(), Int(), Int(), Int(), Int(ge=0))  # (level, plane, y, x, size)


class _LevelStandIn:
    """one level of a flattened pyramid seen through what _extract_tile_info uses: num_tiles and flat_tile_idx -- an
    UNINTERPRETED map of (plane, y, x) into [0, num_tiles) (that the real flat_tile_idx is in range and injective on
    valid indexes is its own contract + lemma cog.flat_tile_idx_bijective; distinct table slots for distinct tiles
    is a precondition here)"""

    def __init__(self, k, ntiles):
        self.k, self.num_tiles = k, ntiles

    def slot(self, p, y, x):
        import z3

        from pyvc.sym import SymInt, term_of

        f = z3.Function(f"fti{self.k}", z3.IntSort(), z3.IntSort(), z3.IntSort(), z3.IntSort())
        return SymInt(f(*[term_of(v)[0] if term_of(v) is not None else z3.IntVal(int(v)) for v in (p, y, x)]))

    def flat_tile_idx(self, pyx):
        return self.slot(*pyx)


class _MetaStandIn:
    def __init__(self, ntiles):
        self.levels = tuple(_LevelStandIn(k, n) for k, n in enumerate(ntiles))

    def flatten(self):
        return self.levels

    def __vc_src__(self, model, c):
        from pyvc.engine import to_src

        return "R('contracts.cog_c:_eti_native_meta')(" + to_src([lv.num_tiles for lv in self.levels], model, c) + ")"


def _eti_native_meta(ntiles):
    """a real CogMeta whose level k has exactly ntiles[k] tiles (one row of 16 x 16 tiles): slot of (0, 0, x) is x"""
    from odc.geo.cog._shared import CogMeta
    from odc.geo.types import wh_

    lv = [CogMeta("YX", wh_(16 * max(1, int(n)), 16), wh_(16, 16), 1, "uint8", 8, 1) for n in ntiles]
    lv[0].overviews = tuple(lv[1:])
    return lv[0]


def _slot_of(meta, rec):
    lv = meta.flatten()
    k = rec[0]
    if symbolic():
        acc = lv[-1].slot(rec[1], rec[2], rec[3])
        for q in range(len(lv) - 2, -1, -1):
            acc = Ite(k == q, lv[q].slot(rec[1], rec[2], rec[3]), acc)
        return acc
    return lv[k].flat_tile_idx((rec[1], rec[2], rec[3]))


def _ntiles_of(meta, k):
    lv = meta.flatten()
    if symbolic():
        acc = lv[-1].num_tiles
        for q in range(len(lv) - 2, -1, -1):
            acc = Ite(k == q, lv[q].num_tiles, acc)
        return acc
    return lv[k].num_tiles


def _eti_pre(meta, tiles, start_offset, P):
    """P = running byte position (ghost): P[0] = start, P[j+1] = P[j] + size_j; records address valid, pairwise distinct slots"""
    n = seq_len(tiles)
    nl = len(meta.flatten())
    rec = lambda j: seq_get(tiles, j)
    return And(
        seq_len(P) == n + 1,
        seq_get(P, 0) == start_offset,
        forall(0, n, lambda j: seq_get(P, j + 1) == seq_get(P, j) + rec(j)[4]),
        forall(0, n, lambda j: And(0 <= rec(j)[0], rec(j)[0] < nl, rec(j)[4] >= 0, 0 <= _slot_of(meta, rec(j)), _slot_of(meta, rec(j)) < _ntiles_of(meta, rec(j)[0]))),
        forall(0, n, lambda i: forall(0, n, lambda j: Implies(And(i != j, rec(i)[0] == rec(j)[0]), _slot_of(meta, rec(i)) != _slot_of(meta, rec(j))))),
    )


def _eti_entry(info, meta, rec):
    """(offset, length) stored for the slot the record addresses"""
    k = rec[0]
    t = _slot_of(meta, rec)
    nl = len(info)
    off, ln = seq_get(info[nl - 1][0], t), seq_get(info[nl - 1][1], t)
    for q in range(nl - 2, -1, -1):
        off, ln = Ite(k == q, seq_get(info[q][0], t), off), Ite(k == q, seq_get(info[q][1], t), ln)
    return off, ln


def _eti_written(info, meta, tiles, P, upto):
    rec = lambda j: seq_get(tiles, j)
    return forall(0, upto, lambda j: Implies(rec(j)[4] != 0, And(_eti_entry(info, meta, rec(j))[0] == seq_get(P, j), _eti_entry(info, meta, rec(j))[1] == rec(j)[4])))


def _eti_sizes(info, meta):
    return And(*[And(seq_len(a) == lv.num_tiles, seq_len(b) == lv.num_tiles) for (a, b), lv in zip(info, meta.flatten())])


def _eti_inputs(nlevels):
    nt = Tup(*[Int(ge=1)] * nlevels)
    return dict(
        ntiles=nt,
        meta=Derived(lambda ntiles: _MetaStandIn(ntiles) if symbolic() else _eti_native_meta(ntiles), "pyramid of that many levels with ntiles[k] tiles on level k"),
        tiles=SeqOf(TILEREC, "list"),
        start_offset=Int(ge=0),
        P=SeqOf(Int(), "list", min_len=1),
    )


def _eti_samples():
    import itertools
    import random

    from odc.geo.cog._shared import CogMeta
    from odc.geo.types import wh_

    rnd = random.Random(int(__import__("os").environ.get("PYVC_SEED", "0")))

    def gen():
        for axis, (w, h), tile, ns in itertools.product(("YX", "YXS", "SYX"), ((100, 70), (16, 16), (33, 200)), (16, 32), (1, 3)):
            m0 = CogMeta(axis, wh_(w, h), wh_(tile, tile), ns, "uint8", 8, 1)
            m1 = CogMeta(axis, wh_((w + 1) // 2, (h + 1) // 2), wh_(tile, tile), ns, "uint8", 8, 1)
            m0.overviews = (m1,)
            recs = [(li, *pyx) for li, mm in reversed(list(enumerate(m0.flatten()))) for pyx in mm.tidx()]
            sizes = [rnd.choice([0, 1, 7, 500]) for _ in recs]
            if rnd.random() < 0.5:
                rnd.shuffle(recs)
            start = rnd.choice([0, 8, 12345])
            P = [start]
            for sz in sizes:
                P.append(P[-1] + sz)
            yield dict(meta=m0, tiles=[(*r, sz) for r, sz in zip(recs, sizes)], start_offset=start, P=P, ntiles=tuple(mm.num_tiles for mm in m0.flatten()))

    return "36 two-level pyramids (3 axis orders x 3 shapes x 2 tile sizes x 1/3 samples), tile records in COG or shuffled order, sizes in {0,1,7,500}", gen()


def _eti_post(meta, tiles, start_offset, result):
    mm = meta.flatten()
    pos = start_offset
    want = [([0] * m.num_tiles, [0] * m.num_tiles) for m in mm]
    spans = []
    for li, p, y, x, sz in tiles:
        t = mm[li].flat_tile_idx((p, y, x))
        if sz != 0:
            want[li][0][t], want[li][1][t] = pos, sz
            spans.append((pos, pos + sz))
            pos += sz
    ok = [(list(a), list(b)) for a, b in result] == want
    spans.sort()
    nogaps = all(a[1] == b[0] for a, b in zip(spans, spans[1:])) and (not spans or (spans[0][0] == start_offset and spans[-1][1] == pos))
    return ok and nogaps


def _eti_post_native(meta, tiles, start_offset, result):
    if symbolic():
        return True
    return _eti_post(meta, tiles, start_offset, result)


contract(
    f"{TF}:_extract_tile_info",
    ["C05"],
    inputs=[_eti_inputs(n) for n in (1, 2, 3)],
    requires=[_eti_pre],
    ensures=[
        ("one (offsets, byte counts) table per level, one entry per tile", lambda meta, result: And(len(result) == len(meta.flatten()), _eti_sizes(result, meta))),
        (
            "every non-empty tile's entry addresses exactly that tile's bytes: offset = start + total size of the tiles before it in the stream, byte count = its size (consecutive in stream order: no gaps, no overlaps)",
            lambda meta, tiles, P, result: _eti_written(result, meta, tiles, P, seq_len(tiles)),
        ),
        ("bounded-part: the whole table incl. absent tiles (native samples)", _eti_post_native),
    ],
    loops={
        0: LoopSpec(
            invariant=lambda tile_info, byte_offset, meta, tiles, P, _k: And(byte_offset == seq_get(P, _k), _eti_sizes(tile_info, meta), _eti_written(tile_info, meta, tiles, P, _k)),
            modifies=lambda tile_info: [q for pair in tile_info for q in pair],
        )
    },
    native_samples=_eti_samples,
    note="proved for a stream of ANY length over 1-3 pyramid levels with any tile counts (loop invariant over the running byte position; the level's slot map is an uninterpreted injective function: flat_tile_idx's own contract and lemma); the bounded native samples additionally check the whole table incl. absent tiles on real CogMeta pyramids",
)

# ---- _make_empty_cog: layout of the pages (tifffile involved -> bounded) -------------------------------------------------------------------


def _mec_samples():
    import itertools

    from affine import Affine

    from odc.geo.geobox import GeoBox

    def gen():
        shapes = [(1, 5000), (5000, 1), (3, 1030), (1, 1), (17, 33), (512, 512), (513, 1025), (1000, 2049), (2048, 4097), (300, 70)]
        for (ny, nx), blocks, layout, with_gbox in itertools.product(shapes, ([512], [256, 128], [17], [1024, 512, 256]), ("YX", "YXS", "SYX"), (False, True)):
            shape = (ny, nx) if layout == "YX" else ((ny, nx, 3) if layout == "YXS" else (2, ny, nx))
            gbox = GeoBox((ny, nx), Affine(10.0, 0, 5e5, 0, -10.0, 6e6), "EPSG:32633") if with_gbox else None
            yield dict(shape=shape, dtype="int16", gbox=gbox, blocksize=blocks)

    return "10 image shapes (single row/column, 1x1, odd, power-of-two +-1, narrower than a tile) x 4 blocksize lists x YX/YXS/SYX x with/without GeoBox", gen()


def _mec_post(shape, dtype, gbox, blocksize, result):
    meta, _hdr = result
    levels = meta.flatten()
    n = len(levels) - 1
    ny, nx = (shape[0], shape[1]) if len(shape) == 2 or (len(shape) == 3 and shape[-1] in (3, 4)) else (shape[1], shape[2])
    P = levels[0].shape
    ok = P.y >= ny and P.x >= nx and P.y - ny < 2**n and P.x - nx < 2**n and P.y % 2**n == 0 and P.x % 2**n == 0
    for a, b in zip(levels, levels[1:]):
        ok = ok and b.shape.x * 2 == a.shape.x and b.shape.y * 2 == a.shape.y
    for m in levels:
        ok = ok and m.tile.x % 16 == 0 and m.tile.y % 16 == 0
    if gbox is not None:
        ok = ok and levels[0].gbox.affine == gbox.affine and all(m.gbox.shape == m.shape for m in levels)
        ok = ok and all(abs(m.gbox.extent.area - levels[0].gbox.extent.area) < 1e-6 * levels[0].gbox.extent.area for m in levels)
    order = list(meta.cog_tidx())
    lv = [t[0] for t in order]
    ok = ok and lv == sorted(lv, reverse=True)  # all overview tiles precede full-resolution tiles
    ok = ok and len(order) == sum(m.num_tiles for m in levels) and len(set(order)) == len(order)
    return ok


contract(
    f"{TF}:_make_empty_cog",
    ["C05"],
    ensures=[("padded right/bottom to a multiple of 2**levels by less than that; each overview exactly half of the previous level; tile sides multiples of 16; GeoBoxes of the levels cover the same footprint from the same origin; overview tiles precede full-resolution tiles in COG order, each tile once", _mec_post)],
    verify=False,
    trusted_reason="drives tifffile.TiffWriter: BOUNDED native check of the resulting metadata (the arithmetic it rests on -- compute_cog_spec, exact halving, tile sizes -- is proved)",
    native_samples=_mec_samples,
)


def _order_body():
    """save_cog_with_dask hands the tile bags to the multi-part writer in reverse order of creation
    (levels were created full resolution first), i.e. overviews first -- structural check on the source"""
    import ast
    import inspect

    mod = repo(TF)
    if symbolic():
        from pyvc import shadow

        src = shadow.LOADED_SOURCES[TF]
    else:
        src = inspect.getsource(mod)
    fn = [n for n in ast.parse(src).body if isinstance(n, ast.FunctionDef) and n.name == "save_cog_with_dask"][0]
    text = ast.unparse(fn)
    claim("for scale_idx, (mm, img) in enumerate(zip(meta.flatten(), layers)):" in text and "_tiles.append(tt)" in text, "tile bags are created level by level, full resolution (scale_idx 0) first")
    # the level loop must be the OUTER one: with the plane loop outside, a later plane's full-resolution tiles
    # would be created (hence written) between the overview tiles of earlier planes
    fors = [n for n in ast.walk(fn) if isinstance(n, ast.For) and any(isinstance(x, ast.Attribute) and x.attr == "append" and isinstance(x.value, ast.Name) and x.value.id == "_tiles" for x in ast.walk(n))]
    outer = [n for n in fors if not any(n is not o and any(n is d for d in ast.walk(o)) for o in fors)]
    claim(len(outer) == 1 and "scale_idx" in ast.unparse(outer[0].target) and any(isinstance(n, ast.For) and "sample_idx" in ast.unparse(n.target) for n in ast.walk(outer[0]) if n is not outer[0]), "the level loop is the outer loop and the plane loop the inner one: all bags of a level are adjacent in creation order")
    claim("tiles_write_order = _tiles[::-1]" in text, "and written in reverse: all overview tile data precedes full-resolution tile data")
    claim(text.count("mk_header=_patch_hdr") == 2, "the header (offset table) is produced by _patch_hdr from the observed stream for both sinks")


lemma("cog.write_order_structural", ["C05"], inputs=dict(), body=_order_body, note="structural obligations on the AST of save_cog_with_dask (the dask graph itself cannot be run under contract)")


# =====================================================================================================
# BOUNDED native round trip of the parallel (dask) COG writer -- first sentence of C05
# =====================================================================================================


def _dcog_samples():
    import os
    import random

    thorough = os.environ.get("PYVC_TIER", "quick") == "thorough"
    rnd = random.Random(int(os.environ.get("PYVC_SEED", "0")))

    def one(i, **fix):
        layout = fix.get("layout", rnd.choice(["yx", "yx", "yxs", "syx"]))
        dtype = fix.get("dtype", rnd.choice(["uint8", "int16", "uint16", "float32"]))
        shape = fix.get("shape", rnd.choice([(300, 200), (70, 530), (1, 300), (260, 1), (17, 33), (513, 257), (64, 64)]))
        return dict(
            idx=i,
            shape=shape,
            layout=layout,
            nsamples=1 if layout == "yx" else fix.get("nsamples", rnd.choice([2, 3])),
            dtype=dtype,
            nodata=fix.get("nodata", rnd.choice([None, 0, 255] if dtype == "uint8" else [None, 0, 65535] if dtype == "uint16" else [None, -1, 0] if dtype != "float32" else [None, float("nan"), -9999.0])),
            blocksize=fix.get("blocksize", rnd.choice([None, [64], [128, 64], [48], [256, 128, 64], [(32, 64)]])),
            compression=fix.get("compression", rnd.choice(["deflate", "deflate", "zstd", "lzw", None, "NONE"])),
            predictor=(lambda pr: pr)(fix.get("predictor", rnd.choice([None, None, True, False]))),
            chunks=fix.get("chunks", rnd.choice([(64, 64), (100, 37), (1000, 1000), (16, 256)])),
            spill_sz=fix.get("spill_sz", rnd.choice([None, 1, 1 << 10, 1 << 20])),
            writes_per_chunk=fix.get("writes_per_chunk", rnd.choice([None, 1, 2])),
            scheduler=fix.get("scheduler", rnd.choice(["synchronous", "threads"])),
            rotated=fix.get("rotated", rnd.random() < 0.2),
            crs=rnd.choice(["EPSG:4326", "EPSG:3857", "EPSG:32633"]),
            huge=fix.get("huge", False),
        )

    def no_predictor_without_compression(c):
        if c["compression"] == "NONE" and c["predictor"]:
            c["predictor"] = False  # tifffile refuses a predictor on uncompressed tiles: outside the quantifier
        return c

    def gen():
        fixed = [
            dict(shape=(300, 200), layout="yx", dtype="int16", nodata=-1, blocksize=[64], chunks=(64, 64), compression="deflate"),
            dict(shape=(1, 300), layout="yx", dtype="uint8", blocksize=[64, 32], chunks=(1, 100)),
            dict(shape=(260, 1), layout="yx", dtype="float32", nodata=float("nan"), blocksize=[64], chunks=(64, 1)),
            dict(shape=(17, 33), layout="yxs", nsamples=3, dtype="uint8", blocksize=[64], chunks=(17, 33)),  # narrower than a tile
            dict(shape=(513, 257), layout="syx", nsamples=2, dtype="uint16", blocksize=[128, 64], chunks=(100, 100), spill_sz=1),
            dict(shape=(70, 530), layout="yx", dtype="float32", nodata=-9999.0, blocksize=[256, 128, 64], chunks=(70, 64), writes_per_chunk=2, scheduler="threads"),
            dict(shape=(64, 64), layout="yx", dtype="int16", blocksize=None, chunks=(32, 32)),
            dict(shape=(40, 48), layout="yx", dtype="uint8", blocksize=[(16, 32)], chunks=(40, 48)),
            dict(shape=(100, 120), layout="yx", dtype="uint8", blocksize=[64], chunks=(64, 64), compression="NONE"),  # uncompressed tiles
            dict(shape=(33, 70), layout="syx", nsamples=2, dtype="float32", nodata=float("nan"), blocksize=[32], chunks=(33, 35), compression="NONE", spill_sz=1),  # wide tiles; last tile column as wide as a tile is tall
            dict(shape=(50, 96), layout="syx", nsamples=2, dtype="int16", blocksize=[(32, 64), (16, 32)], chunks=(32, 64)),
            dict(shape=(272, 272), layout="yx", dtype="uint8", nodata=0, blocksize=[16], chunks=(64, 64)),  # padding to 2**levels adds a WHOLE tile row and column
            dict(shape=(16, 1000), layout="yxs", nsamples=3, dtype="int16", blocksize=[16], chunks=(16, 100)),
            dict(shape=(272, 300), layout="syx", nsamples=2, dtype="uint16", nodata=65535, blocksize=[16], chunks=(272, 300), compression="NONE"),
            dict(shape=(400, 400), layout="yx", dtype="uint8", blocksize=[256, 128], chunks=((100, 256, 44), (256, 144))),  # IRREGULAR source chunks whose largest chunk equals the tile
            dict(shape=(400, 400), layout="syx", nsamples=2, dtype="int16", blocksize=[256, 128], chunks=((144, 256), (144, 256))),
            # more than four (level, plane) tile streams in every small combination: the write order must stay overview-first
            dict(shape=(100, 120), layout="syx", nsamples=3, dtype="uint8", blocksize=[64], chunks=(64, 64)),  # 3 planes x (1 overview + full) = 6 streams
            dict(shape=(100, 120), layout="syx", nsamples=2, dtype="int16", blocksize=[32], chunks=(64, 64)),  # 2 planes x 3 levels = 6
            dict(shape=(100, 120), layout="syx", nsamples=4, dtype="uint8", blocksize=[64], chunks=(100, 120)),  # 4 planes x 2 levels = 8
            dict(shape=(130, 70), layout="syx", nsamples=3, dtype="uint16", blocksize=[32], chunks=(32, 32), scheduler="threads"),  # 3 planes x 3 levels = 9
            dict(shape=(50, 3), layout="syx", nsamples=2, dtype="uint8", blocksize=[16], chunks=(50, 3)),  # band-first and only 3 pixels wide: not RGB
            dict(shape=(40, 4), layout="syx", nsamples=3, dtype="int16", blocksize=[16], chunks=(16, 4)),
            dict(shape=(70, 90), layout="yx", dtype="int32", blocksize=[32], chunks=(32, 32), huge=True),  # band statistics with many digits
            dict(shape=(40, 40), layout="syx", nsamples=3, dtype="uint32", nodata=0, blocksize=[16], chunks=(16, 16), huge=True),
            dict(shape=(33, 47), layout="yxs", nsamples=3, dtype="float64", blocksize=[16], chunks=(33, 47), huge=True, compression="NONE"),
        ]
        i = 0
        for f in fixed:
            yield dict(case=no_predictor_without_compression(one(i, **f)))
            i += 1
        for _ in range(120 if thorough else 24):
            yield dict(case=no_predictor_without_compression(one(i)))
            i += 1

    return "25 fixed (incl. 6 / 8 / 9 tile streams, band-first images 3 / 4 pixels wide, irregularly chunked sources, images whose padding adds whole tile rows / columns, full-range int32 / uint32 and 1e300-sized float64 values) + 24 (quick) / 120 (thorough) pseudo-random combinations of 7 shapes (incl. single row / column, narrower than a tile) x YX / YXS / SYX x dtypes x nodata x block-size lists x compression (incl. none) / predictor x source chunking x spill size x writes per chunk x synchronous / threaded scheduler x CRS x rotated", gen()


def _dcog_oracle(args, run=None):
    import io
    import math
    import os
    import tempfile
    import warnings

    import dask
    import numpy as np
    import rasterio
    import xarray as xr
    from affine import Affine

    from odc.geo.cog import save_cog_with_dask
    from odc.geo.crs import CRS
    from odc.geo.geobox import GeoBox
    from odc.geo.xr import xr_coords

    warnings.simplefilter("ignore")
    c = args["case"]
    h, w = c["shape"]
    A = Affine(10.0, 0, 500_000.0, 0, -10.0, 6_000_000.0) if c["crs"] != "EPSG:4326" else Affine(0.125, 0, 15.0, 0, -0.125, 50.0)
    if c["rotated"]:
        A = A * Affine.rotation(17.0)
    g = GeoBox((h, w), A, c["crs"])
    rng = np.random.default_rng(c["idx"])
    ns = c["nsamples"]
    full = {"yx": (h, w), "yxs": (h, w, ns), "syx": (ns, h, w)}[c["layout"]]
    if c.get("huge"):
        # values whose statistics need many digits (full range of wide integer types, 1e300-sized floats)
        if np.dtype(c["dtype"]).kind == "f":
            pix = (rng.normal(0, 1, size=full) * 1e30).astype(c["dtype"]) if c["dtype"] == "float32" else rng.normal(0, 1, size=full) * 1e300
        else:
            ii = np.iinfo(c["dtype"])
            pix = rng.integers(ii.min, ii.max, size=full, endpoint=True, dtype=c["dtype"])
    elif np.dtype(c["dtype"]).kind == "f":
        pix = rng.normal(0, 100, size=full).astype(c["dtype"])
    else:
        ii = np.iinfo(c["dtype"])
        pix = rng.integers(max(ii.min, -30000), min(ii.max, 30000), size=full, endpoint=True).astype(c["dtype"])
    dims = {"yx": g.dimensions, "yxs": (*g.dimensions, "band"), "syx": ("band", *g.dimensions)}[c["layout"]]
    attrs = {} if c["nodata"] is None else {"nodata": c["nodata"]}
    xx = xr.DataArray(pix, coords=xr_coords(g), dims=dims, attrs=attrs)
    cy, cx = c["chunks"]
    xx = xx.chunk({g.dimensions[0]: cy if isinstance(cy, tuple) else min(cy, h), g.dimensions[1]: cx if isinstance(cx, tuple) else min(cx, w)})
    kw = {}
    if c["blocksize"] is not None:
        kw["blocksize"] = list(c["blocksize"])
    if c["compression"] is not None:
        kw["compression"] = c["compression"]
    if c["predictor"] is not None:
        kw["predictor"] = c["predictor"]
    if c["spill_sz"] is not None:
        kw["spill_sz"] = c["spill_sz"]
    if c["writes_per_chunk"] is not None:
        kw["writes_per_chunk"] = c["writes_per_chunk"]
    fails = []
    with tempfile.TemporaryDirectory(prefix="pyvc_c05_") as tmp:
        dst = os.path.join(tmp, "out.tif")
        import signal

        class _Stalled(Exception):
            pass

        def _alarm(*a):
            raise _Stalled()

        old = signal.signal(signal.SIGALRM, _alarm) if hasattr(signal, "SIGALRM") else None
        try:
            if old is not None:
                signal.alarm(180)  # a write of a few thousand pixels that has not finished by then never will
            fut = save_cog_with_dask(xx, dst, **kw)
            with dask.config.set(scheduler=c["scheduler"]):
                fut.compute()
        except _Stalled:
            return ["post:the write terminates (no result after 180 s)"]
        except Exception as e:  # pylint: disable=broad-except
            return [f"no-exception:{type(e).__name__}: {str(e)[:200]}"]
        finally:
            if old is not None:
                signal.alarm(0)
                signal.signal(signal.SIGALRM, old)
        with open(dst, "rb") as f:
            data = f.read()
    want = pix if c["layout"] != "yxs" else pix.transpose([2, 0, 1])
    want = want if want.ndim == 3 else want[np.newaxis]
    nodata = c["nodata"]

    def same(a, b):
        return a.shape == b.shape and a.dtype == b.dtype and bool(np.array_equal(a, b, equal_nan=(a.dtype.kind == "f")))

    with rasterio.MemoryFile(data) as mem:
        with mem.open() as f:
            H, W = f.height, f.width
            got = f.read()
            if not (H >= h and W >= w and same(got[:, :h, :w], want)):
                fails.append(f"post:the original pixels read back identical inside the image extent (GDAL reader; file {H}x{W}, image {h}x{w})")
            if tuple(f.transform)[:6] != tuple(xx.odc.geobox.transform)[:6]:
                fails.append("post:transform read back identical (origin kept: padding on the right/bottom only)")
            if CRS(f.crs) != g.crs:
                fails.append("post:CRS read back identical")
            rn = f.nodata
            ok_nd = (rn is None and nodata is None) or (rn is not None and nodata is not None and ((math.isnan(rn) and isinstance(nodata, float) and math.isnan(nodata)) or rn == nodata))
            if not ok_nd:
                fails.append(f"post:nodata read back identical (wrote {nodata!r}, read {rn!r})")
            novr = len(f.overviews(1))
    # TIFF structure with an independent reader
    import tifffile

    with tifffile.TiffFile(io.BytesIO(data)) as t:
        pages = list(t.pages)
        first = pages[0]
        arr = first.asarray()
        if arr.ndim == 3 and first.axes.endswith("S"):
            arr = arr.transpose([2, 0, 1])
        arr = arr if arr.ndim == 3 else arr[np.newaxis]
        if not same(arr[:, :h, :w], want):
            fails.append("post:the original pixels read back identical by an independent reader (tifffile)")
        nlev = len(pages) - 1
        PH, PW = first.imagelength, first.imagewidth
        if not (PH >= h and PW >= w and PH - h < (1 << nlev) + (0 if nlev else 1) and PW - w < (1 << nlev) + (0 if nlev else 1) and PH % (1 << nlev) == 0 and PW % (1 << nlev) == 0):
            fails.append(f"post:padded only up to the next multiple of 2**levels ({h}x{w} -> {PH}x{PW} with {nlev} overview levels)")
        prev = (PH, PW)
        spans = []
        for li, p in enumerate(pages):
            if not p.is_tiled or p.tilewidth % 16 or p.tilelength % 16:
                fails.append(f"post:tile sizes are multiples of 16 (level {li}: {p.tilelength}x{p.tilewidth})")
            if li > 0:
                if (p.imagelength * 2, p.imagewidth * 2) != prev:
                    fails.append(f"post:each overview is exactly half of the previous level (level {li}: {p.imagelength}x{p.imagewidth} after {prev})")
                prev = (p.imagelength, p.imagewidth)
            offs, cnts = list(p.dataoffsets), list(p.databytecounts)
            spans.append([(o, o + n) for o, n in zip(offs, cnts) if n > 0])
        all_spans = sorted(s for lv in spans for s in lv)
        for (a0, a1), (b0, b1) in zip(all_spans, all_spans[1:]):
            if b0 < a1:
                fails.append("post:tile byte ranges do not overlap")
                break
            if b0 > a1:
                fails.append(f"post:tile byte ranges leave no gaps ({b0 - a1} bytes between two tiles)")
                break
        if nlev and spans[0] and any(s for s in spans[1:]):
            if max(e for lv in spans[1:] for _, e in lv) > min(s for s, _ in spans[0]):
                fails.append("post:all overview tile data precedes the full-resolution tile data")
        if nlev != novr:
            fails.append("post:overview count agrees between the readers")
    return fails


contract(
    f"{TF}:save_cog_with_dask",
    ["C05"],
    ensures=[("the written file decodes to the original pixels / transform / CRS / nodata; padded right/bottom to a multiple of 2**levels; overviews halve; tiles multiples of 16; offsets without gaps or overlaps; overviews first", lambda result: True)],
    verify=False,
    trusted_reason="tifffile / imagecodecs encoders, GDAL and tifffile decoders, dask bag scheduling: BOUNDED native round trip; the layout arithmetic, the offset table and the multi-part assembly are proved (C05 / C06 contracts)",
    native_samples=_dcog_samples,
    native_oracle=_dcog_oracle,
)


# ---- per-tile padding: a ragged edge tile is padded on the right / bottom with the fill value up to the full tile ----------------------


def _lemma_tile_padding(kind, th, tw, ny, nx, ns, fill, with_predictor):
    m = repo(TF)
    log = []

    class Blk:
        def __init__(self, tag, shape):
            self.tag, self.shape, self.ndim = tag, tuple(shape), len(shape)
            self.data = ("raw-bytes-of", tag)

        def __getitem__(self, idx):
            log.append(("select", self.tag, idx))
            return Blk((self.tag, idx), self.shape[1:])

    class GhostNp:
        ndarray = Blk

        @staticmethod
        def pad(a, widths, mode="constant", **kw):
            log.append(("pad", a.tag, tuple(widths), mode, kw))
            return Blk(("padded", a.tag), tuple(n + lo + hi for n, (lo, hi) in zip(a.shape, widths)))

    def predictor(b, axis=None):
        log.append(("predict", b.tag, axis))
        return Blk(("predicted", b.tag), b.shape)

    def encoder(b, **kw):
        log.append(("encode", b.tag, b.shape, kw))
        return ("encoded", b.tag)

    saved = (m.np, m.bytes if hasattr(m, "bytes") else None)
    try:
        m.np = GhostNp
        if kind == "yxs":
            block, tile = Blk("block", (ny, nx, ns)), (th, tw, ns)
            out = m._cog_block_compressor_yxs(block, tile_shape=tile, encoder=encoder, predictor=predictor if with_predictor else None, fill_value=fill, level=6)
            src = "block"
        else:
            block, tile = Blk("block", (ns, ny, nx)), (th, tw)
            out = m._cog_block_compressor_syx(block, tile_shape=tile, encoder=encoder, predictor=predictor if with_predictor else None, fill_value=fill, sample_idx=1, level=6)
            sel = [e for e in log if e[0] == "select"]
            claim(len(sel) == 1 and sel[0][2][1:] == (slice(None), slice(None)), "one plane of the block is taken, whole")
            src = ("block", sel[0][2])
    finally:
        m.np = saved[0]
    pads = [e for e in log if e[0] == "pad"]
    full = And(ny == th, nx == tw)
    if bool(full):
        claim(pads == [], "a full tile is not padded")
        cur = src
    else:
        want = ((0, th - ny), (0, tw - nx)) + (((0, 0),) if kind == "yxs" else ())
        claim(len(pads) == 1 and pads[0][1] == src and pads[0][3] == "constant", "a ragged tile is padded once, with a constant")
        claim(len(pads) == 1 and len(pads[0][2]) == len(want) and all(lo == wl and bool(hi == wh) for (lo, hi), (wl, wh) in zip(pads[0][2], want)), "... on the bottom and on the right only, exactly up to the tile's height and width (samples untouched)")
        claim(len(pads) == 1 and pads[0][4].get("constant_values") in ((fill,), fill, ((fill, fill),)), "... with the fill value")
        cur = ("padded", src)
    if with_predictor:
        pr = [e for e in log if e[0] == "predict"]
        claim(len(pr) == 1 and pr[0][1] == cur and pr[0][2] == 1, "the predictor runs on the padded tile along X")
        cur = ("predicted", cur)
    enc = [e for e in log if e[0] == "encode"]
    claim(len(enc) == 1 and enc[0][1] == cur and enc[0][3] == {"level": 6}, "the (padded, predicted) tile is encoded once with the codec options")
    claim(len(enc) == 1 and And(enc[0][2][0 if kind == "yxs" else 0] == th, enc[0][2][1] == tw), "what is encoded has exactly the tile's height and width")
    claim(out == ("encoded", cur), "the encoded bytes are returned")


lemma(
    "cog.tile_padding_flow",
    ["C05"],
    inputs=dict(kind=OneOf("yxs", "syx"), th=Int(ge=1), tw=Int(ge=1), ny=Int(ge=1), nx=Int(ge=1), ns=OneOf(2, 3), fill=OneOf(0, -9999), with_predictor=Bool()),
    requires=[lambda th, tw, ny, nx: And(ny <= th, nx <= tw)],
    body=_lemma_tile_padding,
    unstub=[f"{TF}:_cog_block_compressor_yxs", f"{TF}:_cog_block_compressor_syx"],
    note="data flow of the real per-tile compressors over a stand-in block of ANY size within a tile of ANY (also non-square) size: numpy.pad, predictor and encoder recorded",
)


def _pad_samples():
    import itertools

    def gen():
        for (th, tw), kind in itertools.product([(16, 16), (16, 32), (32, 16), (48, 16)], ("yx", "yxs", "syx")):
            for ny, nx in {(th, tw), (th, tw - 1), (th - 3, tw), (1, 1), (th // 2, tw // 2), (min(th, tw), min(th, tw)), (th - 1, min(th, tw))}:
                if 1 <= ny <= th and 1 <= nx <= tw:
                    for fill in (0, 7):
                        yield dict(kind=kind, th=th, tw=tw, ny=ny, nx=nx, fill=fill)

    return "4 tile shapes (square, wide, tall) x YX / YXS / SYX x 7 block sizes (full, one short, block width == tile height, 1x1, half) x 2 fill values, uncompressed bytes compared with the expected padded array", gen()


def _pad_oracle(args, run=None):
    import numpy as np

    from odc.geo.cog import _tifffile as T

    th, tw, ny, nx, fill, kind = (args[k] for k in ("th", "tw", "ny", "nx", "fill", "kind"))
    rng = np.random.default_rng(ny * 1000 + nx)
    fails = []
    if kind == "yxs":
        blk = rng.integers(1, 250, size=(ny, nx, 3)).astype("uint8")
        want = np.full((th, tw, 3), fill, dtype="uint8")
        want[:ny, :nx, :] = blk
        got = T._cog_block_compressor_yxs(blk.copy(), tile_shape=(th, tw, 3), fill_value=fill)
    elif kind == "syx":
        blk = rng.integers(1, 250, size=(2, ny, nx)).astype("uint8")
        want = np.full((th, tw), fill, dtype="uint8")
        want[:ny, :nx] = blk[1]
        got = T._cog_block_compressor_syx(blk.copy(), tile_shape=(th, tw), fill_value=fill, sample_idx=1)
    else:
        blk = rng.integers(1, 250, size=(ny, nx)).astype("uint8")
        want = np.full((th, tw), fill, dtype="uint8")
        want[:ny, :nx] = blk
        got = T._cog_block_compressor_syx(blk.copy(), tile_shape=(th, tw), fill_value=fill)
    if bytes(got) != want.tobytes():
        fails.append(f"post:an edge tile holds the block's pixels at the top-left and the fill value on the right / bottom ({kind}, block {ny}x{nx} in tile {th}x{tw})")
    return fails


contract(
    f"{TF}:_cog_block_compressor_yxs",
    ["C05"],
    ensures=[("tile bytes = block padded right/bottom with the fill value", lambda result: True)],
    verify=False,
    trusted_reason="numpy.pad / buffer protocol: BOUNDED native check of the uncompressed tile bytes (the data flow for every size is lemma cog.tile_padding_flow)",
    native_samples=_pad_samples,
    native_oracle=_pad_oracle,
)


# ---- _patch_hdr: tile offsets are shifted by the FINAL header size (measured after everything that can move the header's end) -------


def _lemma_patch_hdr_flow(n_pages, with_stats, size0, grow, t0, t1):
    """the real _patch_hdr over a stand-in TIFF editor: the header buffer has size0 bytes; overwriting the metadata tag with
    a longer text makes tifffile append it, i.e. the buffer GROWS by `grow` >= 0 bytes (0 when it fits in place)"""
    import sys as _sys
    import types

    m = repo(TF)
    log = []
    state = dict(size=size0)

    class Buf:
        def __init__(self, hdr0):
            log.append(("open", hdr0))

        def getbuffer(self):
            return Sized(state["size"])

    class Sized:
        def __init__(self, n):
            self.n = n

        def __len__(self):
            if isinstance(self.n, int):
                return self.n
            raise TypeError("stand-in buffer of symbolic size reached native len()")

        def __symlen__(self):
            return self.n

        def __bytes__(self):
            return b"patched-header"

    class Tag:
        def __init__(self, page, code):
            self.page, self.code = page, code

        def overwrite(self, value):
            log.append(("overwrite", self.page, self.code, value, state["size"]))
            if self.code == 42112:
                state["size"] = state["size"] + grow

    class Tags:
        def __init__(self, page):
            self.page = page

        def get(self, code, default=None):
            return Tag(self.page, code)

        def __getitem__(self, code):
            return Tag(self.page, code)

    class Page:
        def __init__(self, k):
            self.k, self.tags = k, Tags(k)

    class Pages(list):
        @property
        def first(self):
            return self[0]

    class Tiff:
        def __init__(self, bio, mode=None, name=None):
            log.append(("tiff", mode))
            self.pages = Pages(Page(k) for k in range(n_pages))

        def __enter__(self):
            return self

        def __exit__(self, *a):
            return False

    ghost_tf = types.ModuleType("tifffile")
    ghost_tf.TiffFile, ghost_tf.TiffPage = Tiff, Page
    table = [([t0 + 10 * k, t1 + 10 * k], [7, 9]) for k in range(n_pages)]
    saved = (m.BytesIO, m._extract_tile_info, m._render_gdal_metadata, m.bytes if hasattr(m, "bytes") else None, _sys.modules.get("tifffile"))
    try:
        m.BytesIO = Buf
        m._extract_tile_info = lambda meta, tiles, start=0: (log.append(("extract", list(tiles), start)), table)[1]
        m._render_gdal_metadata = lambda stats, **kw: ("rendered", tuple(map(id, stats)) if isinstance(stats, list) else id(stats))
        _sys.modules["tifffile"] = ghost_tf
        stats = [dict(minimum=0.0)] if with_stats else None
        out = m._patch_hdr([(7, (0, 0, 0, 0)), (9, (0, 0, 0, 1))], "META", Sized(size0), stats)  # the empty header: size0 bytes
    finally:
        m.BytesIO, m._extract_tile_info, m._render_gdal_metadata = saved[:3]
        if saved[4] is not None:
            _sys.modules["tifffile"] = saved[4]
        else:
            _sys.modules.pop("tifffile", None)
    final = size0 + (grow if with_stats else 0)
    ex = [e for e in log if e[0] == "extract"]
    claim(len(ex) == 1 and ex[0][1] == [(0, 0, 0, 0, 7), (0, 0, 0, 1, 9)] and ex[0][2] == 0, "the offset table is computed from the observed (size, tile) stream, relative to the end of the header")
    ow = [e for e in log if e[0] == "overwrite"]
    md = [e for e in ow if e[2] == 42112]
    claim((len(md) == 1 and md[0][1] == 0) if with_stats else md == [], "statistics are rendered into the metadata tag of the first page when given")
    for k in range(n_pages):
        offs = [e for e in ow if e[1] == k and e[2] == 324]
        lens = [e for e in ow if e[1] == k and e[2] == 325]
        claim(len(offs) == 1 and len(offs[0][3]) == 2 and all(bool(v == o + final) for v, o in zip(offs[0][3], table[k][0])), f"page {k}: every tile offset = its position in the tile stream + the FINAL size of the header (after the metadata was written)")
        claim(len(lens) == 1 and list(lens[0][3]) == table[k][1], f"page {k}: byte counts as observed")


lemma(
    "cog.patch_hdr_flow",
    ["C05"],
    inputs=dict(n_pages=OneOf(1, 2, 3), with_stats=Bool(), size0=Int(ge=8), grow=Int(ge=0), t0=Int(ge=0), t1=Int(ge=0)),
    body=_lemma_patch_hdr_flow,
    unstub=[f"{TF}:_patch_hdr", f"{TF}:_extract_tile_info"],
    note="data flow of the real _patch_hdr over a stand-in TIFF editor whose buffer grows by a symbolic amount when the statistics text does not fit in place: tile offsets use the header size measured AFTER that",
)
