"""Sidecar contracts for odc-geo (one module per repository module)."""
from . import roi_c  # noqa: F401
from . import math_c  # noqa: F401
from . import mpu_c  # noqa: F401
from . import tiles_c  # noqa: F401
from . import geobox_c  # noqa: F401
from . import gridspec_c  # noqa: F401
from . import s3_c  # noqa: F401
from . import values_c  # noqa: F401
from . import overlap_c  # noqa: F401
from . import cog_c  # noqa: F401
from . import crsguard_c  # noqa: F401
from . import densify_c  # noqa: F401
from . import crs_c  # noqa: F401
from . import outgeobox_c  # noqa: F401
from . import rio_c  # noqa: F401
from . import xr_c  # noqa: F401
from . import dask_c  # noqa: F401
