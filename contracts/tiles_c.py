"""
Contracts for the tilings of odc/geo/roi.py -- Tiles, VariableSizedTiles, clip_tiles, roi_tiles.
Property: C04 (tilings are exact partitions), C19 (equality / tokens of tilings).

View: per axis a tiling is the boundary sequence 0 = o(0) <= o(1) <= ... <= o(K) = N.
  regular tiles (axis length N >= 0, tile side n >= 1):  K = ceil(N/n),  o(k) = min(k*n, N)
  variable tiles: o(k) = sum of the first k chunk sizes
Tile (r, c) is exactly [o_y(r), o_y(r+1)) x [o_x(c), o_x(c+1)): consecutive boundaries => the tiles are
pairwise disjoint and cover the rectangle (lemmas below).
"""
from pyvc.api import *  # noqa: F401,F403

from .roi_c import _as_tuple, bounds, is_norm

ROI = "odc.geo.roi"
TYPES = "odc.geo.types"


def SHAPE2D(ge=0):
    return Build(f"{TYPES}:Shape2d", x=Int(ge=ge), y=Int(ge=ge))


def TILES(min_base=0):
    """a Tiles object in its representation invariant (allocated directly, see wf_tiles)"""
    return Obj(f"{ROI}:Tiles", _tile_shape=SHAPE2D(1), _base_shape=SHAPE2D(min_base), _shape=SHAPE2D(0))


def ceil_div_is(K, N, n):
    """K == ceil(N / n) for N >= 0, n >= 1"""
    return And(K >= 0, (K - 1) * n < N, N <= K * n)


def wf_tiles(T):
    (N1, N2), (n1, n2), (K1, K2) = T._base_shape.yx, T._tile_shape.yx, T._shape.yx
    return And(ceil_div_is(K1, N1, n1), ceil_div_is(K2, N2, n2))


def o_reg(k, N, n):
    """k-th boundary of a regular tiling"""
    return Min(k * n, N)


def axes(T):
    return list(zip(T._base_shape.yx, T._tile_shape.yx, T._shape.yx))


# ---- Tiles.__init__ ------------------------------------------------------------------------------------

contract(
    f"{ROI}:Tiles.__init__",
    ["C04"],
    inputs=[
        dict(self=Obj(f"{ROI}:Tiles"), base_shape=Tup(Int(ge=0), Int(ge=0)), tile_shape=Tup(Int(ge=1), Int(ge=1))),
        dict(self=Obj(f"{ROI}:Tiles"), base_shape=SHAPE2D(0), tile_shape=SHAPE2D(1)),
    ],
    ensures=[
        ("stores the shapes", lambda self, base_shape, tile_shape: And(self._base_shape.y == base_shape[0], self._base_shape.x == base_shape[1], self._tile_shape.y == tile_shape[0], self._tile_shape.x == tile_shape[1])),
        ("number of tiles per axis is ceil(N/n): representation invariant established", lambda self: wf_tiles(self)),
    ],
    inline=True,
    note="float(N)/n is exact under A1 (and for N < 2**53 in doubles)",
)

# ---- Tiles.__getitem__ --------------------------------------------------------------------------------------

_IDX1 = OneOf(Int(), Slice(Opt(Int()), Opt(Int()), None))


def _norm_ax(i, K):
    """normalised [a, b) tile range of index i on an axis with K tiles (as roi_normalise does)"""
    if is_int_obj(i):
        a = idx_norm(i, K)
        return a, a + 1
    a = 0 if i.start is None else Ite(i.start >= 0, i.start, Max(0, K + i.start))
    b = K if i.stop is None else Ite(i.stop >= 0, i.stop, Max(0, K + i.stop))
    return a, b


def _in_range(i, K):
    a, b = _norm_ax(i, K)
    if is_int_obj(i):
        return And(0 <= a, a < K)
    # a range of tiles: must start at an existing tile and not run past the last one
    return And(0 <= a, a < K, b <= K)


contract(
    f"{ROI}:Tiles.__getitem__",
    ["C04"],
    inputs=[dict(self=TILES(), idx=Tup(_IDX1, _IDX1)), dict(self=TILES(), idx=Build(f"{TYPES}:Index2d", x=Int(), y=Int()))],
    requires=[lambda self: wf_tiles(self)],
    raises=[(IndexError, lambda self, idx: Not(And(*[_in_range(i, K) for i, (N, n, K) in zip(_idx_yx(idx), axes(self))])))],
    ensures=[
        (
            "tile (r, c) -- or a block of tiles -- is exactly [o(a), o(b)) per axis with o(k) = min(k*n, N)",
            lambda self, idx, result: And(
                *[And(is_norm(s), s.start == o_reg(_norm_ax(i, K)[0], N, n), s.stop == o_reg(_norm_ax(i, K)[1], N, n)) for s, i, (N, n, K) in zip(result, _idx_yx(idx), axes(self))]
            ),
        ),
        ("arity", lambda result: isinstance(result, tuple) and len(result) == 2),
    ],
    returns=lambda self: Tup(Slice(Int(), Int(), None), Slice(Int(), Int(), None)),
)


def _idx_yx(idx):
    if isinstance(idx, tuple):
        return idx
    return idx.yx


def _lemma_tiles_partition(T, r, c):
    """consecutive tiles abut, the first starts at 0, the last ends at N, every tile is non-empty:
    the tiles are pairwise disjoint and cover the rectangle exactly"""
    (N1, n1, K1), (N2, n2, K2) = axes(T)
    t = T[r, c]
    claim(And(t[0].start < t[0].stop, t[1].start < t[1].stop), "every tile is non-empty")
    claim(Implies(r == 0, t[0].start == 0), "first row starts at 0")
    claim(Implies(c == 0, t[1].start == 0), "first column starts at 0")
    claim(Implies(r == K1 - 1, t[0].stop == N1), "last row ends at the image height")
    claim(Implies(c == K2 - 1, t[1].stop == N2), "last column ends at the image width")
    if bool(r + 1 < K1):
        t2 = T[r + 1, c]
        claim(And(t2[0].start == t[0].stop, t2[1].start == t[1].start, t2[1].stop == t[1].stop), "tile below starts where this one ends (same columns)")
    if bool(c + 1 < K2):
        t3 = T[r, c + 1]
        claim(And(t3[1].start == t[1].stop, t3[0].start == t[0].start, t3[0].stop == t[0].stop), "tile to the right starts where this one ends (same rows)")


lemma(
    "tiles.regular_partition",
    ["C04"],
    inputs=dict(T=TILES(), r=Int(ge=0), c=Int(ge=0)),
    requires=[lambda T: wf_tiles(T), lambda T, r, c: And(r < T._shape.y, c < T._shape.x)],
    body=_lemma_tiles_partition,
    note="over the contract of Tiles.__getitem__",
)

# ---- Tiles.tile_shape ----------------------------------------------------------------------------------------------

contract(
    f"{ROI}:Tiles.tile_shape",
    ["C04"],
    inputs=[dict(self=TILES(1), idx=Tup(Int(), Int())), dict(self=TILES(1), idx=Build(f"{TYPES}:Index2d", x=Int(), y=Int()))],
    requires=[lambda self: wf_tiles(self)],
    note="non-empty image (an axis with zero tiles has no valid index; there tile_shape(-1) returns the tile side instead of raising -- outside the property's quantifier)",
    raises=[(IndexError, lambda self, idx: Not(And(*[And(-K <= i, i < K) for i, (N, n, K) in zip(_idx_yx(idx), axes(self))])))],
    ensures=[
        (
            "advertised shape is the size of the tile's region: o(i+1) - o(i)",
            lambda self, idx, result: And(*[d == o_reg(idx_norm(i, K) + 1, N, n) - o_reg(idx_norm(i, K), N, n) for d, i, (N, n, K) in zip(result.yx, _idx_yx(idx), axes(self))]),
        ),
        ("positive", lambda result: And(result.y >= 1, result.x >= 1)),
    ],
    returns=lambda self: SHAPE2D(1),
)

contract(
    f"{ROI}:Tiles.shape",
    ["C04"],
    inputs=dict(self=TILES()),
    ensures=[("number of tiles", lambda self, result: result is self._shape)],
    inline=True,
)
contract(
    f"{ROI}:Tiles.base",
    ["C04"],
    inputs=dict(self=TILES()),
    ensures=[("base shape", lambda self, result: result is self._base_shape)],
    inline=True,
)

# ---- Tiles.chunks ------------------------------------------------------------------------------------------------------


def _chunks_post(ch, N, n, K):
    from pyvc.sym import is_sym

    ln = ch.__symlen__() if hasattr(ch, "__symlen__") else len(ch)
    get = (lambda j: ch.get(j)) if hasattr(ch, "get") else (lambda j: ch[j])
    return And(ln == K, forall(0, K, lambda j: get(j) == o_reg(j + 1, N, n) - o_reg(j, N, n)))


contract(
    f"{ROI}:Tiles.chunks",
    ["C04"],
    inputs=dict(self=TILES()),
    requires=[lambda self: wf_tiles(self), lambda self: And(self._base_shape.y >= 1, self._base_shape.x >= 1)],
    ensures=[
        ("chunk tuples: K entries per axis, entry j is the size of tile j (so they sum to the axis length)", lambda self, result: And(*[_chunks_post(ch, N, n, K) for ch, (N, n, K) in zip(result, axes(self))])),
    ],
    note="requires a non-empty image (an empty one has no tile (0, 0) to ask the shape of)",
)

# ---- Tiles.locate -------------------------------------------------------------------------------------------------------------

contract(
    f"{ROI}:Tiles.locate",
    ["C04", "C12"],
    inputs=[dict(self=TILES(), pix=Tup(Int(), Int())), dict(self=TILES(), pix=Build(f"{TYPES}:Index2d", x=Int(), y=Int()))],
    requires=[lambda self: wf_tiles(self)],
    raises=[(IndexError, lambda self, pix: Not(And(*[And(0 <= p, p < N) for p, (N, n, K) in zip(_idx_yx(pix), axes(self))])))],
    ensures=[
        (
            "returns the tile whose region contains the pixel (inverse of region lookup)",
            lambda self, pix, result: And(*[And(0 <= k, k < K, o_reg(k, N, n) <= p, p < o_reg(k + 1, N, n)) for k, p, (N, n, K) in zip(result, _idx_yx(pix), axes(self))]),
        ),
    ],
    returns=lambda self: Tup(Int(), Int()),
)

# ---- Tiles.crop -------------------------------------------------------------------------------------------------------------------

_RNG = Slice(Int(ge=0), Int(ge=0), None)


contract(
    f"{ROI}:Tiles.crop",
    ["C04"],
    inputs=dict(self=TILES(), roi=Tup(_RNG, _RNG)),
    requires=[lambda self: wf_tiles(self), lambda self, roi: And(*[And(s.start < s.stop, s.stop <= K) for s, (N, n, K) in zip(roi, axes(self))])],
    ensures=[
        ("the cropped tiling is well formed with the same tile shape", lambda self, result: And(wf_tiles(result), result._tile_shape.y == self._tile_shape.y, result._tile_shape.x == self._tile_shape.x)),
        (
            "its base is the pixel extent of the selected block of tiles and it has as many tiles as were selected",
            lambda self, roi, result: And(
                *[And(Nc == o_reg(s.stop, N, n) - o_reg(s.start, N, n), Kc == s.stop - s.start) for s, (N, n, K), Nc, Kc in zip(roi, axes(self), result._base_shape.yx, result._shape.yx)]
            ),
        ),
    ],
    returns=lambda self: TILES(),
)


def _lemma_crop_rebased(T, roi, r, c):
    """tile (r, c) of the cropped tiling, shifted by the origin of the crop, is tile (r + r0, c + c0)"""
    Tc = T.crop(roi)
    origin = T[roi]
    a = Tc[r, c]
    b = T[r + roi[0].start, c + roi[1].start]
    claim(And(a[0].start + origin[0].start == b[0].start, a[0].stop + origin[0].start == b[0].stop), "rows re-based consistently")
    claim(And(a[1].start + origin[1].start == b[1].start, a[1].stop + origin[1].start == b[1].stop), "columns re-based consistently")


lemma(
    "tiles.crop_rebased",
    ["C04"],
    inputs=dict(T=TILES(), roi=Tup(_RNG, _RNG), r=Int(ge=0), c=Int(ge=0)),
    requires=[
        lambda T: wf_tiles(T),
        lambda T, roi: And(*[And(s.start < s.stop, s.stop <= K) for s, (N, n, K) in zip(roi, axes(T))]),
        lambda roi, r, c: And(r < roi[0].stop - roi[0].start, c < roi[1].stop - roi[1].start),
    ],
    body=_lemma_crop_rebased,
)

# ---- clip_tiles -----------------------------------------------------------------------------------------------------------------------


def _sel(k):
    return Tup(*[Tup(Int(ge=0), Int(ge=0)) for _ in range(k)], as_list=True)


def _mins(selection):
    ys = [p[0] for p in selection]
    xs = [p[1] for p in selection]
    f = lambda vs, op: __import__("functools").reduce(op, vs)
    return f(ys, Min), f(xs, Min), f(ys, Max), f(xs, Max)


contract(
    f"{ROI}:clip_tiles",
    ["C04"],
    inputs=[dict(tiles=TILES(), selection=_sel(k)) for k in (1, 2, 3)],
    requires=[lambda tiles: wf_tiles(tiles), lambda tiles, selection: And(*[And(p[0] < tiles._shape.y, p[1] < tiles._shape.x) for p in selection])],
    ensures=[
        (
            "the crop is the smallest block of tiles containing the selection (per-axis min..max)",
            lambda selection, result: And(
                result[1][0].start == _mins(selection)[0],
                result[1][1].start == _mins(selection)[1],
                result[1][0].stop == _mins(selection)[2] + 1,
                result[1][1].stop == _mins(selection)[3] + 1,
            ),
        ),
        (
            "tile indexes are re-based to the cropped address space, in the same order",
            lambda selection, result: len(result[2]) == len(selection) and And(*[And(q[0] == p[0] - _mins(selection)[0], q[1] == p[1] - _mins(selection)[1]) for p, q in zip(selection, result[2])]),
        ),
        ("the returned tiling is the crop of the original by that block", lambda tiles, result: And(wf_tiles(result[0]), result[0]._shape.y == result[1][0].stop - result[1][0].start, result[0]._shape.x == result[1][1].stop - result[1][1].start)),
    ],
    note="selection lists of 1, 2 and 3 tile indexes (numpy min/max over the list is modelled per axis)",
)

# ---- VariableSizedTiles ----------------------------------------------------------------------------------------------------

OFFS = SeqOf(Int(), "array", min_len=1)  # int32 offsets array of one axis: 0, n1, n1+n2, ...


def VTILES():
    return Obj(f"{ROI}:VariableSizedTiles", _offsets=Tup(OFFS, OFFS))


_olen = seq_len
_oget = seq_get


def wf_vtiles(T):
    """offsets start at 0 and are nondecreasing (chunk sizes are >= 0)"""
    return And(*[And(_olen(o) >= 1, _oget(o, 0) == 0, forall(0, _olen(o) - 1, lambda j, o=o: _oget(o, j) <= _oget(o, j + 1))) for o in T._offsets])


def vaxes(T):
    return [(o, _olen(o) - 1) for o in T._offsets]


def _vt_samples():
    import itertools

    def gen():
        sizes = [0, 1, 2, 5]
        for ny in range(0, 4):
            for ys in itertools.product(sizes, repeat=ny):
                for xs in [(), (3,), (1, 0, 4)]:
                    yield dict(self=NEW_VT(), chunks=(tuple(ys), tuple(xs)))
        yield dict(self=NEW_VT(), chunks=((2**30, 2**30 - 1), (7,)))

    return "all chunk tuples with <= 3 chunks of size in {0,1,2,5} per axis (+ one near-int32-limit case)", gen()


def NEW_VT():
    import odc.geo.roi as r

    return object.__new__(r.VariableSizedTiles)


contract(
    f"{ROI}:VariableSizedTiles.__init__",
    ["C04"],
    inputs=dict(self=Obj(f"{ROI}:VariableSizedTiles"), chunks=Tup(SeqOf(Int(ge=0), "tuple"), SeqOf(Int(ge=0), "tuple"))),
    requires=[lambda chunks: And(*[forall(0, _olen(ch), lambda j, ch=ch: _oget(ch, j) >= 0) for ch in chunks])],
    ensures=[
        (
            "offsets are the prefix sums of the chunk sizes (representation invariant established)",
            lambda self, chunks: And(wf_vtiles(self), *[And(_olen(o) == _olen(ch) + 1, forall(0, _olen(ch), lambda j, o=o, ch=ch: _oget(o, j + 1) - _oget(o, j) == _oget(ch, j))) for o, ch in zip(self._offsets, chunks)]),
        )
    ],
    modifies=lambda self: [(self, "_offsets", Tup(OFFS, OFFS))],
    returns=lambda self: None,
    native_samples=_vt_samples,
    note="proved over numpy's asarray/cumsum taken as prefix sums (library model; the total is assumed to fit int32); the bounded native run checks that model against real numpy",
)


def _vnorm(i, K):
    if is_int_obj(i):
        a = idx_norm(i, K)
        return a, a + 1
    a = 0 if i.start is None else Ite(i.start >= 0, i.start, Max(0, K + i.start))
    b = K if i.stop is None else Ite(i.stop >= 0, i.stop, Max(0, K + i.stop))
    return a, b


contract(
    f"{ROI}:VariableSizedTiles.__getitem__",
    ["C04"],
    inputs=[dict(self=VTILES(), idx=Tup(_IDX1, _IDX1)), dict(self=VTILES(), idx=Build(f"{TYPES}:Index2d", x=Int(), y=Int()))],
    requires=[
        lambda self: wf_vtiles(self),
        # valid tile indexes / ranges of tiles (out-of-range negative indexes wrap around in numpy and are outside the quantifier)
        lambda self, idx: And(*[And(0 <= _vnorm(i, K)[0], _vnorm(i, K)[0] <= _vnorm(i, K)[1], _vnorm(i, K)[1] <= K, (_vnorm(i, K)[0] < K) if is_int_obj(i) else True) for i, (o, K) in zip(_idx_yx(idx), vaxes(self))]),
    ],
    ensures=[
        (
            "tile (r, c) -- or a block of tiles -- is exactly [o(a), o(b)) per axis",
            lambda self, idx, result: And(*[And(is_norm(s), s.start == _oget(o, _vnorm(i, K)[0]), s.stop == _oget(o, _vnorm(i, K)[1])) for s, i, (o, K) in zip(result, _idx_yx(idx), vaxes(self))]),
        ),
    ],
    returns=lambda self: Tup(Slice(Int(), Int(), None), Slice(Int(), Int(), None)),
)

def _vt_norm_idx(i, K):
    """numpy-style tile index: counted from the end when negative"""
    return Ite(i < 0, i + K, i)


contract(
    f"{ROI}:VariableSizedTiles.tile_shape",
    ["C04"],
    inputs=[dict(self=VTILES(), idx=Tup(Int(), Int())), dict(self=VTILES(), idx=Build(f"{TYPES}:Index2d", x=Int(), y=Int()))],
    requires=[lambda self: wf_vtiles(self)],
    raises=[(IndexError, lambda self, idx: Not(And(*[And(0 <= _vt_norm_idx(i, K), _vt_norm_idx(i, K) < K) for i, (o, K) in zip(_idx_yx(idx), vaxes(self))])))],
    ensures=[
        (
            "advertised shape is the size of the tile's region (indexes from the end allowed, exactly like __getitem__); never negative",
            lambda self, idx, result: And(*[And(d == _oget(o, _vt_norm_idx(i, K) + 1) - _oget(o, _vt_norm_idx(i, K)), d >= 0) for d, i, (o, K) in zip(result.yx, _idx_yx(idx), vaxes(self))]),
        )
    ],
    returns=lambda self: SHAPE2D(0),
)

contract(
    f"{ROI}:VariableSizedTiles.shape",
    ["C04"],
    inputs=dict(self=VTILES()),
    ensures=[("number of tiles per axis", lambda self, result: And(result.y == vaxes(self)[0][1], result.x == vaxes(self)[1][1]))],
    returns=lambda self: SHAPE2D(0),
)

contract(
    f"{ROI}:VariableSizedTiles.base",
    ["C04"],
    inputs=dict(self=VTILES()),
    ensures=[("base shape is the last offset", lambda self, result: And(result.y == _oget(vaxes(self)[0][0], vaxes(self)[0][1]), result.x == _oget(vaxes(self)[1][0], vaxes(self)[1][1])))],
    returns=lambda self: SHAPE2D(0),
)

contract(
    f"{ROI}:VariableSizedTiles.chunks",
    ["C04"],
    inputs=dict(self=VTILES()),
    requires=[lambda self: wf_vtiles(self)],
    ensures=[
        ("chunk tuples are the differences of consecutive offsets", lambda self, result: And(*[And(_olen(ch) == K, forall(0, K, lambda j, ch=ch, o=o: _oget(ch, j) == _oget(o, j + 1) - _oget(o, j))) for ch, (o, K) in zip(result, vaxes(self))])),
    ],
    returns=lambda self: Tup(SeqOf(Int(ge=0), "tuple"), SeqOf(Int(ge=0), "tuple")),
)

contract(
    f"{ROI}:VariableSizedTiles.locate",
    ["C04", "C12"],
    inputs=[dict(self=VTILES(), pix=Tup(Int(), Int())), dict(self=VTILES(), pix=Build(f"{TYPES}:Index2d", x=Int(), y=Int()))],
    requires=[lambda self: wf_vtiles(self)],
    raises=[(IndexError, lambda self, pix: Not(And(*[And(0 <= p, p < _oget(o, K)) for p, (o, K) in zip(_idx_yx(pix), vaxes(self))])))],
    ensures=[
        (
            "returns the tile whose region contains the pixel (inverse of region lookup)",
            lambda self, pix, result: And(*[And(0 <= k, k < K, _oget(o, k) <= p, p < _oget(o, k + 1)) for k, p, (o, K) in zip(result, _idx_yx(pix), vaxes(self))]),
        ),
    ],
    returns=lambda self: Tup(Int(), Int()),
)

contract(
    f"{ROI}:VariableSizedTiles.crop",
    ["C04"],
    inputs=dict(self=VTILES(), roi=Tup(_RNG, _RNG)),
    requires=[lambda self: wf_vtiles(self), lambda self, roi: And(*[And(s.start <= s.stop, s.stop <= K) for s, (o, K) in zip(roi, vaxes(self))])],
    ensures=[
        ("the cropped tiling is well formed", lambda result: wf_vtiles(result)),
        (
            "its tiles are the selected tiles re-based to the origin of the crop: o'(j) = o(j + j0) - o(j0)",
            lambda self, roi, result: And(
                *[And(Kc == s.stop - s.start, forall_ind(0, Kc + 1, lambda j, oc=oc, o=o, s=s: _oget(oc, j) == _oget(o, j + s.start) - _oget(o, s.start))) for s, (o, K), (oc, Kc) in zip(roi, vaxes(self), vaxes(result))]
            ),
        ),
    ],
    returns=lambda self: VTILES(),
)


def _lemma_vtiles_partition(T, r, c):
    (oy, Ky), (ox, Kx) = vaxes(T)
    t = T[r, c]
    claim(Implies(r == 0, t[0].start == 0), "first row starts at 0")
    claim(Implies(c == 0, t[1].start == 0), "first column starts at 0")
    b = T.base
    claim(Implies(r == Ky - 1, t[0].stop == b.y), "last row ends at the base height")
    claim(Implies(c == Kx - 1, t[1].stop == b.x), "last column ends at the base width")
    if bool(r + 1 < Ky):
        t2 = T[r + 1, c]
        claim(And(t2[0].start == t[0].stop, t2[1].start == t[1].start, t2[1].stop == t[1].stop), "tile below starts where this one ends")
    if bool(c + 1 < Kx):
        t3 = T[r, c + 1]
        claim(And(t3[1].start == t[1].stop, t3[0].start == t[0].start, t3[0].stop == t[0].stop), "tile to the right starts where this one ends")
    sh = T.tile_shape((r, c))
    claim(And(sh.y == t[0].stop - t[0].start, sh.x == t[1].stop - t[1].start), "advertised tile shape is the size of the region")


lemma(
    "tiles.variable_partition",
    ["C04"],
    inputs=dict(T=VTILES(), r=Int(ge=0), c=Int(ge=0)),
    requires=[lambda T: wf_vtiles(T), lambda T, r, c: And(r < vaxes(T)[0][1], c < vaxes(T)[1][1])],
    body=_lemma_vtiles_partition,
)

contract(
    f"{ROI}:roi_tiles",
    ["C04"],
    inputs=[
        dict(shape=Tup(Int(ge=0), Int(ge=0)), how=Tup(Int(ge=1), Int(ge=1))),
        dict(shape=Tup(Int(ge=0), Int(ge=0)), how=Tup(Tup(Int(ge=0, le=100), Int(ge=0, le=100)), Tup(Int(ge=0, le=100)))),
    ],
    ensures=[
        (
            "regular tile shape -> Tiles; chunk tuples -> VariableSizedTiles of those chunks",
            lambda shape, how, result: (type(result).__name__ == "VariableSizedTiles") if isinstance(how[0], tuple) else And(type(result).__name__ == "Tiles", wf_tiles(result), result._tile_shape.y == how[0], result._base_shape.y == shape[0]),
        )
    ],
)

# =====================================================================================================
# GeoboxTiles (C04: tile (r,c) is the parent cropped to that region; C12: queries)
# =====================================================================================================

from .geobox_c import BBOX, GEOBOX, T_, view  # noqa: E402

GBX = "odc.geo.geobox"
GEOM = "odc.geo.geom"


def GBT(crs="EPSG:3857"):
    return Obj(f"{GBX}:GeoboxTiles", _gbox=GEOBOX(crs), _tiles=TILES(1))


def wf_gbt(t):
    return And(wf_tiles(t._tiles), t._tiles._base_shape.y == t._gbox.shape.y, t._tiles._base_shape.x == t._gbox.shape.x)


contract(
    f"{GBX}:GeoboxTiles.__getitem__",
    ["C04", "C12"],
    inputs=dict(self=GBT(), idx=Tup(Int(ge=0), Int(ge=0))),
    requires=[lambda self: wf_gbt(self), lambda self, idx: And(idx[0] < self._tiles._shape.y, idx[1] < self._tiles._shape.x)],
    ensures=[
        (
            "tile (r, c) of a tiled GeoBox is exactly the parent GeoBox cropped to the tile's region",
            lambda self, idx, result: view(
                result,
                self._gbox,
                T_(o_reg(idx[1], self._gbox.shape.x, self._tiles._tile_shape.x), o_reg(idx[0], self._gbox.shape.y, self._tiles._tile_shape.y)),
                (
                    o_reg(idx[0] + 1, self._gbox.shape.y, self._tiles._tile_shape.y) - o_reg(idx[0], self._gbox.shape.y, self._tiles._tile_shape.y),
                    o_reg(idx[1] + 1, self._gbox.shape.x, self._tiles._tile_shape.x) - o_reg(idx[1], self._gbox.shape.x, self._tiles._tile_shape.x),
                ),
            ),
        )
    ],
)

contract(
    f"{GBX}:GeoboxTiles.pix_bbox",
    ["C12", "C04"],
    inputs=dict(self=GBT(), idx=Tup(Int(ge=0), Int(ge=0))),
    requires=[lambda self: wf_gbt(self), lambda self, idx: And(idx[0] < self._tiles._shape.y, idx[1] < self._tiles._shape.x)],
    ensures=[
        (
            "pixel-space bounding box of the tile's region",
            lambda self, idx, result: And(
                result.left == o_reg(idx[1], self._gbox.shape.x, self._tiles._tile_shape.x),
                result.right == o_reg(idx[1] + 1, self._gbox.shape.x, self._tiles._tile_shape.x),
                result.bottom == o_reg(idx[0], self._gbox.shape.y, self._tiles._tile_shape.y),
                result.top == o_reg(idx[0] + 1, self._gbox.shape.y, self._tiles._tile_shape.y),
                result.crs is None,
            ),
        )
    ],
    returns=lambda self: Build(f"{GEOM}:BoundingBox", Int(), Int(), Int(), Int(), None),
)

contract(
    f"{GBX}:GeoboxTiles.range_from_bbox",
    ["C12"],
    inputs=dict(self=GBT(), bbox=BBOX(None), r=Int(ge=0), c=Int(ge=0)),
    requires=[lambda self: wf_gbt(self), lambda bbox: And(bbox.left <= bbox.right, bbox.bottom <= bbox.top), lambda self, r, c: And(r < self._tiles._shape.y, c < self._tiles._shape.x)],
    ensures=[
        (
            "complete: every tile whose pixel rectangle intersects the box lies in the returned index ranges ((r, c) is a ghost tile, universally quantified)",
            lambda self, bbox, r, c, result: Implies(
                And(
                    o_reg(c, self._gbox.shape.x, self._tiles._tile_shape.x) <= bbox.right,
                    bbox.left <= o_reg(c + 1, self._gbox.shape.x, self._tiles._tile_shape.x),
                    o_reg(r, self._gbox.shape.y, self._tiles._tile_shape.y) <= bbox.top,
                    bbox.bottom <= o_reg(r + 1, self._gbox.shape.y, self._tiles._tile_shape.y),
                    # the open pixel rectangle actually meets the box (a contact along an outer edge of the tile selects no pixel)
                    o_reg(c, self._gbox.shape.x, self._tiles._tile_shape.x) < bbox.right,
                    bbox.left < o_reg(c + 1, self._gbox.shape.x, self._tiles._tile_shape.x),
                    o_reg(r, self._gbox.shape.y, self._tiles._tile_shape.y) < bbox.top,
                    bbox.bottom < o_reg(r + 1, self._gbox.shape.y, self._tiles._tile_shape.y),
                ),
                And(result[0].start <= r, r < result[0].stop, result[1].start <= c, c < result[1].stop),
            ),
        ),
        (
            "a box that lies strictly outside the raster selects no tile (empty ranges, not an error)",
            lambda self, bbox, result: Implies(
                Or(bbox.right < 0, bbox.left > self._gbox.shape.x, bbox.top < 0, bbox.bottom > self._gbox.shape.y),
                Or(result[0].stop <= result[0].start, result[1].stop <= result[1].start),
            ),
        ),
        ("ranges stay within the tiling", lambda self, result: And(0 <= result[0].start, result[0].stop <= self._tiles._shape.y, 0 <= result[1].start, result[1].stop <= self._tiles._shape.x)),
    ],
    note="pixel-space boxes (crs None) on regular tilings; boxes with a CRS are first projected (pyproj/shapely): bounded check only",
)


# ---- bounded stand-ins for the enumerating queries (shapely / pyproj / itertools) --------------------------------------------------


def _mk_tiled(kind):
    from affine import Affine

    from odc.geo.geobox import GeoBox, GeoboxTiles

    base = Affine(10.0, 0.0, 500000.0, 0.0, -10.0, 6000000.0)
    A = {"north_up": base, "mirrored": base * Affine.translation(64, 0) * Affine.scale(-1, 1), "rotated": base * Affine.rotation(30.0), "rot_shear": base * Affine.rotation(-50.0) * Affine.shear(10, 0)}[kind]
    g = GeoBox((50, 64), A, "EPSG:32633")
    return g


def _tq_samples():
    import itertools

    from affine import Affine

    from odc.geo import geom
    from odc.geo.geobox import GeoboxTiles

    def gen():
        for kind, tiling in itertools.product(("north_up", "mirrored", "rotated", "rot_shear"), ((16, 16), (50, 7), ((10, 25, 15), (30, 1, 33)))):
            g = _mk_tiled(kind)
            gt = GeoboxTiles(g, tiling)
            # query geometries built in pixel space of the raster, then mapped to the world / other CRS
            boxes = [(-30, -30, -5, -5), (-10, -10, 20, 12), (20, 10, 40, 30), (60, 45, 90, 70), (-100, -100, 200, 200), (16, 16, 32, 32), (70, 10, 90, 20)]
            for (x0, y0, x1, y1), crs, as_bbox in itertools.product(boxes, ("same", "EPSG:4326", "EPSG:3857"), (False, True)):
                poly_pix = geom.box(x0, y0, x1, y1, None)
                poly = g.project(poly_pix)  # pixel -> world
                if crs != "same":
                    poly = poly.to_crs(crs)
                q = poly.boundingbox if as_bbox else poly
                yield dict(self=gt, query=q)

    return "4 rasters (north-up, mirrored, rotated 30deg, rotated+sheared) x 3 tilings (regular 16x16, 50x7, variable) x 7 query regions (outside, straddling, inside, larger than the raster, on tile edges) x same CRS / EPSG:4326 / EPSG:3857 x polygon / bounding box", gen()


def _tq_post(self, query, result):
    from odc.geo.geom import BoundingBox

    got = sorted(result)
    poly = query.polygon if isinstance(query, BoundingBox) else query
    if self.base.crs is not None and poly.crs is not None and poly.crs != self.base.crs:
        poly = poly.to_crs(self.base.crs)
    ny, nx = self.shape.yx
    must, may = [], []
    for r in range(ny):
        for c in range(nx):
            ext = self[r, c].extent
            if ext.intersects(poly) and ext.intersection(poly).area > 1e-6 * ext.area:
                must.append((r, c))
            if not ext.disjoint(poly.buffer(1e-6 * max(1.0, abs(ext.boundingbox.span_x)))):
                may.append((r, c))
    complete = set(must) <= set(got)
    only = True if isinstance(query, BoundingBox) else set(got) <= set(may)  # geometry queries return only intersecting tiles
    return complete and only and len(set(got)) == len(got)


contract(
    f"{GBX}:GeoboxTiles.tiles",
    ["C12"],
    ensures=[("returns every tile whose footprint intersects the query and, for geometry queries, only such tiles; no duplicates", _tq_post)],
    verify=False,
    trusted_reason="shapely predicates, pyproj projection of the query, itertools.product over the ranges: BOUNDED native check against brute force over all tiles",
    native_samples=_tq_samples,
)


def _gi_samples():
    import itertools

    from affine import Affine

    from odc.geo.geobox import GeoBox, GeoboxTiles

    def gen():
        src = _mk_tiled("north_up")
        rel = {
            "aligned": Affine.translation(16, 8),
            "subpixel": Affine.translation(5.3, -2.6),
            "scaled": Affine.scale(2.0) * Affine.translation(-3, 4),
            "rotated": Affine.rotation(25.0),
            "mirrored_subpixel": Affine.translation(60.4, 3.7) * Affine.scale(-1, 1),
            "mirrored_y_scaled": Affine.translation(2.0, 45.5) * Affine.scale(1.3, -1.3),
            "touching": Affine.translation(64, 0),
            "overhang_left_top": Affine.translation(-30, -25),  # the destination's first tile row / column lies wholly outside the source
            "overhang_left_top_subpixel_x2": Affine.translation(-45.5, -33.25) * Affine.scale(2.0),
            "disjoint": Affine.translation(300, 300),
            "disjoint_rot": Affine.translation(400, -300) * Affine.rotation(10.0),
        }
        for (name, M), st, dt in itertools.product(rel.items(), ((16, 16), (25, 64)), ((20, 20), (7, 50))):
            dst = GeoBox((40, 50), src.affine * M, src.crs)
            yield dict(self=GeoboxTiles(dst, dt), src=GeoboxTiles(src, st), kind=name)
        # the SAME pixel grid tiled twice with different interior cuts (equal shape, tile count and first tile)
        ny_, nx_ = src.shape
        for (ya, yb), (xa, xb) in ((((16, 30, ny_ - 46), (16, 20, ny_ - 36)), ((nx_,), (nx_,))), (((ny_,), (ny_,)), ((10, 34, nx_ - 44), (10, 14, nx_ - 24))), (((16, 30, ny_ - 46), (16, 20, ny_ - 36)), ((10, 34, nx_ - 44), (10, 14, nx_ - 24)))):
            yield dict(self=GeoboxTiles(src, (yb, xb)), src=GeoboxTiles(src, (ya, xa)), kind="same-grid-different-cuts")
        for crs, res in (("EPSG:4326", 0.0002), ("EPSG:3857", 20.0)):
            ext = src.extent.to_crs(crs).boundingbox
            w, h = ext.span_x, ext.span_y
            for dx in (0.0, 0.6, 3.0):
                dst = GeoBox.from_bbox((ext.left + dx * w, ext.bottom, ext.right + dx * w, ext.top), crs, resolution=res)
                yield dict(self=GeoboxTiles(dst, (30, 30)), src=GeoboxTiles(src, (16, 16)), kind=f"{crs}+{dx}")

        # coarse source pixels under a fine destination in another CRS, for every orientation of the source
        # (the source footprint's pixel buffer matters most here)
        coarse = GeoBox.from_bbox((110, -45, 155, -10), "EPSG:4326", resolution=1)
        fine = GeoBox.from_bbox((-2_000_000, -4_900_000, 2_300_000, -1_000_000), "EPSG:3577", resolution=20_000)
        for oname, sg in (("north_up", coarse), ("flipx", coarse.flipx()), ("flipy", coarse.flipy()), ("rot180", coarse.flipx().flipy())):
            yield dict(self=GeoboxTiles(fine, (32, 32)), src=GeoboxTiles(sg, (5, 5)), kind=f"coarse-src-{oname}")

    return "44 same-CRS pairs (aligned, sub-pixel, scaled, rotated, mirrored + sub-pixel, mirrored + x1.3, touching, overhanging the source by whole tiles on the left / top, disjoint) x 2x2 tilings + 3 pairs of variable-sized tilings of one grid with different interior cuts + 6 cross-CRS pairs (overlapping, partly, disjoint) + 4 coarse-source / fine-destination cross-CRS pairs (source north-up, mirrored in x, in y, both)", gen()


def _gi_post(self, src, kind, result):
    deps = result
    ok = True
    for didx in [(r, c) for r in range(self.shape.y) for c in range(self.shape.x)]:
        dext = self[didx].extent
        if src.base.crs != self.base.crs:
            dext_s = dext.to_crs(src.base.crs)
        else:
            dext_s = dext
        got = set(map(tuple, deps.get(didx, [])))
        for sidx in [(r, c) for r in range(src.shape.y) for c in range(src.shape.x)]:
            sext = src[sidx].extent
            inter = sext.intersection(dext_s)
            if inter.area > 0.02 * min(sext.area, dext_s.area):  # overlaps beyond a sliver
                if sidx not in got:
                    ok = False
    if kind.startswith("disjoint") or kind.endswith("+3.0"):
        ok = ok and all(len(v) == 0 for v in deps.values())
    return ok


contract(
    f"{GBX}:GeoboxTiles.grid_intersect",
    ["C12"],
    ensures=[("for every destination tile every source tile that overlaps it beyond a sliver is listed; rasters that do not overlap give empty lists (no error)", lambda self, src, kind, result: _gi_post(self, src, kind, result))],
    verify=False,
    trusted_reason="loops over numpy.ndindex, shapely footprints, pyproj: BOUNDED native check against brute force over all tile pairs",
    native_samples=_gi_samples,
)


# ---- same-CRS linear dependency map: per destination tile, the query box contains the tile's image --------------------------------


def _lemma_gi_linear(self, idx, sx, sy, tx, ty, p, q):
    """the real _grid_intersect_linear with its loop restricted to ONE (symbolic) destination tile and the source
    lookup recorded: the box handed to src.tiles() contains the image A(p, q) of every point (p, q) of the
    tile's pixel rectangle -- for either sign of each scale (mirrored grids), any shift"""
    GT = repo(GBX).GeoboxTiles
    A = repo("affine").Affine(sx, 0, tx, 0, sy, ty)
    asked = []

    class Src:
        def tiles(self, bbox):
            asked.append(bbox)
            return [("src-tile-of", len(asked))]

    class HIdx(tuple):
        """the symbolic tile index as a dictionary key (hashed by identity: the code only stores under it)"""

        __hash__ = object.__hash__
        __eq__ = object.__eq__

    key = HIdx(idx)
    saved = GT.__dict__["_all_tiles"]
    try:
        GT._all_tiles = lambda s: iter([key])
        deps = self._grid_intersect_linear(Src(), A)
    finally:
        GT._all_tiles = saved
    claim(len(asked) == 1 and list(deps) == [key] and deps[key] == [("src-tile-of", 1)], "one source query per destination tile; its answer is the tile's dependency list")
    bb = asked[0]
    ix, iy = A * (p, q)
    claim(And(bb.left <= ix, ix <= bb.right, bb.bottom <= iy, iy <= bb.top), "the queried box contains the image of every point of the destination tile's rectangle (mirrored axes and sub-pixel shifts included)")
    claim(And(is_int_valued(bb.left), is_int_valued(bb.right), is_int_valued(bb.bottom), is_int_valued(bb.top)), "... and is made of whole source pixels")
    x0 = o_reg(idx[1], self._gbox.shape.x, self._tiles._tile_shape.x)
    x1 = o_reg(idx[1] + 1, self._gbox.shape.x, self._tiles._tile_shape.x)
    lo, hi = Min(sx * x0 + tx, sx * x1 + tx), Max(sx * x0 + tx, sx * x1 + tx)
    claim(And(bb.left > lo - 1, bb.right < hi + 1), "... and exceeds the image by less than one source pixel per side (no spurious dependencies beyond rounding)")


lemma(
    "geobox.grid_intersect_linear_tile",
    ["C12", "C13", "C03"],
    inputs=dict(self=GBT(), idx=Tup(Int(ge=0), Int(ge=0)), sx=OneOf(Real(gt=0), Real(lt=0)), sy=OneOf(Real(gt=0), Real(lt=0)), tx=Real(), ty=Real(), p=Real(), q=Real()),
    requires=[
        lambda self: wf_gbt(self),
        lambda self, idx: And(idx[0] < self._tiles._shape.y, idx[1] < self._tiles._shape.x),
        lambda self, idx, p, q: And(
            o_reg(idx[1], self._gbox.shape.x, self._tiles._tile_shape.x) <= p,
            p <= o_reg(idx[1] + 1, self._gbox.shape.x, self._tiles._tile_shape.x),
            o_reg(idx[0], self._gbox.shape.y, self._tiles._tile_shape.y) <= q,
            q <= o_reg(idx[0] + 1, self._gbox.shape.y, self._tiles._tile_shape.y),
        ),
    ],
    body=_lemma_gi_linear,
    unstub=[f"{GEOM}:BoundingBox.transform"],
    note="(p, q) is a ghost point of the tile, universally quantified; completeness of src.tiles(box) for a pixel box is range_from_bbox's contract; the enumeration over all destination tiles (numpy.ndindex) is covered by the bounded check",
)


# ---- tiles() / grid_intersect(): data flow over ghost geometry (shapely / pyproj are recording ghosts) ---------------------------------


class _GhostPoly:
    def __init__(self, tag, crs, empty=False, touching=()):
        self.tag, self.crs, self.is_empty, self.touching = tag, crs, empty, set(touching)
        self.boundingbox = ("bbox-of", tag)
        self.log = []

    def to_crs(self, crs, **kw):
        self.log.append(("to_crs", crs, kw))
        return _GhostPoly(("reprojected", self.tag), crs, self.is_empty, self.touching)

    def disjoint(self, other):
        return other[1] not in self.touching  # other = ("extent-of", idx)

    def __and__(self, o):
        return _GhostPoly(("and", self.tag, o.tag), self.crs, False, self.touching & o.touching if (self.touching and o.touching) else (self.touching or o.touching))


def _lemma_tiles_flow(kind, same_crs, yy0, yy1, xx0, xx1):
    m = repo(GBX)
    GT = m.GeoboxTiles
    tgt = crs_like = object()
    calls = []
    touching = {(yy0, xx0), (yy1 - 1, xx1 - 1), (yy0, xx1 - 1)}

    class Base:
        crs = tgt

    class Tile:
        def __init__(self, idx):
            self.extent = ("extent-of", idx)

    gt = object.__new__(GT)
    object.__setattr__(gt, "_gbox", Base())
    saved = (GT.__dict__["range_from_bbox"], GT.__dict__["__getitem__"], m.BoundingBox)
    try:
        GT.range_from_bbox = lambda self, bbox: (calls.append(("range_from_bbox", bbox)), (range(yy0, yy1), range(xx0, xx1)))[1]
        GT.__getitem__ = lambda self, idx: Tile(idx)
        if kind == "pix_bbox":

            class BB:  # a BoundingBox without CRS: the pixel-domain special case
                crs = None

            m.BoundingBox = BB
            q = BB()
            out = list(gt.tiles(q))
            claim(calls == [("range_from_bbox", q)], "pixel-domain box: ranges asked for that very box")
            claim(out == [(y, x) for y in range(yy0, yy1) for x in range(xx0, xx1)], "pixel-domain box: every tile of the ranges, row-major")
            return
        poly = _GhostPoly("query", tgt if same_crs else object(), empty=(kind == "empty"), touching=touching)
        if kind == "crs_bbox":

            class BB:
                crs = poly.crs
                polygon = poly

            m.BoundingBox = BB
            q = BB()
        else:
            q = poly
        out = list(gt.tiles(q))
    finally:
        GT.range_from_bbox, GT.__getitem__, m.BoundingBox = saved
    if kind == "empty":
        claim(out == [] and calls == [], "empty query: no tiles, nothing computed")
        return
    if same_crs:
        claim(poly.log == [], "same CRS: the query is used as is")
        used = "query"
    else:
        claim(len(poly.log) == 1 and poly.log[0][1] is tgt and poly.log[0][2] == {"check_and_fix": True}, "other CRS: the query is reprojected once into the raster's CRS (repairing projection artefacts)")
        used = ("reprojected", "query")
    claim(calls == [("range_from_bbox", ("bbox-of", used))], "candidate ranges come from the bounding box of the (reprojected) query")
    want = [(y, x) for y in range(yy0, yy1) for x in range(xx0, xx1) if (y, x) in touching]
    claim(out == want, "exactly the candidate tiles whose extent is not disjoint from the query, in row-major order, each once")


lemma(
    "geoboxtiles.tiles_flow",
    ["C12"],
    inputs=dict(kind=OneOf("geometry", "crs_bbox", "pix_bbox", "empty"), same_crs=Bool(), yy0=OneOf(0, 1), yy1=OneOf(1, 3), xx0=OneOf(0, 2), xx1=OneOf(2, 4)),
    body=_lemma_tiles_flow,
    unstub=[f"{GBX}:GeoboxTiles.tiles"],
    note="data flow of the real GeoboxTiles.tiles over ghost geometry: which box the candidate ranges come from and which candidates survive the shapely filter; candidate completeness is range_from_bbox's contract (proved), the predicates are shapely's",
)


def _lemma_grid_intersect_flow(linear, same_crs):
    m = repo(GBX)
    GT = m.GeoboxTiles
    log = []
    crs_a, crs_b = object(), object()

    class Base:
        def __init__(self, name, crs):
            self.name, self.crs = name, crs
            self.extent = _GhostPoly(("extent", name), crs)

        def footprint(self, crs, buffer=0, npoints=100):
            log.append(("footprint", self.name, crs, buffer))
            return _GhostPoly(("footprint", self.name, crs, buffer), crs)

    class Tile:
        def __init__(self, owner, idx):
            self.extent = ("extent-of", owner, idx)

    def mk(name, crs):
        g = object.__new__(GT)
        object.__setattr__(g, "_gbox", Base(name, crs))
        return g

    dst, src = mk("dst", crs_a), mk("src", crs_a if same_crs else crs_b)
    names = {id(dst): "dst", id(src): "src"}
    saved = (GT.__dict__["_check_linear"], GT.__dict__["_grid_intersect_linear"], GT.__dict__["tiles"], GT.__dict__["__getitem__"])
    try:
        GT._check_linear = lambda self, other: (log.append(("check_linear", names[id(self)], names[id(other)])), "A" if linear else None)[1]
        GT._grid_intersect_linear = lambda self, other, A: (log.append(("linear", names[id(self)], names[id(other)], A)), {"linear": True})[1]

        def tiles(self, q):
            log.append(("tiles", names[id(self)], q.tag if hasattr(q, "tag") else q))
            return iter([(0, 1), (2, 0)]) if names[id(self)] == "dst" else iter([("s", q)])

        GT.tiles = tiles
        GT.__getitem__ = lambda self, idx: Tile(names[id(self)], idx)
        out = dst.grid_intersect(src)
    finally:
        GT._check_linear, GT._grid_intersect_linear, GT.tiles, GT.__getitem__ = saved
    claim(log[0] == ("check_linear", "dst", "src"), "first: are the two grids related by scale + translation in one CRS?")
    if linear:
        claim(log[1:] == [("linear", "dst", "src", "A")] and out == {"linear": True}, "yes: the exact pixel-space computation, with that transform")
        return
    if same_crs:
        claim(not any(e[0] == "footprint" for e in log), "same CRS (rotated / sheared pair): the source extent is used directly")
        fp = ("extent", "src")
    else:
        fps = [e for e in log if e[0] == "footprint"]
        claim(sorted(e[1] for e in fps) == ["dst", "src"] and all(e[2] == 4326 and e[3] == 2 for e in fps), "other CRS: both footprints in lon/lat, buffered by 2 pixels")
        fp = ("reprojected", ("and", ("footprint", "src", 4326, 2), ("footprint", "dst", 4326, 2)))
    tl = [e for e in log if e[0] == "tiles"]
    claim(tl[0] == ("tiles", "dst", fp), "destination tiles that can hold data: those meeting the source footprint (in the destination's CRS)")
    claim(tl[1:] == [("tiles", "src", ("extent-of", "dst", (0, 1))), ("tiles", "src", ("extent-of", "dst", (2, 0)))], "for each of them: the source tiles meeting THAT destination tile's extent")
    claim(out == {(0, 1): [("s", ("extent-of", "dst", (0, 1)))], (2, 0): [("s", ("extent-of", "dst", (2, 0)))]}, "the dependency map lists exactly those, per destination tile; tiles without data are absent")


lemma(
    "geoboxtiles.grid_intersect_flow",
    ["C12", "C13"],
    inputs=dict(linear=Bool(), same_crs=Bool()),
    body=_lemma_grid_intersect_flow,
    unstub=[f"{GBX}:GeoboxTiles.grid_intersect"],
    note="data flow of the real grid_intersect over ghost tilings / footprints: dispatch to the linear path, footprint construction for the general path, per-tile source queries",
)
