"""
Contracts for odc/geo/_dask.py and odc/geo/_blocks.py
(C13: chunked reprojection equals whole-array reprojection; C04: blocks reassemble the mosaic).

The warp itself is GDAL's and the schedule is dask's: no contract here states either.  What odc-geo itself
contributes to "chunked == whole" is (a) which source blocks each destination chunk is computed from, (b) how
those blocks are pasted into the window handed to the warp and what the gaps are filled with, (c) what a chunk
that needs no source holds.  Decided here:

  proved   dask.fill_value_rule           resolve_fill_value over the complete decision structure (dst nodata /
                                          src nodata / dtype kind), values symbolic where numpy allows
  proved   dask.chunk_task_flow           the real _do_chunked_reproject over ghost blocks and a recording warp:
                                          the source tiling is clipped to exactly the listed tiles, every listed
                                          block is handed to the assembler under its re-based index, the warp is
                                          called once per non-spatial plane with the assembled window, the clipped
                                          source GeoBox, the destination chunk's GeoBox, into a zero-initialised chunk
  bounded  BlockAssembler.extract         pasted window == the same window of the dense mosaic (exhaustive small)
  bounded  _dask_rio_reproject@graph      structure of the real dask graph: one task per destination chunk, its
                                          dependencies are exactly grid_intersect's source blocks, chunks without
                                          any are constant fill blocks of the right shape / dtype / value
  bounded  _dask_rio_reproject@equality   computed result vs the in-memory path on the real GDAL
"""
from pyvc.api import *  # noqa: F401,F403

DK = "odc.geo._dask"
BL = "odc.geo._blocks"


# ---- fill value ---------------------------------------------------------------------------------------------------


def _lemma_fill_value(dst_nodata, src_nodata, dtype):
    import numpy as np

    m = repo(DK)
    r = m.resolve_fill_value(dst_nodata, src_nodata, dtype)
    dt = np.dtype(dtype)
    claim(type(r) is dt.type, "the fill value has the array's dtype")
    same = lambda a, b: bool(a == b) or (bool(np.isnan(a)) and bool(np.isnan(b)))  # noqa: E731  (a NaN nodata is a nodata like any other)
    if dst_nodata is not None:
        claim(same(r, dt.type(dst_nodata)), "destination nodata when set (NaN included)")
    elif src_nodata is not None:
        claim(same(r, dt.type(src_nodata)), "else the source nodata (NaN included)")
    elif dt.kind == "f":
        claim(bool(np.isnan(r)), "else NaN for floating-point data")
    else:
        claim(r == 0, "else zero")


lemma(
    "dask.fill_value_rule",
    ["C13"],
    inputs=dict(dst_nodata=OneOf(None, 0, 7, -3, float("nan")), src_nodata=OneOf(None, 0, 5, -9, float("nan")), dtype=OneOf("uint8", "int8", "int16", "uint16", "int32", "float32", "float64")),
    requires=[
        lambda dst_nodata, src_nodata, dtype: (not dtype.startswith("u")) or ((dst_nodata is None or not dst_nodata < 0) and (src_nodata is None or not src_nodata < 0)),
        lambda dst_nodata, src_nodata, dtype: dtype.startswith("float") or not any(isinstance(v, float) and v != v for v in (dst_nodata, src_nodata)),  # NaN nodata only makes sense for floating-point data
    ],
    body=_lemma_fill_value,
    note="EXHAUSTIVE over the decision structure (5 x 5 x 7 concrete combinations incl. NaN nodata for floating-point data): numpy scalar construction is concrete code",
)


# ---- one destination chunk ------------------------------------------------------------------------------------------


class _GhostBlock:
    def __init__(self, tag):
        self.tag = tag


class _GhostMask:
    def __init__(self, verdict):
        self._v = verdict

    def all(self, *a, **k):
        return self._v

    def any(self, *a, **k):
        return self._v


class _GhostWin:
    """the window an assembler hands out: compares like an array with a scalar (`(w == nodata).all()` is the lemma's
    input `all_nodata`: whether this window holds nothing but the source nodata)"""

    def __init__(self, roi, all_nodata):
        self.roi, self._all = roi, all_nodata

    def __eq__(self, o):
        if isinstance(o, _GhostWin):
            return self.roi == o.roi
        return _GhostMask(self._all)

    def __ne__(self, o):
        if isinstance(o, _GhostWin):
            return self.roi != o.roi
        return _GhostMask(not self._all)

    __hash__ = None


def _lemma_chunk_task(n_src, axis, src_nodata, dst_nodata, dt, all_nodata):
    m = repo(DK)
    log = dict(ba=[], extract=[], warp=[], zeros=[], assign=[])
    src_idx_in = [(2, 3), (2, 4), (3, 3)][:n_src]
    blocks = [_GhostBlock(f"block{k}") for k in range(n_src)]

    class GhostGBT:
        """stand-in GeoboxTiles: records clip / indexing"""

        def __init__(self, tag, base=None, chunks=None):
            self.tag, self.base, self.chunks = tag, base, chunks

        def clip(self, idx):
            log.setdefault("clip", []).append((self.tag, list(idx)))
            rebased = [(iy - 2, ix - 3) for iy, ix in idx]
            return GhostGBT("src-clipped", base=_SRC_GBOX, chunks=("chy", "chx")), rebased

        def __getitem__(self, idx):
            log.setdefault("getitem", []).append((self.tag, idx))
            return _DST_GBOX

    G = repo("odc.geo.geobox").GeoBox
    A = repo("affine").Affine
    _SRC_GBOX = G((4, 6), A(1.0, 0, 0, 0, -1.0, 0), "EPSG:3857")
    _DST_GBOX = G((3, 5), A(2.0, 0, 0, 0, -2.0, 0), "EPSG:3857")

    class GhostBA:
        def __init__(self, blocks, chunks, axis=0):
            log["ba"].append((dict(blocks), chunks, axis))
            self.dtype = dt
            self.shape = ("T",) * axis + ("NY", "NX")
            self._axis = axis

        def with_yx(self, src, yx):
            return (*src[: self._axis], *yx, *src[self._axis + 2 :])

        def planes_yx(self):
            if self._axis == 0:
                return [("roi-yx",)]
            return [("plane0", "roi-yx"), ("plane1", "roi-yx")]

        def extract(self, fill_value=None, *, dtype=None, roi=None, casting="same_kind"):
            log["extract"].append((fill_value, dtype, roi, casting))
            return _GhostWin(roi, all_nodata)

    class GhostDst:
        def __init__(self, shape, dtype):
            self.shape, self.dtype = shape, dtype

        def __getitem__(self, roi):
            return ("dst-view", roi)

        def __setitem__(self, roi, value):
            log["assign"].append((len(log["extract"]) - 1, roi, value))

    class GhostNp:
        s_ = __import__("numpy").s_
        dtype = staticmethod(__import__("numpy").dtype)
        nan = float("nan")
        isnan = staticmethod(__import__("numpy").isnan)
        issubdtype = staticmethod(__import__("numpy").issubdtype)
        floating = __import__("numpy").floating

        @staticmethod
        def zeros(shape, dtype=None):
            log["zeros"].append((shape, dtype))
            return GhostDst(shape, dtype)

    def warp(src, dst, s_gbox, d_gbox, **kw):
        log["warp"].append((len(log["extract"]) - 1, src, dst, s_gbox, d_gbox, kw))
        return dst

    saved = (m.BlockAssembler, m._rio_reproject, m.np)
    try:
        m.BlockAssembler, m._rio_reproject, m.np = GhostBA, warp, GhostNp
        d2s = {(1, 1): list(src_idx_in), (0, 0): [(9, 9)]}
        out = m._do_chunked_reproject(d2s, GhostGBT("src"), GhostGBT("dst"), (1, 1), *blocks, axis=axis, src_nodata=src_nodata, dst_nodata=dst_nodata, resampling="nearest")
    finally:
        m.BlockAssembler, m._rio_reproject, m.np = saved

    claim(log["clip"] == [("src", list(src_idx_in))], "the source tiling is clipped to exactly the source tiles listed for THIS destination chunk")
    claim(log["getitem"] == [("dst", (1, 1))], "the destination GeoBox is that of this chunk")
    claim(len(log["ba"]) == 1 and log["ba"][0][1] == ("chy", "chx") and log["ba"][0][2] == axis, "blocks are assembled on the clipped tiling, along the right axes")
    got = log["ba"][0][0]
    claim(sorted(got) == sorted((iy - 2, ix - 3) for iy, ix in src_idx_in) and all(got[(iy - 2, ix - 3)] is b for (iy, ix), b in zip(src_idx_in, blocks)), "every listed block is handed over under its re-based tile index, in the order of the listing")
    nplanes = 1 if axis == 0 else 2
    claim(len(log["zeros"]) == 1 and log["zeros"][0][1] == dt, "the chunk starts zero-initialised with the assembled dtype")
    claim(log["zeros"][0][0] == ("T",) * axis + (3, 5), "the chunk has the destination chunk's shape with the non-spatial axes of the source")
    import math as _m

    warps = {w[0]: w[1:] for w in log["warp"]}
    assigns = {a[0]: a[1:] for a in log["assign"]}
    claim(len(log["extract"]) == nplanes and len(log["warp"]) + len(log["assign"]) == nplanes and sorted([*warps, *assigns]) == list(range(nplanes)), "every non-spatial plane is produced exactly once (one warp per plane; a plane may only be filled directly -- see below)")
    claim(all_nodata or not assigns, "a plane whose window holds data is always warped")

    def plane_view(roi):
        return (tuple(roi[:-1]) + (slice(None), slice(None))) if axis else (slice(None), slice(None))

    for k, (fill, dt_, roi, casting) in enumerate(log["extract"]):
        claim(fill is src_nodata and dt_ == dt, "gaps between the available blocks are filled with the source nodata")
        if k in warps:
            src, dst, sg, dg, kw = warps[k]
            claim(isinstance(src, _GhostWin) and src.roi == roi, "the warp reads the assembled window of that plane")
            claim(dst == ("dst-view", plane_view(roi)), "... and writes the same plane of the chunk")
            claim(sg is _SRC_GBOX and dg is _DST_GBOX, "with the clipped source GeoBox and the destination chunk's GeoBox")
            claim(kw.get("src_nodata") is src_nodata and kw.get("resampling") == "nearest", "source nodata and resampling passed through")
            got_dn = kw.get("dst_nodata")
            if dst_nodata is None and dt.startswith("float"):
                claim(isinstance(got_dn, float) and _m.isnan(got_dn), "floating-point data without nodata: unreached pixels become NaN (same rule as the in-memory path)")
            else:
                claim(got_dn is dst_nodata, "destination nodata passed through")
        elif k in assigns:
            # a window of nothing but source nodata reaches no destination pixel: the plane must hold the FILL value --
            # destination nodata if set, else source nodata (only reachable with a source nodata), exactly what the warp leaves
            aroi, val = assigns[k]
            want = dst_nodata if dst_nodata is not None else src_nodata
            claim(src_nodata is not None and aroi == plane_view(roi) and val == want, "a plane filled without warping holds the fill value (destination nodata if set, else source nodata) in the right plane")
    claim(isinstance(out, GhostDst), "the chunk is returned")


lemma(
    "dask.chunk_task_flow",
    ["C13"],
    inputs=dict(n_src=OneOf(1, 2, 3), axis=OneOf(0, 1), src_nodata=OneOf(None, -1), dst_nodata=OneOf(None, 9), dt=OneOf("int16", "float32"), all_nodata=Bool()),
    body=_lemma_chunk_task,
    note="data flow of the real _do_chunked_reproject over ghost tilings / blocks / assembler and a recording warp",
)


# ---- BOUNDED: BlockAssembler ------------------------------------------------------------------------------------------


def _ba_samples():
    import itertools
    import os

    thorough = os.environ.get("PYVC_TIER", "quick") == "thorough"

    def gen():
        chunk_sets = [((2, 1), (1, 3)), ((3,), (2, 2)), ((1, 1, 2), (2,)), ((2, 3), (3, 1, 2))]
        for chy, chx in chunk_sets:
            tiles = [(iy, ix) for iy in range(len(chy)) for ix in range(len(chx))]
            subsets = [tiles, tiles[::2], tiles[1::2], tiles[:1], []]
            for present in subsets:
                for axis, extra in ((0, ()), (1, (2,)), (0, (3,))):
                    if not present and extra:
                        continue  # without any block the non-spatial axes are unknown: only the plain YX case is meaningful
                    for dtype in ("uint8", "float32") if not thorough else ("uint8", "int16", "float32"):
                        for fill in (None, 7, -1, float("nan")):  # incl. fills the blocks' dtype cannot hold
                            yield dict(chy=chy, chx=chx, present=present, axis=axis, extra=extra, dtype=dtype, fill=fill)
        # wide integers next to a float fill: the common type must hold every pixel EXACTLY (float32 cannot beyond 2**24)
        for dtype in ("int32", "uint32", "int64"):
            for fill in (float("nan"), 0.5, None):
                yield dict(chy=(2, 1), chx=(1, 3), present=[(0, 0), (1, 1)], axis=0, extra=(), dtype=dtype, fill=fill)

    return "4 chunkings (1-3 tiles per axis, tile sides 1-3) x 5 subsets of present blocks (all / alternating / one / none) x 3 axis layouts (YX, T-YX, YX-B) x 2-3 dtypes (+ int32 / uint32 / int64 near their maximum with a float fill) x fill None / 7 / -1 / NaN (incl. fills the blocks' dtype cannot hold); every window of the mosaic for the smaller cases, 12 windows otherwise", gen()


def _ba_oracle(args, run=None):
    import itertools

    import numpy as np

    from odc.geo._blocks import BlockAssembler

    chy, chx, present, axis, extra, dtype, fill = (args[k] for k in ("chy", "chx", "present", "axis", "extra", "dtype", "fill"))
    ny, nx = sum(chy), sum(chx)
    oy = np.concatenate([[0], np.cumsum(chy)])
    ox = np.concatenate([[0], np.cumsum(chx)])
    pre = extra if axis == 1 else ()
    post = extra if (axis == 0 and extra) else ()
    full_shape = (*pre, ny, nx, *post)
    rng = np.random.default_rng(ny * 31 + nx)
    hi = {1: 250, 2: 30000}.get(np.dtype(dtype).itemsize, int(min(np.iinfo(dtype).max if np.dtype(dtype).kind in "iu" else 2**24, 2**52)))
    truth = rng.integers(max(1, hi - 1000) if hi > 30000 else 1, hi, size=full_shape).astype(dtype)  # values a narrower type of another kind would wrap / round
    blocks = {}
    for iy, ix in present:
        sl = (*(slice(None) for _ in pre), slice(oy[iy], oy[iy + 1]), slice(ox[ix], ox[ix + 1]), *(slice(None) for _ in post))
        blocks[(iy, ix)] = truth[sl].copy()
    fails = []
    try:
        ba = BlockAssembler(blocks, (chy, chx), axis=axis)
    except Exception as e:  # pylint: disable=broad-except
        return [f"no-exception:{type(e).__name__}: {e}"]
    if present and tuple(ba.shape) != tuple(full_shape):
        fails.append(f"post:shape of the mosaic ({ba.shape} vs {full_shape})")
    eff_fill = fill if fill is not None else (np.nan if np.dtype(ba.dtype).kind == "f" else 0)
    dense_shape = full_shape if present else (ny, nx)
    dense = np.full(dense_shape, eff_fill, dtype="float64")  # the mosaic as NUMBERS: whatever dtype comes back must hold every value and the fill
    for (iy, ix), b in blocks.items():
        sl = (*(slice(None) for _ in pre), slice(oy[iy], oy[iy + 1]), slice(ox[ix], ox[ix + 1]), *(slice(None) for _ in post))
        dense[sl] = b
    wins = [(slice(a, b), slice(c, d)) for a in range(ny) for b in range(a + 1, ny + 1) for c in range(nx) for d in range(c + 1, nx + 1)]
    if len(wins) > 40:
        wins = wins[:: max(1, len(wins) // 12)]
    wins.append((slice(None), slice(None)))
    for L in (*pre, *post):
        # Y/X windows whose extent coincides with the length of a NON-spatial axis (they must still mean rows / columns)
        wins += [(slice(0, min(L, ny)), slice(None)), (slice(0, min(L, ny)), slice(0, min(ny, nx))), (slice(None), slice(0, min(L, nx)))]
    for w in wins:
        got = ba.extract(fill, roi=w)
        sl = (*(slice(None) for _ in (pre if present else ())), *w, *(slice(None) for _ in (post if present else ())))
        want = dense[sl]
        if got.shape != want.shape or not np.array_equal(got.astype("float64"), want, equal_nan=True):
            fails.append(f"post:window {w} of the assembled array equals the same window of the dense mosaic (present blocks copied, the rest filled)")
            break
    # N-d windows: a single plane / a sub-range of the non-spatial axis, combined with a Y/X window
    if present and extra and not fails:
        n_extra = extra[0]
        yx = wins[len(wins) // 2]
        nd = []
        for p_ in range(n_extra):
            nd.append((p_, *yx) if pre else (*yx, p_))
        if n_extra >= 3:
            nd.append((slice(1, 3), *yx) if pre else (*yx, slice(1, 3)))
        for w in nd:
            try:
                got = ba.extract(fill, roi=w)
            except Exception as e:  # pylint: disable=broad-except
                fails.append(f"no-exception:{type(e).__name__} for the N-d window {w}: {e}")
                break
            want = dense[w]
            if got.shape != want.shape or not np.array_equal(got, want, equal_nan=True):
                fails.append(f"post:N-d window {w} (one plane / a range of the non-spatial axis) equals the same window of the dense mosaic")
                break
        if not fails:
            planes = list(ba.planes_yx())
            for roi_ in planes:
                got = ba.extract(fill, roi=roi_)
                want = dense[roi_]
                if got.shape != want.shape or not np.array_equal(got, want, equal_nan=True):
                    fails.append(f"post:plane {roi_} of planes_yx() equals the same plane of the dense mosaic")
                    break
            if len(planes) != n_extra:
                fails.append("post:planes_yx() enumerates one Y/X plane per index of the non-spatial axis")
    return fails


contract(
    f"{BL}:BlockAssembler.extract",
    ["C04", "C13"],
    ensures=[("the pasted window equals the same window of the dense mosaic: each pixel from the block that owns it, fill elsewhere", lambda result: True)],
    verify=False,
    trusted_reason="numpy N-d slicing and copyto: BOUNDED native check; the per-axis intersection arithmetic it rests on (roi_intersect3, VariableSizedTiles) is proved under C17/C04",
    native_samples=_ba_samples,
    native_oracle=_ba_oracle,
)


# ---- BOUNDED: graph structure and end-to-end equality -----------------------------------------------------------------------


def _rp_cases():
    from affine import Affine

    from odc.geo.geobox import GeoBox

    src = GeoBox((23, 31), Affine(10.0, 0, 500_000.0, 0, -10.0, 6_000_000.0), "EPSG:32633")
    A = src.affine
    dsts = {
        "aligned_shift": GeoBox((20, 25), A * Affine.translation(4, -3), src.crs),
        "identical": src,
        "subpixel": GeoBox((20, 25), A * Affine.translation(3.3, 2.6), src.crs),
        "zoom_in_2": GeoBox((30, 40), A * Affine.translation(2, 2) * Affine.scale(0.5), src.crs),
        "zoom_out_2": GeoBox((9, 12), A * Affine.translation(-1, -1) * Affine.scale(2.0), src.crs),
        "mirrored": GeoBox((20, 25), A * Affine.translation(28, 1) * Affine.scale(-1, 1), src.crs),
        "mirrored_subpixel": GeoBox((20, 25), A * Affine.translation(28.4, 1.7) * Affine.scale(-1, 1), src.crs),
        "mirrored_y_scaled": GeoBox((14, 20), A * Affine.translation(2.0, 21.5) * Affine.scale(1.3, -1.3), src.crs),
        "partial_overlap": GeoBox((20, 25), A * Affine.translation(20, 15), src.crs),
        "disjoint": GeoBox((10, 12), A * Affine.translation(200, 300), src.crs),
        "other_crs": None,
    }
    return src, dsts


def _eq_samples():
    import os

    thorough = os.environ.get("PYVC_TIER", "quick") == "thorough"

    def gen():
        _, dsts = _rp_cases()
        chunkings = [((7, 9), (5, 6)), ((23, 31), (4, 25)), ((1, 1), (10, 10)), ((5, 31), (1, 1)), ((8, 8), None)]
        for name in dsts:
            for (sch, dch) in chunkings if thorough else chunkings[:4]:
                if (sch == (1, 1) or dch == (1, 1)) and name in ("zoom_in_2", "other_crs") and not thorough:
                    continue
                for dtype, nodata in (("int16", -1), ("uint8", None), ("float32", None)) if thorough or name in ("aligned_shift", "partial_overlap", "disjoint") else (("int16", -1),):
                    for time_axis in (False, True) if name in ("aligned_shift", "partial_overlap") else (False,):
                        yield dict(dst=name, src_chunks=sch, dst_chunks=dch, dtype=dtype, nodata=nodata, time_axis=time_axis)
        # whole source chunks / a whole time step hold nothing but nodata, and the destination nodata is overridden
        for name in ("aligned_shift", "subpixel", "partial_overlap"):
            for time_axis in (False, True):
                yield dict(dst=name, src_chunks=(7, 9), dst_chunks=(5, 6), dtype="int16", nodata=-1, time_axis=time_axis, masked=True, dst_nodata=100)
        yield dict(dst="aligned_shift", src_chunks=(7, 9), dst_chunks=(5, 6), dtype="uint8", nodata=0, time_axis=True, masked=True, dst_nodata=255)
        # onto the source's OWN grid, default destination chunking: still a reprojection (nodata is re-mapped)
        for time_axis in (False, True):
            yield dict(dst="identical", src_chunks=(7, 9), dst_chunks=None, dtype="int16", nodata=-1, time_axis=time_axis, masked=True, dst_nodata=100)
        yield dict(dst="identical", src_chunks=(23, 31), dst_chunks=None, dtype="uint8", nodata=0, time_axis=False, masked=True, dst_nodata=255)
        # boolean rasters (warped through a 0/255 detour): the fill value asked for is True / False
        for dn in (1, 0, None):
            yield dict(dst="partial_overlap", src_chunks=(7, 9), dst_chunks=(5, 6), dtype="bool", nodata=None, time_axis=False, dst_nodata=dn)
        # several lazy reprojections of the SAME source evaluated in one graph must not interfere
        for vary in ("dst_nodata", "src_nodata", "resampling", "dst_geobox", "chunks"):
            yield dict(dst="partial_overlap", src_chunks=(7, 9), dst_chunks=(5, 6), dtype="int16", nodata=-1, time_axis=False, joint=vary)

    return "11 destination placements (identical, whole-pixel shift, sub-pixel, x2, x1/2, mirrored, mirrored + sub-pixel, mirrored + x1.3, partial overlap, disjoint, other CRS) x 4-5 chunkings incl. 1-pixel and non-dividing chunks x dtypes/nodata x optional leading time axis; sources whose first chunks / a whole time step are all nodata with an overridden destination nodata; threaded and synchronous schedulers", gen()


def _eq_oracle(args, run=None):
    import warnings

    import dask
    import numpy as np

    from odc.geo.geobox import GeoboxTiles
    from odc.geo.xr import wrap_xr

    warnings.simplefilter("ignore")
    src_g, dsts = _rp_cases()
    name = args["dst"]
    dtype, nodata = args["dtype"], args["nodata"]
    rng = np.random.default_rng(5)
    nt = 3 if args["time_axis"] else 0  # three time steps, chunked (2, 1): non-uniform chunks along the leading axis
    shape = ((nt,) if nt else ()) + tuple(src_g.shape)
    pix = rng.integers(1, 200, size=shape).astype(dtype) if dtype != "bool" else (rng.integers(0, 2, size=shape) > 0)
    dn = args.get("dst_nodata")
    if args.get("masked"):
        pix[..., :14, :18] = nodata  # the first 2 x 2 source chunks of a (7, 9) chunking
        if nt:
            pix[1] = nodata  # a whole time step
    xx = wrap_xr(pix, src_g, nodata=nodata, **({"time": ["2020-01-01", "2020-01-02", "2020-01-03"]} if nt else {}))
    if name == "other_crs":
        dst_g = xx.odc.output_geobox("EPSG:3857")
    else:
        dst_g = dsts[name]
    fails = []
    if args.get("joint"):
        cy, cx = args["src_chunks"]
        lazy_src = xx.chunk({src_g.dimensions[0]: cy, src_g.dimensions[1]: cx})
        base = dict(how=dst_g, resampling="nearest", dst_nodata=100, chunks=args["dst_chunks"])
        other = dict(base)
        v = args["joint"]
        if v == "dst_nodata":
            other["dst_nodata"] = 200
        elif v == "src_nodata":
            other["src_nodata"] = int(pix[0, 0])
        elif v == "resampling":
            other["resampling"] = "bilinear"
        elif v == "dst_geobox":
            other["how"] = dsts["aligned_shift"]
        else:
            other["chunks"] = (9, 4)
        refs = [xx.odc.reproject(**cfg_) for cfg_ in ({k: w for k, w in c_.items() if k != "chunks"} for c_ in (base, other))]
        lz = [lazy_src.odc.reproject(**c_) for c_ in (base, other)]
        got = dask.compute(*lz)
        for i, (g_, r_) in enumerate(zip(got, refs)):
            if g_.shape != r_.shape or not np.array_equal(g_.values, r_.values, equal_nan=True):
                fails.append(f"post:two lazy reprojections of one source differing only in {v}, evaluated in ONE graph, each equal their own in-memory result (result {i} differs)")
        return fails
    ydim = 1 if args["time_axis"] else 0
    dkw = {} if dn is None else dict(dst_nodata=dn)
    ref = xx.odc.reproject(dst_g, resampling="nearest", **dkw)
    cy, cx = args["src_chunks"]
    ch = {src_g.dimensions[0]: cy, src_g.dimensions[1]: cx}
    if args["time_axis"]:
        ch["time"] = 2
    kw = {} if args["dst_chunks"] is None else dict(chunks=args["dst_chunks"])
    lazy = xx.chunk(ch).odc.reproject(dst_g, resampling="nearest", **kw, **dkw)
    if lazy.shape != ref.shape or lazy.dtype != ref.dtype:
        fails.append("post:shape and dtype equal those of the in-memory reprojection")
        return fails
    # -- graph structure
    arr = lazy.data
    graph = dict(arr.__dask_graph__())
    gbt_src = GeoboxTiles(src_g, xx.chunk(ch).data.chunks[ydim : ydim + 2])
    gbt_dst = GeoboxTiles(dst_g, args["dst_chunks"] if args["dst_chunks"] is not None else (cy, cx))
    d2s = gbt_dst.grid_intersect(gbt_src)
    fill = (bool(dn) if dtype == "bool" else np.dtype(dtype).type(dn)) if dn is not None else (np.dtype(dtype).type(nodata) if nodata is not None else (np.nan if np.dtype(dtype).kind == "f" else 0))
    src_name = xx.chunk(ch).data.name
    for key in arr.__dask_keys__() if not args["time_axis"] else [k for row in arr.__dask_keys__() for k in row]:
        for k in key if isinstance(key, list) and isinstance(key[0], list) else [key]:
            for kk in k if isinstance(k, list) else [k]:
                idx = kk[1:]
                y, x = idx[ydim : ydim + 2]
                task = graph[kk]
                blk_shape = tuple(c_[i_] for c_, i_ in zip(arr.chunks, idx))
                if isinstance(task, tuple) and task and task[0] is np.full:
                    if tuple(task[1]) != blk_shape:
                        fails.append(f"post:a constant fill block has the shape of ITS destination chunk (chunk {idx}: {tuple(task[1])} vs {blk_shape})")
                        return fails
                deps = sorted(t for t in _flatten(task) if isinstance(t, tuple) and len(t) > 1 and t[0] == src_name)
                want = sorted((src_name, *idx[:ydim], sy, sx) for sy, sx in d2s.get((y, x), []))
                if deps != want:
                    fails.append(f"post:destination chunk {idx} depends on exactly the source blocks that grid_intersect lists for it ({len(deps)} vs {len(want)})")
                    return fails
    # -- values
    for sched in ("synchronous", "threads"):
        with dask.config.set(scheduler=sched):
            got = lazy.compute()
        a, b = got.values, ref.values
        if name != "other_crs":
            if not np.array_equal(a, b, equal_nan=True):
                n = int((~((a == b) | (np.isnan(a.astype('float64')) & np.isnan(b.astype('float64'))))).sum())
                fails.append(f"post:same CRS, nearest: the chunked result is pixel-identical to the in-memory one ({n} pixels differ, {sched} scheduler)")
                break
        # pixels no source pixel reaches hold the fill value, uniformly
        jj, ii = np.meshgrid(np.arange(dst_g.shape[0]) + 0.5, np.arange(dst_g.shape[1]) + 0.5, indexing="ij")
        wx, wy = dst_g.affine * (ii, jj)
        if dst_g.crs != src_g.crs:
            tr = dst_g.crs.transformer_to_crs(src_g.crs)
            wx, wy = tr(wx, wy)
        sx, sy = (~src_g.affine) * (np.asarray(wx), np.asarray(wy))
        far = (sx < -1) | (sy < -1) | (sx > src_g.shape[1] + 1) | (sy > src_g.shape[0] + 1)
        vals = a[..., far]
        ok = np.isnan(vals).all() if isinstance(fill, float) and np.isnan(fill) else (vals == fill).all()
        if not ok:
            fails.append(f"post:destination pixels that no source pixel reaches hold the fill value {fill!r} across chunk boundaries ({sched})")
            break
        if name == "disjoint":
            allfill = np.isnan(a).all() if isinstance(fill, float) and np.isnan(fill) else (a == fill).all()
            if not allfill:
                fails.append("post:a destination that does not overlap the source is all fill")
    return fails


def _flatten(t):
    if isinstance(t, tuple) and t and callable(t[0]):
        for x in t[1:]:
            yield from _flatten(x)
    elif isinstance(t, (list,)):
        for x in t:
            yield from _flatten(x)
    elif hasattr(t, "args") and hasattr(t, "func"):  # dask Task objects
        for x in t.args:
            yield from _flatten(x)
    elif hasattr(t, "key") and not isinstance(t, tuple):  # TaskRef / Alias
        yield t.key
    else:
        yield t


contract(
    f"{DK}:_dask_rio_reproject",
    ["C13"],
    ensures=[("chunked == in-memory for same-CRS nearest; unreached pixels hold the fill value; disjoint destination is all fill; every destination chunk depends on exactly the source blocks grid_intersect lists", lambda result: True)],
    verify=False,
    trusted_reason="GDAL warping and dask graph execution: BOUNDED native check (graph structure inspected, result computed under two schedulers and compared with the in-memory path)",
    native_samples=_eq_samples,
    native_oracle=_eq_oracle,
)


# ---- graph keys: two different reprojections never share task names ---------------------------------------------------------------


def _lemma_graph_name():
    """structural obligation on the source of _dask_rio_reproject: the token that makes the graph's task names
    is fresh per call (uuid4) or a hash of EVERY input the result depends on"""
    import ast

    from .values_c import _crs_source  # noqa: F401  (same idiom: source of the tree under verification)

    mod = repo(DK)
    if symbolic():
        from pyvc import shadow

        src = shadow.LOADED_SOURCES[DK]
    else:
        import inspect

        src = inspect.getsource(mod)
    fn = [n for n in ast.parse(src).body if isinstance(n, ast.FunctionDef) and n.name == "_dask_rio_reproject"][0]
    params = {a.arg for a in fn.args.args + fn.args.kwonlyargs} | ({fn.args.kwarg.arg} if fn.args.kwarg else set())
    names = [n for n in ast.walk(fn) if isinstance(n, ast.Assign) and any(isinstance(t, ast.Name) and t.id == "name" for t in n.targets) and isinstance(n.value, ast.JoinedStr)]
    claim(len(names) == 1, "the graph name is built in one place")
    used = {x.id for x in ast.walk(names[0].value) if isinstance(x, ast.Name)}
    tok_names = used - {"name"}
    claim(len(tok_names) == 1, "... from the caller's name and one token")
    tk = tok_names.pop()
    defs = [n for n in ast.walk(fn) if isinstance(n, ast.Assign) and any(isinstance(t, ast.Name) and t.id == tk for t in n.targets)]
    claim(len(defs) == 1, "the token is assigned once")
    expr = ast.unparse(defs[0].value).replace(" ", "")
    if expr == "uuid4().hex":
        claim(True, "token is fresh per call (uuid4): no two calls share task names")
        return
    call = defs[0].value
    is_tok = isinstance(call, ast.Call) and ast.unparse(call.func).split(".")[-1] == "tokenize"
    claim(is_tok, f"token is uuid4().hex or a dask tokenize(...) of the inputs (found `{expr}`)")
    mentioned = {x.id for a in call.args + [k.value for k in call.keywords] for x in ast.walk(a) if isinstance(x, ast.Name)}
    # names derived inside the function from parameters: credit the parameters they are computed from
    derived = {"gbt_src": {"s_gbox", "src"}, "gbt_dst": {"d_gbox", "chunks"}, "d2s_idx": {"s_gbox", "d_gbox", "chunks", "src"}, "dst_chunks": {"d_gbox", "chunks", "src"}, "dst_shape": {"d_gbox", "src"}}
    covered = set(mentioned)
    for k, v in derived.items():
        if k in mentioned:
            covered |= v
    need = {"src", "s_gbox", "d_gbox", "resampling", "src_nodata", "dst_nodata", "ydim", "chunks"} | ({fn.args.kwarg.arg} if fn.args.kwarg else set())
    missing = sorted((need & params) - covered)
    claim(not missing, f"a content-based token covers every input the result depends on (not covered: {missing})")


lemma("dask.graph_name_token", ["C13"], inputs=dict(), body=_lemma_graph_name, note="structural (AST) obligation on the tree under verification: two lazy reprojections that differ in any input never share dask task keys, so evaluating them in one graph cannot mix their results")


# ---- BlockAssembler.extract: which part of which block goes where (numpy is a recording ghost) ---------------------------------------------


def _lemma_ba_extract_flow(axis, roi_kind, p, y0, y1, x0, x1, fill):
    """the real extract() on a 2 x 1 mosaic of ghost blocks with one extra axis of length 3 (leading for axis=1,
    trailing for axis=0): every block is pasted from THE WINDOW's slice of the non-spatial axis into the FULL
    extent of that axis of the (already cropped) output"""
    m = repo(BL)
    log = []

    class GhostArr:
        def __init__(self, tag, dtype="int16"):
            import numpy as np

            self.tag, self.dtype = tag, np.dtype(dtype)

        def __getitem__(self, idx):
            return ("view", self.tag, idx)

    class GhostNp:
        def __getattr__(self, k):
            import numpy as np

            return getattr(np, k)

        def full(self, shape, fill_value, dtype=None):
            log.append(("full", tuple(shape), fill_value, dtype))
            return GhostArr("out", dtype)

        def copyto(self, dst, src, casting="same_kind"):
            log.append(("copyto", dst, src, casting))

        def squeeze(self, a, axis=None):
            log.append(("squeeze", axis))
            return ("squeezed", a.tag, axis)

    E = 3
    ba = object.__new__(m.BlockAssembler)
    blocks = {(0, 0): GhostArr("b00"), (1, 0): GhostArr("b10")}
    shape = (E, 7, 5) if axis == 1 else (7, 5, E)
    for k_, v_ in dict(_shape=shape, _dtype=__import__("numpy").dtype("int16"), _axis=axis, _blocks=blocks).items():
        object.__setattr__(ba, k_, v_)

    class Tiles:
        def __getitem__(self, idx):
            return (slice(0, 4), slice(0, 5)) if idx == (0, 0) else (slice(4, 7), slice(0, 5))

    object.__setattr__(ba, "_tiles", Tiles())
    yx = (slice(y0, y1), slice(x0, x1))
    if roi_kind == "yx":
        roi, eroi, sq = yx, slice(0, E), ()
    elif roi_kind == "plane":
        roi = (p, *yx) if axis == 1 else (*yx, p)
        eroi, sq = slice(p, p + 1), ((0,) if axis == 1 else (2,))
    else:
        roi = (slice(1, 3), *yx) if axis == 1 else (*yx, slice(1, 3))
        eroi, sq = slice(1, 3), ()
    saved = m.np
    try:
        m.np = GhostNp()
        out = ba.extract(fill, roi=roi)
    finally:
        m.np = saved
    with_e = (lambda a, b: (eroi, a, b)) if axis == 1 else (lambda a, b: (a, b, eroi))
    everything_e = (lambda a, b: (slice(None), a, b)) if axis == 1 else (lambda a, b: (a, b, slice(None)))
    ne = eroi.stop - eroi.start
    fulls = [e for e in log if e[0] == "full"]
    claim(len(fulls) == 1 and fulls[0][1] == ((ne, y1 - y0, x1 - x0) if axis == 1 else (y1 - y0, x1 - x0, ne)), "the output has the window's shape (non-spatial axis included)")
    claim(fulls[0][2] == (fill if fill is not None else 0), "... initialised with the fill value (0 for integers when none is given)")
    cps = [e for e in log if e[0] == "copyto"]
    claim(len(cps) == 2, "every available block is considered once")
    for (tag, (ty0, ty1)), cp in zip((("b00", (0, 4)), ("b10", (4, 7))), cps):
        # rows of this block that fall into the window, in block and in window coordinates
        s0, s1 = Max(ty0, y0), Min(ty1, y1)
        dst_view, src_view = cp[1], cp[2]
        claim(src_view[1] == tag and dst_view[1] == "out", f"{tag}: copied from that block into the output")
        sy, sx = (src_view[2][1], src_view[2][2]) if axis == 1 else (src_view[2][0], src_view[2][1])
        dy, dx = (dst_view[2][1], dst_view[2][2]) if axis == 1 else (dst_view[2][0], dst_view[2][1])
        se = src_view[2][0] if axis == 1 else src_view[2][2]
        de = dst_view[2][0] if axis == 1 else dst_view[2][2]
        claim(Implies(s1 > s0, And(sy.start == s0 - ty0, sy.stop == s1 - ty0, dy.start == s0 - y0, dy.stop == s1 - y0)), f"{tag}: the shared rows, in the block's and in the window's own coordinates")
        claim(Implies(s1 <= s0, And(sy.stop <= sy.start, dy.stop <= dy.start)) if True else True, f"{tag}: nothing copied when the block misses the window")
        claim(And(sx.start == x0, sx.stop == x1, dx.start == 0, dx.stop == x1 - x0), f"{tag}: the window's columns")
        claim(se == eroi, f"{tag}: read from the WINDOW's part of the non-spatial axis")
        claim(de == slice(None), f"{tag}: written across the WHOLE non-spatial axis of the (already cropped) output")
    if sq:
        claim(out == ("squeezed", "out", sq), "an axis indexed with a single integer is squeezed out of the result")
    else:
        claim(isinstance(out, GhostArr) and out.tag == "out" and not any(e[0] == "squeeze" for e in log), "no squeezing otherwise")


lemma(
    "blocks.extract_flow",
    ["C04", "C13"],
    inputs=dict(axis=OneOf(0, 1), roi_kind=OneOf("yx", "plane", "range"), p=OneOf(0, 1, 2), y0=Int(ge=0), y1=Int(), x0=Int(ge=0), x1=Int(), fill=OneOf(None, 7)),
    requires=[lambda y0, y1, x0, x1: And(y0 < y1, y1 <= 7, x0 < x1, x1 <= 5)],
    body=_lemma_ba_extract_flow,
    unstub=[f"{BL}:BlockAssembler.extract", "odc.geo.roi:roi_intersect3", "odc.geo.roi:slice_intersect3", "odc.geo.roi:_norm_slice_or_error", "odc.geo.roi:roi_shape", "odc.geo.roi:roi_normalise", "odc.geo.roi:_norm_slice"],
    note="data flow of the real extract() over ghost blocks and a recording numpy: symbolic Y/X window on a 2 x 1 mosaic with a non-spatial axis of length 3 (leading or trailing), window = Y/X only, one plane, or a sub-range; the per-axis intersection arithmetic is roi_intersect3's contract",
)


# ---- _dask_rio_reproject: the graph that is built (dask's Array / HighLevelGraph constructors are recording ghosts) -------------------


def _lemma_graph_build(ydim, uniform_time):
    m = repo(DK)
    import numpy as np

    log = {}
    t_chunks = ((2, 2) if uniform_time else (2, 1)) if ydim == 1 else None
    y_chunks, x_chunks = (3, 4), (5, 2)
    src_chunks = ((t_chunks,) if ydim else ()) + (y_chunks, x_chunks)

    class Src:
        name = "src-arr"
        dtype = np.dtype("int16")
        chunks = src_chunks
        shape = tuple(sum(c) for c in src_chunks)
        chunksize = tuple(max(c) for c in src_chunks)

        def __dask_keys__(self):
            def rec(prefix, dims):
                if not dims:
                    return ("src-arr", *prefix)
                return [rec(prefix + (i,), dims[1:]) for i in range(len(dims[0]))]

            return rec((), src_chunks)

    d2s = {(0, 0): [(0, 0), (1, 0)], (1, 1): [(1, 1)]}  # destination chunk -> source chunks; the other chunks need nothing

    class GBT:
        def __init__(self, gbox, chunks):
            self.gbox, self.chunks_in = gbox, chunks
            self.chunks = ((4, 2), (3, 3)) if gbox == "DST" else (y_chunks, x_chunks)

        def grid_intersect(self, other):
            log["grid_intersect"] = (self.gbox, other.gbox)
            return d2s

        def chunk_shape(self, idx):
            class S:
                yx = (self.chunks[0][idx[0]], self.chunks[1][idx[1]])

            return S()

    class DstBox:
        class shape:  # noqa: N801
            yx = (6, 6)

        def __eq__(self, o):
            return o == "DST"

        __hash__ = None

    saved = (m.GeoboxTiles, m.HighLevelGraph, m.da, m.GeoBox, m.uuid4, m.resampling_s2rio)
    try:
        m.GeoboxTiles = lambda gbox, chunks: GBT("DST" if isinstance(gbox, DstBox) else "SRC", chunks)
        m.GeoBox = object  # isinstance(s_gbox, GeoBox) is an assert only

        class HLG:
            @staticmethod
            def from_collections(name, dsk, dependencies=()):
                log["hlg"] = (name, dict(dsk), dependencies)
                return ("graph", name)

        class DA:
            @staticmethod
            def Array(dsk, name, chunks=None, dtype=None, shape=None):
                log["array"] = dict(dsk=dsk, name=name, chunks=chunks, dtype=dtype, shape=shape)
                return ("dask-array", name)

            Array = Array  # noqa

        m.HighLevelGraph, m.da = HLG, DA

        class U:
            hex = "TOKEN"

        m.uuid4 = lambda: U()
        m.resampling_s2rio = lambda s: ("rio", s)
        src = Src()
        out = m._dask_rio_reproject(src, object(), DstBox(), "nearest", src_nodata=-1, dst_nodata=None, ydim=ydim, chunks=(4, 3))
    finally:
        m.GeoboxTiles, m.HighLevelGraph, m.da, m.GeoBox, m.uuid4, m.resampling_s2rio = saved
    name, dsk, deps = log["hlg"]
    claim(log["grid_intersect"] == ("DST", "SRC"), "the dependency map is the destination tiling intersected with the source tiling")
    claim(name == "reproject-TOKEN" and deps == (src,), "a fresh graph name per call; the graph depends on the source array")
    dst_chunks = ((t_chunks,) if ydim else ()) + ((4, 2), (3, 3))
    claim(log["array"]["chunks"] == dst_chunks and log["array"]["shape"] == ((sum(t_chunks),) if ydim else ()) + (6, 6) and log["array"]["dtype"] == src.dtype, "output array: the source's non-spatial chunking around the destination tiling, destination shape, source dtype")
    want_keys = {(name, *idx) for idx in np.ndindex(*[len(c) for c in dst_chunks])}
    claim(set(dsk) == want_keys, "exactly one task per destination chunk")
    fill = np.int16(-1)
    for key, task in dsk.items():
        idx = key[1:]
        y, x = idx[ydim : ydim + 2]
        blk = tuple(c[i] for c, i in zip(dst_chunks, idx))
        if (y, x) in d2s:
            claim(task[1] == (y, x) and getattr(task[0], "func", None) is m._do_chunked_reproject, f"chunk {idx}: a reprojection task for its own tile")
            claim(list(task[2:]) == [("src-arr", *idx[:ydim], sy, sx) for sy, sx in d2s[(y, x)]], f"chunk {idx}: fed with exactly the source blocks of the dependency map, of the same non-spatial index, in order")
            kw = task[0].keywords
            claim(kw["src_nodata"] == -1 and kw["dst_nodata"] is None and kw["axis"] == ydim and kw["resampling"] == ("rio", "nearest"), f"chunk {idx}: nodata, axis and resampling passed on")
        else:
            claim(getattr(task[0], "__vc_native__", task[0]) is np.full and tuple(task[1]) == blk and task[2] == fill and type(task[2]) is np.int16 and task[3] == src.dtype, f"chunk {idx}: no source reaches it: a constant block of ITS OWN shape holding the fill value")


lemma(
    "dask.graph_build_flow",
    ["C13"],
    inputs=dict(ydim=OneOf(0, 1), uniform_time=Bool()),
    body=_lemma_graph_build,
    unstub=[f"{DK}:_dask_rio_reproject", f"{DK}:resolve_fill_value"],
    note="the real _dask_rio_reproject with dask's Array / HighLevelGraph, GeoboxTiles and uuid4 recorded: keys, dependencies, per-chunk tasks and constant fill blocks (non-uniform chunks along a leading axis included)",
)
