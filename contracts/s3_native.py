"""
Native replay oracle for the C18 lemmas: a deterministic turn-based scheduler runs 2-3 real threads
through the REAL DelayedS3Writer code against a fake S3 client, yielding control at every point where
shared state is read or written, a lock is taken or released, or the storage client is called.  The
schedules are enumerated depth-first (bounded); each is checked for: exactly one
create_multipart_upload, all parts under that id, no exception in any worker.

This is the concretisation of an abstract counterexample of the rely/guarantee proof (which gives no
schedule of its own): it searches the schedule space of the real code for a failing interleaving.
"""
from __future__ import annotations

import threading


class Sched:
    def __init__(self, choices):
        self.choices = list(choices)
        self.pos = 0
        self.cv = threading.Condition()
        self.current = None
        self.waiting = {}  # tid -> predicate (runnable?)
        self.done = set()
        self.trace = []
        self.n_choice_points = []

    def yield_point(self, tid, runnable=lambda: True, label=""):
        with self.cv:
            self.waiting[tid] = runnable
            self.current = None
            self.cv.notify_all()
            while self.current != tid:
                self.cv.wait(timeout=5)
                if self.current is None and tid not in self.waiting:
                    break
            self.waiting.pop(tid, None)
            self.trace.append((tid, label))

    def finish(self, tid):
        with self.cv:
            self.done.add(tid)
            self.waiting.pop(tid, None)
            self.current = None
            self.cv.notify_all()

    def run(self, n_threads):
        import time

        deadline = time.time() + 20
        while True:
            with self.cv:
                while self.current is not None and time.time() < deadline:
                    self.cv.wait(timeout=0.5)
                if len(self.done) == n_threads:
                    return True
                # wait until every live thread is parked
                live = n_threads - len(self.done)
                while len(self.waiting) < live and time.time() < deadline:
                    self.cv.wait(timeout=0.5)
                    live = n_threads - len(self.done)
                    if len(self.done) == n_threads:
                        return True
                ready = sorted(t for t, p in self.waiting.items() if p())
                if not ready:
                    return False  # deadlock / timeout
                if self.pos < len(self.choices):
                    k = self.choices[self.pos] % len(ready)
                else:
                    k = 0
                self.n_choice_points.append(len(ready))
                self.pos += 1
                self.current = ready[k]
                self.cv.notify_all()
            if time.time() > deadline:
                return False


_TLS = threading.local()


def tid():
    return getattr(_TLS, "tid", None)


class GateLock:
    def __init__(self, sched):
        self.s = sched
        self.owner = None

    def __enter__(self):
        t = tid()
        self.s.yield_point(t, lambda: self.owner is None, "lock.acquire")
        self.owner = t
        return self

    def __exit__(self, *a):
        self.owner = None
        self.s.yield_point(tid(), label="lock.released")
        return False


class FakeS3:
    def __init__(self, sched, log):
        self.s, self.log = sched, log

    def create_multipart_upload(self, **kw):
        self.s.yield_point(tid(), label="s3.create")
        self.log["creates"] += 1
        return {"UploadId": f"U{self.log['creates']}"}

    def upload_part(self, **kw):
        self.s.yield_point(tid(), label="s3.upload_part")
        self.log["parts"].append((kw["PartNumber"], kw["UploadId"]))
        return {"ETag": "e"}

    def complete_multipart_upload(self, **kw):
        return {"ETag": "e"}


class SharedVar:
    def __init__(self, sched):
        self.s = sched
        self.v = None

    def get(self, timeout=None):
        self.s.yield_point(tid(), label="var.get")
        return self.v

    def set(self, v):
        self.s.yield_point(tid(), label="var.set")
        self.v = v

    def delete(self):
        pass


def run_schedule(mode, choices, n_threads=2):
    import distributed

    import odc.geo.cog._s3 as m

    sched = Sched(choices)
    log = dict(creates=0, parts=[], errors=[])
    lock = GateLock(sched)
    var = SharedVar(sched)
    s3 = FakeS3(sched, log)

    def mk_mpu():
        class MPU(m.MultiPartUpload):
            def s3_client(self):
                return s3

            @property
            def started(self):
                sched.yield_point(tid(), label="mpu.started?")
                return len(self.uploadId) > 0

        return MPU("bucket", "key")

    shared_mpu = mk_mpu()
    saved = (m._dask_client, m._mpu_local_lock, distributed.Lock, distributed.Variable)
    m._dask_client = (lambda: object()) if mode == "dist" else (lambda: None)
    m._mpu_local_lock = lambda k="mpu_lock": lock
    distributed.Lock = lambda name, client=None: lock
    distributed.Variable = lambda name, client=None: var

    def worker(i):
        _TLS.tid = i
        sched.yield_point(i, label="start")
        try:
            mpu = shared_mpu if mode == "local" else mk_mpu()
            w = m.DelayedS3Writer(mpu, {})
            w(i + 1, b"x")
        except BaseException as e:  # pylint: disable=broad-except
            log["errors"].append(f"worker {i}: {type(e).__name__}: {e}")
        finally:
            sched.finish(i)

    ths = [threading.Thread(target=worker, args=(i,), daemon=True) for i in range(n_threads)]
    try:
        for t in ths:
            t.start()
        ok = sched.run(n_threads)
        for t in ths:
            t.join(timeout=2)
    finally:
        m._dask_client, m._mpu_local_lock, distributed.Lock, distributed.Variable = saved
    fails = []
    if not ok:
        fails.append("schedule did not complete (deadlock/timeout)")
    if log["errors"]:
        fails.append("a write failed: " + "; ".join(log["errors"]))
    if log["creates"] != 1:
        fails.append(f"{log['creates']} multi-part uploads initiated instead of 1")
    if len({u for _, u in log["parts"]}) > 1:
        fails.append(f"parts uploaded under different ids: {log['parts']}")
    return fails, sched.n_choice_points, sched.trace


def explore(mode, n_threads=2, max_runs=1500):
    """depth-first enumeration of the choice sequences"""
    stack = [[]]
    runs = 0
    while stack and runs < max_runs:
        prefix = stack.pop()
        fails, npts, trace = run_schedule(mode, prefix, n_threads)
        runs += 1
        if fails:
            return fails, prefix, trace, runs
        for i in range(len(prefix), len(npts)):
            for alt in range(1, npts[i]):
                stack.append(prefix + [0] * (i - len(prefix)) + [alt])
    return [], None, None, runs


def oracle(mode):
    def f(args, run=None):
        fails, prefix, trace, runs = explore(mode, 2)
        if fails:
            return [f"{x} [schedule {prefix}: {' '.join(f'{t}:{l}' for t, l in trace)[:600]}]" for x in fails]
        return []

    return f
