"""
Contracts for odc/geo/gridspec.py.   Property: C14 (a GridSpec tiles the plane without gaps or overlaps).

A GridSpec is two Bin1D binnings (math_c proves: bin i is [origin + i*dir*sz, +sz), neighbours share
their edge, lookup inverts indexing, rebuild from a sample bin reproduces the binning).  Here: the
constructor ties bin size to tile_shape x |resolution|, a tile's GeoBox has exactly the footprint
xbin[ix] x ybin[iy] with the specified shape/resolution, point lookup, index bounds of a query box,
rebuilding from a sample tile, and the web-tile grid.
"""
from pyvc.api import *  # noqa: F401,F403

from .geobox_c import BBOX, CRSShape, RegionStandIn, coeffs, crs_obj
from .math_c import BIN

GS = "odc.geo.gridspec"
TYPES = "odc.geo.types"
MATH = "odc.geo.math"
GEOM = "odc.geo.geom"


def _res(sx, sy):
    return Build(f"{TYPES}:Resolution", Real(gt=0) if sx > 0 else Real(lt=0), Real(gt=0) if sy > 0 else Real(lt=0))


def GRIDSPEC(sx, sy):
    return Obj(
        f"{GS}:GridSpec",
        crs=CRSShape("EPSG:3857"),
        _shape=Build(f"{TYPES}:Shape2d", x=Int(ge=1), y=Int(ge=1)),
        resolution=_res(sx, sy),
        tile_size=Build(f"{TYPES}:XY", Real(gt=0), Real(gt=0)),
        origin=Build(f"{TYPES}:XY", Real(), Real()),
        _ybin=BIN,
        _xbin=BIN,
    )


ALL_GS = [GRIDSPEC(sx, sy) for sx in (1, -1) for sy in (1, -1)]


def wf_gs(g):
    return And(
        g.tile_size.x == g._shape.x * Abs(g.resolution.x),
        g.tile_size.y == g._shape.y * Abs(g.resolution.y),
        g._xbin.sz == g.tile_size.x,
        g._ybin.sz == g.tile_size.y,
        g._xbin.origin == g.origin.x,
        g._ybin.origin == g.origin.y,
    )


def bin_iv(b, i):
    lo = b.origin + i * b.direction * b.sz
    return lo, lo + b.sz


# ---- constructor ---------------------------------------------------------------------------------------------

contract(
    f"{GS}:GridSpec.__init__",
    ["C14"],
    inputs=[
        dict(self=Obj(f"{GS}:GridSpec"), crs="EPSG:3857", tile_shape=Tup(Int(ge=1), Int(ge=1)), resolution=_res(sx, sy), origin=OneOf(None, Build(f"{TYPES}:XY", Real(), Real())), flipx=OneOf(False, True), flipy=OneOf(False, True))
        for sx in (1, -1)
        for sy in (1, -1)
    ]
    + [dict(self=Obj(f"{GS}:GridSpec"), crs="EPSG:3857", tile_shape=Tup(Int(ge=1), Int(ge=1)), resolution=Real(gt=0), origin=None, flipx=False, flipy=False)],
    ensures=[
        ("representation invariant: tile size = tile shape x |resolution| per axis (x with x, y with y); bins start at the origin", lambda self: wf_gs(self)),
        (
            "fields as specified",
            lambda self, tile_shape, resolution, origin, flipx, flipy: And(
                self._shape.y == tile_shape[0],
                self._shape.x == tile_shape[1],
                self.resolution.x == (resolution.x if hasattr(resolution, "x") else resolution),
                self.resolution.y == (resolution.y if hasattr(resolution, "y") else -resolution),
                self.origin.x == (0 if origin is None else origin.x),
                self.origin.y == (0 if origin is None else origin.y),
                self._xbin.direction == (-1 if flipx else 1),
                self._ybin.direction == (-1 if flipy else 1),
            ),
        ),
    ],
    inline=True,
)

# ---- point lookup ------------------------------------------------------------------------------------------------

contract(
    f"{GS}:GridSpec.pt2idx",
    ["C14"],
    inputs=[dict(self=g, x=Real(), y=Real()) for g in ALL_GS],
    requires=[lambda self: wf_gs(self)],
    ensures=[
        (
            "the point lies in the half-open footprint of the returned tile",
            lambda self, x, y, result: And(
                bin_iv(self._xbin, result.x)[0] <= x, x < bin_iv(self._xbin, result.x)[1], bin_iv(self._ybin, result.y)[0] <= y, y < bin_iv(self._ybin, result.y)[1], is_int_obj(result.x), is_int_obj(result.y)
            ),
        )
    ],
    returns=lambda self: Build(f"{TYPES}:Index2d", x=Int(), y=Int()),
)

# ---- a tile's GeoBox ---------------------------------------------------------------------------------------------------

_IDX = OneOf(Tup(Int(), Int()), Build(f"{TYPES}:Index2d", x=Int(), y=Int()))


def _ixy(idx):
    return (idx[0], idx[1]) if isinstance(idx, tuple) else (idx.x, idx.y)


def _tile_post(self, tile_index, result):
    ix, iy = _ixy(tile_index)
    a, b, c, d, e, f = coeffs(result.affine)
    nx, ny = self._shape.x, self._shape.y
    x0, x1 = bin_iv(self._xbin, ix)
    y0, y1 = bin_iv(self._ybin, iy)
    # the two opposite pixel corners (0,0) and (nx,ny) map to opposite corners of the footprint
    px0, px1 = c, c + nx * a
    py0, py1 = f, f + ny * e
    return And(
        a == self.resolution.x,
        e == self.resolution.y,
        b == 0,
        d == 0,
        result.shape.x == nx,
        result.shape.y == ny,
        Min(px0, px1) == x0,
        Max(px0, px1) == x1,
        Min(py0, py1) == y0,
        Max(py0, py1) == y1,
        result.crs is self.crs,
    )


contract(
    f"{GS}:GridSpec.tile_geobox",
    ["C14"],
    inputs=[dict(self=g, tile_index=_IDX) for g in ALL_GS],
    requires=[lambda self: wf_gs(self)],
    ensures=[("the tile's GeoBox has the specified shape and resolution and its footprint is exactly xbin[ix] x ybin[iy]", _tile_post)],
    ghost_args={},
)

contract(
    f"{GS}:GridSpec.__getitem__",
    ["C14"],
    inputs=[dict(self=g, idx=_IDX) for g in ALL_GS[:1]],
    requires=[lambda self: wf_gs(self)],
    ensures=[("same as tile_geobox", lambda self, idx, result: _tile_post(self, idx, result))],
    inline=True,
    unstub=[f"{GS}:GridSpec.tile_geobox"],
)

# ---- idx_bounds ------------------------------------------------------------------------------------------------------------

TOL = 1e-8

contract(
    f"{GS}:GridSpec.idx_bounds",
    ["C14"],
    inputs=[dict(self=g, bounds=BBOX("EPSG:3857")) for g in ALL_GS],
    requires=[lambda self: wf_gs(self), lambda bounds: And(bounds.left + 2 * TOL <= bounds.right, bounds.bottom + 2 * TOL <= bounds.top)],
    ensures=[
        (
            "index range [ix1, ix2) x [iy1, iy2): exactly the bins met by the query shrunk by 1e-8 on each side",
            lambda self, bounds, result, j: And(
                Iff(And(result[0] <= j, j < result[2]), And(bin_iv(self._xbin, j)[0] <= bounds.right - TOL, bin_iv(self._xbin, j)[1] > bounds.left + TOL)),
                Iff(And(result[1] <= j, j < result[3]), And(bin_iv(self._ybin, j)[0] <= bounds.top - TOL, bin_iv(self._ybin, j)[1] > bounds.bottom + TOL)),
            ),
        ),
        ("non-empty ranges", lambda result: And(result[0] < result[2], result[1] < result[3])),
    ],
    returns=lambda self: Tup(Int(), Int(), Int(), Int()),
    note="j is a ghost tile index, universally quantified: membership in the returned range <=> the bin meets the (shrunk) query",
)
# give the contract its ghost input j
from pyvc.contract import CONTRACTS as _C  # noqa: E402

for _case in _C[f"{GS}:GridSpec.idx_bounds"].inputs:
    _case["j"] = Int()

# ---- from_sample_tile --------------------------------------------------------------------------------------------------------


def _fst_body(g, ix, iy):
    """a grid rebuilt from any one of its tiles (footprint, index, shape, flips) has the same bins and resolution"""
    m = repo(GS)
    BB = repo(GEOM).BoundingBox
    x0, x1 = g._xbin[ix]
    y0, y1 = g._ybin[iy]
    box = RegionStandIn(BB(x0, y0, x1, y1, g.crs))
    flipx, flipy = g._xbin.direction == -1, g._ybin.direction == -1
    r = m.GridSpec.from_sample_tile(box, shape=(g._shape.y, g._shape.x), idx=(ix, iy), flipx=flipx, flipy=flipy)
    for name in ("_xbin", "_ybin"):
        a, b = getattr(r, name), getattr(g, name)
        claim(And(a.sz == b.sz, a.origin == b.origin, a.direction == b.direction), f"{name} reproduced")
    claim(And(r._shape.x == g._shape.x, r._shape.y == g._shape.y), "tile shape reproduced")
    claim(And(Abs(r.resolution.x) == Abs(g.resolution.x), Abs(r.resolution.y) == Abs(g.resolution.y)), "pixel size reproduced")
    claim(And(r.resolution.x > 0, r.resolution.y < 0), "rebuilt grid is north-up (documented: resolution=(-ysz/ny, xsz/nx))")


for _k, _g in enumerate(ALL_GS):
    lemma(
        f"gridspec.from_sample_tile_roundtrip_{_k}",
        ["C14"],
        inputs=dict(g=_g, ix=Int(), iy=Int()),
        requires=[lambda g: wf_gs(g)],
        body=_fst_body,
        unstub=[f"{GS}:GridSpec.from_sample_tile"],
        note="the tile footprint is handed over as a stand-in region carrying the bounding box xbin[ix] x ybin[iy] (tile_geobox's postcondition); shapely is not involved",
    )

# ---- web tiles ---------------------------------------------------------------------------------------------------------------------

R_EARTH = 6_378_137


def _box_standin(left, bottom, right, top, crs=None):
    BB = repo(GEOM).BoundingBox
    return RegionStandIn(BB(left, bottom, right, top, crs_obj("EPSG:3857")))


contract(
    f"{GEOM}:box",
    ["C14"],
    inputs=dict(left=Real(), bottom=Real(), right=Real(), top=Real(), crs="EPSG:3857"),
    ensures=[("a polygon whose bounding box is (left, bottom, right, top) in the given CRS", lambda left, bottom, right, top, result: And(result.boundingbox.left == left, result.boundingbox.bottom == bottom, result.boundingbox.right == right, result.boundingbox.top == top))],
    returns=lambda left, bottom, right, top: Value(_box_standin(left, bottom, right, top)),
    verify=False,
    trusted_reason="shapely box(): assumed; the stub returns a stand-in region with exactly these bounds",
    native_samples=lambda: ("12 boxes", ({"left": a, "bottom": b, "right": a + w, "top": b + h, "crs": "EPSG:3857"} for a in (-1e7, 0.0, 3.5) for b in (-2.0, 1e6) for w, h in ((1.0, 2.0), (1e5, 1e-3)))),
)


def _web_body(zoom, npix, i, j):
    import math

    m = repo(GS)
    g = m.GridSpec.web_tiles(zoom, npix)
    piR = math.pi * R_EARTH
    T = g._xbin.sz
    claim(T * pow2(zoom) == 2 * piR, "2**zoom tiles of side T span the 2*pi*R of the web-mercator square")
    claim(And(g._ybin.sz == T, g._shape.x == npix, g._shape.y == npix), "square tiles of npix x npix pixels")
    x0, x1 = g._xbin[i]
    y0, y1 = g._ybin[j]
    claim(And(x0 == -piR + i * T, x1 == -piR + (i + 1) * T), "tile column i spans [-pi R + i T, -pi R + (i+1) T)")
    claim(And(y1 == piR - j * T, y0 == piR - (j + 1) * T), "tile row j spans (pi R - (j+1) T, pi R - j T]  (slippy-map rows count down from the top)")


lemma(
    "gridspec.web_tiles",
    ["C14"],
    inputs=dict(zoom=Int(ge=0), npix=Int(ge=1), i=Int(), j=Int()),
    body=_web_body,
    unstub=[f"{GS}:GridSpec.web_tiles", f"{GS}:GridSpec.from_sample_tile"],
    note="2**(1-zoom) through the pow2 axioms (pow2(0)=1, pow2(k+1)=2 pow2(k)); pi is the double math.pi",
)

# ---- bounded stand-ins: the enumerating queries (double range loop / shapely filter) -------------------------------------------


def _gs_samples():
    import itertools
    import random

    from odc.geo import geom
    from odc.geo.gridspec import GridSpec
    from odc.geo.types import resxy_, xy_

    rnd = random.Random(int(__import__("os").environ.get("PYVC_SEED", "0")))

    def gen():
        for (ny, nx), (rx, ry), (ox, oy), (fx, fy) in itertools.product([(2, 3), (1, 1)], [(1.0, -1.0), (0.5, 2.0), (-2.0, -0.25)], [(0.0, 0.0), (0.3, -1.7)], [(False, False), (True, False), (False, True)]):
            gs = GridSpec("EPSG:3857", (ny, nx), resxy_(rx, ry), origin=xy_(ox, oy), flipx=fx, flipy=fy)
            sx, sy = gs.tile_size.xy
            for _ in range(6):
                a, b = rnd.uniform(-3, 3) * sx, rnd.uniform(-3, 3) * sy
                w, h = rnd.choice([0.2, 1.0, 2.5]) * sx, rnd.choice([0.2, 1.0, 2.5]) * sy
                yield dict(self=gs, bounds=geom.BoundingBox(a, b, a + w, b + h, "EPSG:3857"))
            # edge contacts: query ending exactly on tile edges
            x0, x1 = gs._xbin[1]
            y0, y1 = gs._ybin[-1]
            yield dict(self=gs, bounds=geom.BoundingBox(x0, y0, x1, y1, "EPSG:3857"))

    return "216 grids x query boxes (tile shapes 2x3/1x1, 3 resolutions of either sign, 2 origins, 3 flip settings; random boxes seeded by VERIF_SEED + one edge-contact box each)", gen()


def _overlap(iv, lo, hi):
    return iv[0] < hi - TOL and iv[1] > lo + TOL


def _tiles_native_post(self, bounds, result):
    got = sorted(idx for idx, _ in result)
    rng = range(-12, 13)
    want = sorted((ix, iy) for ix in rng for iy in rng if _overlap(self._xbin[ix], bounds.left, bounds.right) and _overlap(self._ybin[iy], bounds.bottom, bounds.top))
    ok_boxes = all(gb.shape == self.tile_shape for _, gb in result)
    return got == want and len(set(got)) == len(got) and ok_boxes


contract(
    f"{GS}:GridSpec.tiles",
    ["C14"],
    ensures=[("returns exactly the tiles whose footprint overlaps the query (edge contacts within 1e-8 excluded), each once", _tiles_native_post)],
    verify=False,
    trusted_reason="generator over range(iy1, iy2) x range(ix1, ix2) of idx_bounds (proved): BOUNDED native check against brute force",
    native_samples=_gs_samples,
)


# ---- tiles() / tiles_from_geopolygon(): data flow (the index bounds are idx_bounds' contract; predicates are shapely's) ------------------


def _lemma_gs_tiles_flow(ix1, iy1, nx, ny, use_cache, polygon):
    m = repo(GS)
    G = m.GridSpec
    ix2, iy2 = ix1 + nx, iy1 + ny
    log = []

    class TileBox:
        def __init__(self, idx):
            self.idx = idx
            self.extent = ("extent-of", idx)

    g = object.__new__(G)
    object.__setattr__(g, "crs", "grid-crs")
    saved = (G.__dict__["idx_bounds"], G.__dict__["tile_geobox"])
    try:
        G.idx_bounds = lambda self, bounds: (log.append(("idx_bounds", bounds)), (ix1, iy1, ix2, iy2))[1]
        G.tile_geobox = lambda self, idx: (log.append(("tile_geobox", idx)), TileBox(idx))[1]
        cache = {(ix1, iy1): TileBox((ix1, iy1))} if use_cache else None
        pre_cached = None if cache is None else cache[(ix1, iy1)]
        if polygon:

            class Poly:
                boundingbox = "bbox-of-reprojected"

                def __init__(self, tag):
                    self.tag = tag

                def to_crs(self, crs, **kw):
                    log.append(("to_crs", crs, kw))
                    return Poly("reprojected")

                def disjoint(self, ext):
                    return (ext[1][0] + ext[1][1]) % 2 == 1  # keeps tiles with an even index sum

            out = list(g.tiles_from_geopolygon(Poly("query"), cache))
        else:
            out = list(g.tiles("the-bounds", cache))
    finally:
        G.idx_bounds, G.tile_geobox = saved
    every = [(ix, iy) for iy in range(iy1, iy2) for ix in range(ix1, ix2)]
    if polygon:
        claim(log[0] == ("to_crs", "grid-crs", {"check_and_fix": True}), "the polygon is reprojected into the grid's CRS first")
        claim(("idx_bounds", "bbox-of-reprojected") in log, "index bounds come from the bounding box of the reprojected polygon")
        want = [i for i in every if (i[0] + i[1]) % 2 == 0]
    else:
        claim(log[0] == ("idx_bounds", "the-bounds"), "index bounds of the query box")
        want = every
    claim([i for i, _ in out] == want, "every tile index of the bounds (x fastest, then y), each once" + (", filtered by 'not disjoint from the polygon'" if polygon else ""))
    claim(all(gb.idx == i for i, gb in out), "each index comes with ITS tile's GeoBox")
    made = [e[1] for e in log if e[0] == "tile_geobox"]
    if use_cache:
        claim((ix1, iy1) not in made and (not every or out[0][1] is pre_cached or (polygon and (ix1 + iy1) % 2 == 1)), "a cached GeoBox is re-used, not rebuilt")
        claim(all(cache[i].idx == i for i in every), "every visited tile ends up in the cache under its own index")
    else:
        claim(made == every, "without a cache each tile's GeoBox is built once")


lemma(
    "gridspec.tiles_flow",
    ["C14"],
    inputs=dict(ix1=OneOf(-2, 0, 3), iy1=OneOf(-1, 0), nx=OneOf(0, 1, 3), ny=OneOf(0, 2), use_cache=Bool(), polygon=Bool()),
    body=_lemma_gs_tiles_flow,
    unstub=[f"{GS}:GridSpec.tiles", f"{GS}:GridSpec.tiles_from_geopolygon"],
    note="data flow of the real tiles() / tiles_from_geopolygon() with idx_bounds and tile_geobox recorded (both proved separately): enumeration order, cache use, polygon filter",
)
