import sys, time
sys.path.insert(0, '/verif')
from pyvc import main as M, engine
CON = M._load_all()
ref = sys.argv[1]; case = int(sys.argv[2]) if len(sys.argv) > 2 else 0
C = CON[ref]
import cProfile, pstats
t0=time.time()
pr = cProfile.Profile(); pr.enable()
res = engine.explore_case(C, case, C.cases()[case], budget_s=float(sys.argv[3]) if len(sys.argv)>3 else 60)
pr.disable()
print('wall', time.time()-t0, 'paths', res['paths'], 'solver_time', res['solver_time'], 'undecided', res['undecided'][:3])
for i in res['instances']:
    if i['status']!='discharged' or i.get('time',0)>1: print(i['oid'], i['status'], i.get('time'), i.get('witness'), i.get('note'))
pstats.Stats(pr).sort_stats('cumulative').print_stats(18)
